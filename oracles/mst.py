"""Exact oracles for minimum spanning trees / forests (C13).  Independent of solvor: no heap, no union-find.

Graphs are (n, edges) with nodes 0..n-1 and edges = list of (u, v, w); self loops and parallel edges allowed.
Weights are ints or floats whose sums are exactly representable; all sums are taken exactly (int / Fraction).

* components(n, edges)            - connected components by naive label merging.
* enum_forest_weight(n, edges)    - minimum over ALL spanning forests, by enumerating every subset of n-c edges
                                    (the definition of the property; only for small graphs).
* dense_prim_forest_weight(...)   - array-based O(V^2) Prim per component (no heap), for larger graphs.
* is_min_forest_certificate(...)  - self-certifying test of a given spanning forest: cycle property (every
                                    non-forest edge is at least as heavy as every edge on the forest path
                                    between its ends).
"""
from __future__ import annotations

from fractions import Fraction
from itertools import combinations
from math import comb


def exact(w):
    """int stays int, float becomes the Fraction it denotes."""
    if isinstance(w, int):
        return w
    return Fraction(w)


def components(n, edges):
    """label[i] for every node (naive merging) and the number of components."""
    label = list(range(n))
    for e in edges:
        a, b = label[e[0]], label[e[1]]
        if a != b:
            label = [a if x == b else x for x in label]
    return label, len(set(label))


def is_spanning_forest(n, c, tree):
    """tree: list of (u, v, w). True iff acyclic and it has exactly c components (c = components of the graph)."""
    label = list(range(n))
    for u, v, _ in tree:
        a, b = label[u], label[v]
        if a == b:
            return False
        label = [a if x == b else x for x in label]
    return len(set(label)) == c


def n_subsets(n, edges):
    _, c = components(n, edges)
    m = sum(1 for e in edges if e[0] != e[1])
    return comb(m, n - c)


def enum_forest_weight(n, edges):
    """(minimum total weight over all spanning forests, number of components, number of spanning forests)."""
    _, c = components(n, edges)
    cand = [e for e in edges if e[0] != e[1]]
    k = n - c
    best = None
    count = 0
    for sub in combinations(cand, k):
        if is_spanning_forest(n, c, sub):
            count += 1
            s = sum(exact(e[2]) for e in sub)
            if best is None or s < best:
                best = s
    assert best is not None  # a spanning forest always exists
    return best, c, count


def dense_prim_forest_weight(n, edges):
    """(minimum spanning forest weight, number of components) with an O(V^2) array Prim per component."""
    INF = None
    best = {}
    for u, v, w in edges:
        if u == v:
            continue
        w = exact(w)
        k = (u, v) if u < v else (v, u)
        if k not in best or w < best[k]:
            best[k] = w
    nbr = [[] for _ in range(n)]
    for (u, v), w in best.items():
        nbr[u].append((v, w))
        nbr[v].append((u, w))
    done = [False] * n
    total = 0
    c = 0
    for root in range(n):
        if done[root]:
            continue
        c += 1
        key = {root: 0}
        while key:
            x = min(key, key=lambda y: key[y])
            total += key.pop(x)
            done[x] = True
            for y, w in nbr[x]:
                if not done[y] and (y not in key or w < key[y]):
                    key[y] = w
    return total, c


def is_min_forest_certificate(n, edges, tree):
    """tree must be a spanning forest of (n, edges) given as (u, v, w) triples.  True iff it satisfies the cycle
    property, i.e. is of minimum weight."""
    adj = [[] for _ in range(n)]
    for u, v, w in tree:
        adj[u].append((v, exact(w)))
        adj[v].append((u, exact(w)))

    def path_max(a, b):
        # heaviest edge on the forest path a..b (None if none)
        stack = [(a, -1, None)]
        while stack:
            x, parent, mx = stack.pop()
            if x == b:
                return mx
            for y, w in adj[x]:
                if y != parent:
                    stack.append((y, x, w if mx is None or w > mx else mx))
        raise AssertionError("ends not connected by the forest")

    for u, v, w in edges:
        if u == v:
            continue
        mx = path_max(u, v)
        if mx is not None and exact(w) < mx:
            return False
    return True

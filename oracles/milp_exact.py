"""Exact MILP oracle for C04 (small bounded instances, integer data).

    solve(c, A, b, integers, cap=8) -> dict

for   min AND max  c.x   s.t.  A x <= b, x >= 0, x_j integer for j in `integers`.

Method (deliberately nothing like branch and bound):
  1. the integer box: for every integer variable j an upper bound U_j, taken from the explicit single-variable rows
     a*x_j <= b_i (a > 0) when present, else from the exact LP  max x_j  over the relaxation (certified by
     oracles.lp_exact); if that LP is unbounded the box is cut at `cap` and the answer is flagged complete=False
     (then only its *witnesses* are usable: a feasible point refutes INFEASIBLE, a better point refutes OPTIMAL);
  2. every integer assignment z of the box is enumerated; without continuous variables the rows are evaluated
     directly in integers, otherwise the remaining LP over the continuous variables
         min/max c_C.y  s.t.  A_C y <= b - A_I z,  y >= 0
     is solved exactly by oracles.lp_exact.solve (Fractions, each answer validated by its own certificate);
  3. the best value over all assignments, per direction, with the point that attains it.

Every point handed out (optimum, witnesses) is re-verified here against the original rows in exact arithmetic
(`is_feasible`), so a wrong LP sub-answer cannot produce an infeasible witness.

Result keys
    complete      bool   the box covers every integer-feasible point
    box           list   U_j per integer variable (order of sorted(set(integers)))
    assignments   int    number of integer assignments enumerated
    feasible_assignments int  those with a feasible continuous completion
    relax         {True: .., False: ..}  lp_exact results of the LP relaxation for minimize / maximize
                  (only 'status', 'x', 'objective' are used)
    dir           {True: d, False: d}    d = {'status': 'optimal'|'infeasible'|'unbounded', 'value': Fraction|None,
                                              'x': list[Fraction]|None}
    points        list of feasible points (list[Fraction]), at most `keep`, for building warm starts
"""
from __future__ import annotations

from fractions import Fraction
from itertools import product
from math import floor

from oracles import lp_exact

__all__ = ["solve", "is_feasible", "explicit_bounds", "solve_int_box"]

F0 = Fraction(0)


def _dot(u, v):
    s = 0
    for a, q in zip(u, v):
        s += a * q
    return s


def is_feasible(x, A, b, integers) -> bool:
    """Exact membership test: x >= 0, A x <= b, x_j integral on `integers` (x: ints / Fractions)."""
    if any(v < 0 for v in x):
        return False
    for j in integers:
        if Fraction(x[j]).denominator != 1:
            return False
    return all(_dot(A[i], x) <= b[i] for i in range(len(b)))


def explicit_bounds(A, b, n):
    """Per variable the tightest bound b_i/a from rows whose only non-zero entry is a > 0 in column j (else None)."""
    ub = [None] * n
    for row, bi in zip(A, b):
        nz = [j for j in range(n) if row[j] != 0]
        if len(nz) == 1 and row[nz[0]] > 0:
            j = nz[0]
            v = Fraction(bi) / Fraction(row[j])
            if ub[j] is None or v < ub[j]:
                ub[j] = v
    return ub


def solve(c, A, b, integers, cap=8, keep=40) -> dict:
    n = len(c)
    I = sorted(set(integers))
    C = [j for j in range(n) if j not in set(I)]
    relax = {mn: lp_exact.solve(c, A, b, mn) for mn in (True, False)}
    out = {"complete": True, "box": [], "assignments": 0, "feasible_assignments": 0, "relax": relax, "points": [],
           "dir": {mn: {"status": "infeasible", "value": None, "x": None} for mn in (True, False)}}
    if relax[True]["status"] == "infeasible":
        return out
    # ---- 1. the integer box
    exp = explicit_bounds(A, b, n)
    box = []
    for j in I:
        if exp[j] is not None:
            box.append(floor(exp[j]))
        else:
            r = lp_exact.solve([1 if k == j else 0 for k in range(n)], A, b, False)
            if r["status"] == "unbounded":
                box.append(cap)
                out["complete"] = False
            else:
                box.append(floor(r["objective"]))
    out["box"] = box
    if any(u < 0 for u in box):
        return out
    # ---- 2. enumerate
    cI, cC = [c[j] for j in I], [c[j] for j in C]
    AI = [[row[j] for j in I] for row in A]
    AC = [[row[j] for j in C] for row in A]
    best = {True: None, False: None}  # (value, point)
    unb = {True: False, False: False}
    same_cost = not any(cC)
    for z in product(*[range(u + 1) for u in box]):
        out["assignments"] += 1
        rhs = [b[i] - _dot(AI[i], z) for i in range(len(b))]
        cands = []
        if not C:
            if all(v >= 0 for v in rhs):
                cands = [(True, list(z)), (False, list(z))]
        else:
            r1 = lp_exact.solve(cC, AC, rhs, True)
            if r1["status"] == "infeasible":
                continue
            r2 = r1 if same_cost else lp_exact.solve(cC, AC, rhs, False)
            for mn, r in ((True, r1), (False, r2)):
                if r["status"] == "unbounded":
                    unb[mn] = True
                full = [F0] * n
                for k, j in enumerate(I):
                    full[j] = Fraction(z[k])
                for k, j in enumerate(C):
                    full[j] = r["x"][k]
                cands.append((mn, full))
        if not cands:
            continue
        out["feasible_assignments"] += 1
        for mn, x in cands:
            if not is_feasible(x, A, b, I):
                raise AssertionError(f"milp_exact: internal witness infeasible {x}")
            v = _dot(c, x)
            if best[mn] is None or (v < best[mn][0] if mn else v > best[mn][0]):
                best[mn] = (v, x)
        if len(out["points"]) < keep:
            out["points"].append(cands[0][1])
            if cands[1][1] != cands[0][1] and len(out["points"]) < keep:
                out["points"].append(cands[1][1])
    for mn in (True, False):
        if best[mn] is None:
            continue
        if unb[mn]:
            out["dir"][mn] = {"status": "unbounded", "value": None, "x": best[mn][1]}
        else:
            out["dir"][mn] = {"status": "optimal", "value": Fraction(best[mn][0]), "x": best[mn][1]}
    return out


def solve_int_box(c, rows, rhs, U, cont_last=False) -> dict:
    """Pure-integer programs over an explicit box (volume families of C04 round 3): for  min AND max  c.x  subject to
    rows . x <= rhs,  0 <= x_j <= U_j,  x integer  (all data ints).  cont_last=True: the LAST variable is continuous
    (0 <= x_last <= U_last real): its feasible interval is computed in Fractions instead of integers, everything else is
    the same ('feasible' then counts the integer assignments that have a continuous completion).

    Plain enumeration of the box in exact integer arithmetic, organised as a depth-first walk that carries the row slacks
    (rhs_i - sum of the assigned part).  Two shortcuts, both about FEASIBILITY only (the objective never prunes):
      * a partial assignment is left as soon as some row cannot be satisfied even with the most helpful values of the
        remaining variables (slack_i < sum_{j later} min(0, a_ij) * U_j);
      * the last variable is not looped over: its feasible integer interval [lo, hi] follows from the slacks, and a linear
        objective takes its extremes over an interval at the end points.
    -> {'feasible': number of feasible points, True: (value, point) | None, False: (value, point) | None}
    The two optima are re-verified against the rows before they are handed out."""
    n = len(c)
    m = len(rhs)
    if n == 0:
        raise ValueError("no variables")
    # helped[k][i]: the most negative contribution the variables k.. can still make to row i
    helped = [[0] * m for _ in range(n + 1)]
    for k in range(n - 1, -1, -1):
        for i in range(m):
            helped[k][i] = helped[k + 1][i] + min(0, rows[i][k]) * U[k]
    col = [[rows[i][k] for i in range(m)] for k in range(n)]
    best = {True: None, False: None}
    count = 0
    x = [0] * n
    last = n - 1
    cl, al, ul = c[last], col[last], U[last]

    def leaf(slack, val):
        nonlocal count
        lo, hi = 0, ul
        for i in range(m):
            a = al[i]
            s = slack[i]
            if a > 0:
                t = Fraction(s, a) if cont_last else s // a  # a*x <= s  <=>  x <= s/a  (integers: floor)
                if t < hi:
                    hi = t
            elif a < 0:
                t = Fraction(s, a) if cont_last else -(s // -a)  # a*x <= s  <=>  x >= s/a  (integers: ceil = -floor(s/-a))
                if t > lo:
                    lo = t
            elif s < 0:
                return
        if lo > hi:
            return
        count += 1 if cont_last else hi - lo + 1
        for v in ((lo, hi) if lo != hi else (lo,)):
            w = val + cl * v
            bt = best[True]
            if bt is None or w < bt[0]:
                x[last] = v
                best[True] = (w, tuple(x))
            bf = best[False]
            if bf is None or w > bf[0]:
                x[last] = v
                best[False] = (w, tuple(x))

    def walk(k, slack, val):
        if k == last:
            leaf(slack, val)
            return
        ak, hk = col[k], helped[k + 1]
        for v in range(U[k] + 1):
            s2 = [slack[i] - ak[i] * v for i in range(m)]
            ok = True
            for i in range(m):
                if s2[i] < hk[i]:
                    ok = False
                    break
            if ok:
                x[k] = v
                walk(k + 1, s2, val + c[k] * v)

    walk(0, list(rhs), 0)
    for mn in (True, False):
        if best[mn] is not None:
            w, p = best[mn]
            if any(v < 0 or v > u for v, u in zip(p, U)) or any(_dot(rows[i], p) > rhs[i] for i in range(m)) \
                    or _dot(c, p) != w or any(Fraction(v).denominator != 1 for v in (p[:-1] if cont_last else p)):
                raise AssertionError(f"milp_exact.solve_int_box: internal witness does not check out {p}")
    return {"feasible": count, True: best[True], False: best[False]}


def _selftest_int_box(trials=400, seed=11):
    import random
    rng = random.Random(seed)
    for _ in range(trials):
        n, m = rng.randint(1, 5), rng.randint(0, 3)
        rows = [[rng.randint(-4, 6) for _ in range(n)] for _ in range(m)]
        rhs = [rng.randint(-6, 14) for _ in range(m)]
        U = [rng.randint(0, 3) for _ in range(n)]
        c = [rng.randint(-5, 5) for _ in range(n)]
        r = solve_int_box(c, rows, rhs, U)
        pts = [z for z in product(*[range(u + 1) for u in U]) if all(_dot(rows[i], z) <= rhs[i] for i in range(m))]
        assert r["feasible"] == len(pts), (c, rows, rhs, U)
        if pts:
            vals = [_dot(c, z) for z in pts]
            assert r[True][0] == min(vals) and r[False][0] == max(vals), (c, rows, rhs, U)
        else:
            assert r[True] is None and r[False] is None
        # last variable continuous: against the general oracle (enumeration + exact LP on the continuous part)
        if n >= 2 and U[-1] > 0:
            r2 = solve_int_box(c, rows, rhs, U, cont_last=True)
            A = [list(q) for q in rows] + [[1 if k == j else 0 for k in range(n)] for j in range(n)]
            g = solve(c, A, list(rhs) + list(U), list(range(n - 1)))
            for mn in (True, False):
                d = g["dir"][mn]
                if d["status"] == "optimal":
                    assert r2[mn] is not None and r2[mn][0] == d["value"], (c, rows, rhs, U, mn)
                else:
                    assert r2[mn] is None, (c, rows, rhs, U, mn)
    return trials


def _selftest(trials=1500, seed=3):
    """Mixed instances against a second method: pure-integer brute force on a scaled lattice is not available for
    continuous parts, so compare (a) pure-integer instances with a direct grid loop and (b) the all-continuous
    case with lp_exact.vertex_enum."""
    import random
    rng = random.Random(seed)
    seen = {"optimal": 0, "infeasible": 0, "mixed": 0}
    for _ in range(trials):
        n, m = rng.randint(1, 3), rng.randint(1, 3)
        A = [[rng.randint(-3, 3) for _ in range(n)] for _ in range(m)]
        b = [rng.randint(-3, 5) for _ in range(m)]
        U = [rng.randint(1, 3) for _ in range(n)]
        A += [[1 if k == j else 0 for k in range(n)] for j in range(n)]
        b += U
        c = [rng.randint(-3, 3) for _ in range(n)]
        ints = [j for j in range(n) if rng.random() < 0.6]
        r = solve(c, A, b, ints)
        assert r["complete"]
        if len(ints) == n:
            vals = [_dot(c, z) for z in product(*[range(u + 1) for u in U])
                    if all(_dot(A[i], z) <= b[i] for i in range(len(b)))]
            for mn in (True, False):
                d = r["dir"][mn]
                if vals:
                    assert d["status"] == "optimal" and d["value"] == (min(vals) if mn else max(vals)), (c, A, b)
                else:
                    assert d["status"] == "infeasible"
            seen["optimal" if vals else "infeasible"] += 1
        elif not ints:
            for mn in (True, False):
                st, val = lp_exact.vertex_enum(c, A, b, mn)
                assert r["dir"][mn]["status"] == st and r["dir"][mn]["value"] == val, (c, A, b, mn)
        else:
            # sandwich: relaxation <= mixed optimum <= all-integer optimum (minimise)
            rall = solve(c, A, b, list(range(n)))
            for mn in (True, False):
                d, da, rl = r["dir"][mn], rall["dir"][mn], r["relax"][mn]
                if da["status"] == "optimal":
                    assert d["status"] == "optimal"
                    assert (d["value"] <= da["value"]) if mn else (d["value"] >= da["value"])
                if d["status"] == "optimal":
                    assert (rl["objective"] <= d["value"]) if mn else (rl["objective"] >= d["value"])
            seen["mixed"] += 1
    return seen


if __name__ == "__main__":
    print("milp_exact self test:", _selftest(), "int box:", _selftest_int_box())

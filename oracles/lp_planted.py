"""LPs whose verdict is known by construction, with the certificate that proves it (C03 size ladder).

    min / max  c.x   subject to   A x <= b,  x >= 0          (w = c for min, -c for max: the minimised cost)

Every generator returns  (c, A, b, minimize, res)  where `res` has the shape of `oracles.lp_exact.solve`'s answer
(status / x / objective / certificate / stats) and has been validated by `oracles.lp_exact.check_certificate`
against the generated data, in Fraction arithmetic, before it is handed out.  So what is trusted is the ~30-line
certificate checker, not the construction:

  plant_optimal     pick A, a point x* >= 0 and multipliers y* >= 0; make the rows of a chosen set T tight at x*
                    (b_i = A_i.x*), give the others positive slack, put y* on (a subset of) T and set
                    w = r - A'y*  with r >= 0, r_j = 0 where x*_j > 0.  Then x* is feasible, y* is dual feasible and
                    w.x* = -b.y*: by weak duality w.x* is THE optimum (x* need not be the only optimal point).
  plant_unbounded   pick a feasible x0 (b = A x0 + slack) and a direction d >= 0, d != 0, lower entries of each row
                    until A_i.d <= 0 and of w until w.d < 0: x0 + t d is feasible for all t >= 0 with cost -> -inf.
  plant_infeasible  pick y >= 0 on a few rows and make the last of them  -(sum of the others) + p  with p >= 0 and
                    a right-hand side that leaves b.y < 0  (Farkas: 0 <= y'A x <= y.b < 0 is impossible).

Shapes are steered by a small `style` dict (density, magnitude, packing / mixed sign, share of zero right-hand sides,
duplicate / parallel / opposite rows, degenerate vertex with many more tight rows than needed, dual degeneracy,
half-integer points) so that the same three constructions give dense, sparse, wide, tall, massively degenerate, tied
and phase-1 instances.  Data are ints (right-hand sides are floats k/2 when a half-integer point was asked for): exactly representable.
"""
from __future__ import annotations

from fractions import Fraction

from oracles.lp_exact import check_certificate

__all__ = ["plant_optimal", "plant_unbounded", "plant_infeasible", "STYLES", "plant"]

F0 = Fraction(0)


def _entry(rng, st):
    if rng.random() >= st["density"]:
        return 0
    mag = st["mag"]
    if st["sign"] == "pos":
        return rng.randint(1, mag)
    if st["sign"] == "mostly-pos":
        return rng.randint(1, mag) if rng.random() < 0.8 else -rng.randint(1, mag)
    v = rng.randint(-mag, mag)
    return v


def _matrix(rng, n, m, st):
    A = [[_entry(rng, st) for _ in range(n)] for _ in range(m)]
    return A


def _dot(u, v):
    return sum(a * b for a, b in zip(u, v))


def _structure_rows(rng, A, st):
    """Duplicate / parallel rows: returns a list `link` with link[j] = (i, k) meaning A_j = k * A_i (k int > 0), else None."""
    m = len(A)
    link = [None] * m
    if m < 2:
        return link
    q = st.get("dup_rows", 0.0)
    if q <= 0:
        return link
    for j in range(1, m):
        if rng.random() < q:
            i = rng.randrange(j)
            while link[i] is not None:
                i = link[i][0]
            k = rng.choice((1, 1, 1, 2, 3))
            A[j] = [k * a for a in A[i]]
            link[j] = (i, k)
    return link


def plant_optimal(rng, n, m, st):
    A = _matrix(rng, n, m, st)
    link = _structure_rows(rng, A, st)
    # the optimal point
    k = max(0, min(n, int(round(st["support"] * min(n, m))) if st["support"] <= 1 else int(st["support"])))
    S = sorted(rng.sample(range(n), k))
    den = st.get("xden", 1)
    x = [Fraction(0)] * n
    for j in S:
        x[j] = Fraction(rng.randint(1, st.get("xmax", 6)), rng.choice((1, 1, den)))
    # which rows are tight at x*
    t = st["tight"]
    T = set(i for i in range(m) if rng.random() < t)
    for j, l in enumerate(link):  # a positive multiple of a tight row: tight or slack, both allowed
        if l is not None and l[0] in T and rng.random() < 0.7:
            T.add(j)
    Ax = [_dot(A[i], x) for i in range(m)]
    b = [None] * m
    for i in range(m):
        b[i] = Ax[i] if i in T else Ax[i] + Fraction(rng.randint(1, st.get("slack", 5)))
    # opposite rows (an equality stated as two inequalities): only for tight rows
    if st.get("opp_rows", 0) and m >= 2:
        tl = sorted(T)
        for i in tl:
            if rng.random() < st["opp_rows"]:
                j = rng.randrange(m)
                if j != i and link[j] is None and all(l is None or l[0] != j for l in link) and link[i] is None:
                    A[j] = [-a for a in A[i]]
                    Ax[j] = -Ax[i]
                    b[j] = -b[i]
                    T.add(j)
    # multipliers on tight rows
    y = [Fraction(0)] * m
    ysh = st.get("yshare", 0.7)
    for i in sorted(T):
        if rng.random() < ysh:
            y[i] = Fraction(rng.randint(1, st.get("ymax", 3)))
    # reduced costs
    rz = st.get("rzero", 0.0)
    r = [Fraction(0)] * n
    for j in range(n):
        if x[j] == 0 and rng.random() >= rz:
            r[j] = Fraction(rng.randint(1, st.get("rmax", 4)))
    w = [r[j] - sum(A[i][j] * y[i] for i in range(m) if y[i]) for j in range(n)]
    minimize = rng.random() < 0.5
    c = w if minimize else [-v for v in w]
    cden = max((v.denominator for v in b), default=1)
    fl = cden > 1
    c_out = [int(v) for v in c]
    b_out = [float(v) if fl else int(v) for v in b]
    obj = sum((Fraction(cj) * xj for cj, xj in zip(c_out, x)), F0)
    res = {"status": "optimal", "x": x, "objective": obj, "certificate": {"type": "optimal", "x": x, "y": y},
           "stats": {"planted": True, "tight_rows": len(T), "support": k, "zero_rhs": sum(1 for v in b if v == 0),
                     "neg_rhs": sum(1 for v in b if v < 0), "degenerate_vertex": len(T) + (n - k) > n}}
    check_certificate(c_out, A, b_out, minimize, res)
    return c_out, A, b_out, minimize, res


def plant_unbounded(rng, n, m, st):
    A = _matrix(rng, n, m, st)
    kd = max(1, min(n, int(st.get("ray", 2))))
    D = rng.sample(range(n), kd)
    if st.get("ray_high", False):  # ray on the highest indices: Bland prices them last
        D = sorted(range(n), key=lambda j: (-j))[:kd]
    d = [0] * n
    for j in D:
        d[j] = rng.randint(1, 3)
    for row in A:
        while _dot(row, d) > 0:
            row[rng.choice(D)] -= 1
    _structure_rows(rng, A, st)  # positive multiples of rows with A_i.d <= 0 keep that property
    k = int(round(st["support"] * min(n, m))) if st["support"] <= 1 else int(st["support"])
    S = rng.sample(range(n), max(0, min(n, k)))
    x0 = [Fraction(0)] * n
    for j in S:
        x0[j] = Fraction(rng.randint(1, st.get("xmax", 6)))
    t = st["tight"]
    b = [_dot(A[i], x0) + (0 if rng.random() < t else rng.randint(1, st.get("slack", 5))) for i in range(m)]
    w = [_entry(rng, dict(st, sign="mixed", density=max(st["density"], 0.6))) for _ in range(n)]
    while _dot(w, d) >= 0:
        w[rng.choice(D)] -= 1
    minimize = rng.random() < 0.5
    c = w if minimize else [-v for v in w]
    b = [int(v) for v in b]
    res = {"status": "unbounded", "x": x0, "objective": None,
           "certificate": {"type": "ray", "x": x0, "d": [Fraction(v) for v in d]},
           "stats": {"planted": True, "zero_rhs": sum(1 for v in b if v == 0), "neg_rhs": sum(1 for v in b if v < 0)}}
    check_certificate(c, A, b, minimize, res)
    return c, A, b, minimize, res


def plant_infeasible(rng, n, m, st):
    A = _matrix(rng, n, m, st)
    _structure_rows(rng, A, st)
    # the rest of the system is made feasible-looking around a point x0 so that only the planted combination is contradictory
    k = int(round(st["support"] * min(n, m))) if st["support"] <= 1 else int(st["support"])
    S = rng.sample(range(n), max(0, min(n, k)))
    x0 = [0] * n
    for j in S:
        x0[j] = rng.randint(1, st.get("xmax", 6))
    t = st["tight"]
    b = [_dot(A[i], x0) + (0 if rng.random() < t else rng.randint(1, st.get("slack", 5))) for i in range(m)]
    kf = max(1, min(m, int(st.get("farkas", 3))))
    R = rng.sample(range(m), kf)
    y = [Fraction(0)] * m
    for i in R[:-1]:
        y[i] = Fraction(rng.randint(1, 2))
    last = R[-1]
    y[last] = Fraction(1)
    A[last] = [-sum(int(y[i]) * A[i][j] for i in R[:-1]) + (rng.randint(0, 2) if rng.random() < 0.5 else 0) for j in range(n)]
    b[last] = -sum(int(y[i]) * b[i] for i in R[:-1]) - rng.randint(1, 3)
    w = [_entry(rng, dict(st, sign="mixed")) for _ in range(n)]
    minimize = rng.random() < 0.5
    c = w if minimize else [-v for v in w]
    b = [int(v) for v in b]
    res = {"status": "infeasible", "x": None, "objective": None, "certificate": {"type": "farkas", "y": y},
           "stats": {"planted": True, "zero_rhs": sum(1 for v in b if v == 0), "neg_rhs": sum(1 for v in b if v < 0)}}
    check_certificate(c, A, b, minimize, res)
    return c, A, b, minimize, res


# name -> style.  support: share of min(n, m) columns positive at the planted point (or an absolute count if > 1);
# tight: probability that a row is tight there.
STYLES = {
    # ordinary dense packing LP: A >= 0, b > 0, a non-degenerate-looking vertex
    "dense-packing": dict(density=0.7, mag=3, sign="pos", support=0.6, tight=0.6, yshare=0.9, xmax=6, slack=8),
    # dense, mixed signs: negative right-hand sides (phase 1) appear
    "dense-mixed": dict(density=0.8, mag=3, sign="mixed", support=0.5, tight=0.5, yshare=0.8),
    "dense-mostly-pos": dict(density=0.8, mag=4, sign="mostly-pos", support=0.5, tight=0.5, yshare=0.8),
    "sparse": dict(density=0.12, mag=4, sign="mostly-pos", support=0.5, tight=0.5, yshare=0.8),
    # massively degenerate: the planted point is 0 (or nearly), almost every row is tight there => most rhs are zero
    "cone": dict(density=1.0, mag=3, sign="mixed", support=0, tight=0.9, yshare=0.5, rzero=0.2, slack=3),
    "degenerate": dict(density=0.8, mag=3, sign="mixed", support=0.15, tight=0.85, yshare=0.5, rzero=0.3, dup_rows=0.1, slack=3),
    "dup-ties": dict(density=0.7, mag=3, sign="mostly-pos", support=0.4, tight=0.7, yshare=0.5, rzero=0.3, dup_rows=0.35, opp_rows=0.1, slack=2),
    "equalities": dict(density=0.6, mag=3, sign="mixed", support=0.5, tight=0.5, yshare=0.8, opp_rows=0.5),
    "half-integers": dict(density=0.7, mag=3, sign="mostly-pos", support=0.5, tight=0.5, yshare=0.8, xden=2),
}


def plant(rng, truth, n, m, style):
    st = STYLES[style]
    if truth == "optimal":
        return plant_optimal(rng, n, m, st)
    if truth == "unbounded":
        return plant_unbounded(rng, n, m, st)
    return plant_infeasible(rng, n, m, st)

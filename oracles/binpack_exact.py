"""Exact bin-packing optimum by exhaustive subset decomposition (independent of solvor).

Sizes and capacity are integers (grid units).  opt(sizes, cap) -> (k, bins) where bins is a witness packing
(list of lists of item positions) using k bins.  Method: over bitmasks, OPT(mask) = 1 + min over all submasks S of
mask that contain mask's lowest item and whose total size fits one bin, of OPT(mask \\ S).  Every packing has a
bin containing the lowest remaining item, so the recursion visits every packing up to bin order: O(3^n).
Zero-size items are placed in the first bin afterwards (they never change the optimum, except that a
non-empty item list always needs one bin).
"""
from __future__ import annotations

from functools import lru_cache


def _opt_positive(sizes, cap):
    n = len(sizes)
    full = (1 << n) - 1
    tot = [0] * (1 << n)
    for mask in range(1, 1 << n):
        low = mask & -mask
        tot[mask] = tot[mask ^ low] + sizes[low.bit_length() - 1]
    optv = [0] * (1 << n)
    choice = [0] * (1 << n)
    for mask in range(1, full + 1):
        low = mask & -mask
        rest = mask ^ low
        best, bs = None, 0
        sub = rest
        while True:  # all submasks of rest, plus the forced lowest item
            s = sub | low
            if tot[s] <= cap:
                c = 1 + optv[mask ^ s]
                if best is None or c < best:
                    best, bs = c, s
            if sub == 0:
                break
            sub = (sub - 1) & rest
        if best is None:
            raise ValueError("an item is larger than the capacity")
        optv[mask], choice[mask] = best, bs
    bins = []
    mask = full
    while mask:
        s = choice[mask]
        bins.append([i for i in range(n) if s >> i & 1])
        mask ^= s
    return optv[full], bins


@lru_cache(maxsize=200000)
def _opt_sorted(sizes_sorted, cap):
    return _opt_positive(sizes_sorted, cap)[0]


def opt_value(sizes, cap):
    """Minimum number of bins (order-independent, cached on the multiset)."""
    if not sizes:
        return 0
    pos = tuple(sorted(s for s in sizes if s > 0))
    if not pos:
        return 1
    return _opt_sorted(pos, cap)


def opt(sizes, cap):
    if not sizes:
        return 0, []
    idx = [i for i, s in enumerate(sizes) if s > 0]
    if not idx:
        return 1, [list(range(len(sizes)))]
    k, bins = _opt_positive([sizes[i] for i in idx], cap)
    bins = [[idx[j] for j in b] for b in bins]
    bins[0].extend(i for i, s in enumerate(sizes) if s == 0)
    return k, bins


def check_packing(sizes, cap, bins):
    """Certificate check for a witness packing."""
    seen = sorted(i for b in bins for i in b)
    return seen == list(range(len(sizes))) and all(sum(sizes[i] for i in b) <= cap for b in bins)

"""Cheap exact reference semantics for LARGE inputs of the nine accelerated graph functions (checks/C12.py,
size ladder / option-coincidence / depth families).

Same interface as oracles/c12_graph.py (the brute-force trusted base for the small scope), but near-linear:
adjacency lists, breadth-first search, a label-correcting shortest-path search on exact integers (weights are
scaled by the common denominator of their exact binary values) that certifies its own verdict - a feasible
potential when it answers distances, an explicit negative cycle made of input edges when it answers
NEG_CYCLE -, a two-pass (Kosaraju) component search without recursion, union-find spanning forests.  Nothing
here is shared with solvor or with the Rust kernels (those use Tarjan / Kahn / Bellman-Ford rounds).
`selftest` compares every function with the brute-force module on small random multigraphs; checks/C12.py
runs it in every run.

None stands for "unreachable / +infinity".
"""
from __future__ import annotations

from collections import deque
from fractions import Fraction
from heapq import heappop, heappush
from math import lcm

from oracles.c12_graph import F, NEG_CYCLE, is_topological_order, pagerank_exact  # noqa: F401 (same definitions)


class OracleError(Exception):
    """The oracle could not certify its own answer (a defect of the oracle, never of the code under test)."""


# --------------------------------------------------------------------------- helpers
def _adj(n, edges):
    a = [[] for _ in range(n)]
    for e in edges:
        a[e[0]].append(e[1])
    return a


def _scaled(edges):
    """-> (D, [(u, v, exact integer w*D)])"""
    D = 1
    fr = []
    for u, v, w in edges:
        if isinstance(w, int):
            fr.append((u, v, w, 1))
        else:
            f = F(w)
            fr.append((u, v, f.numerator, f.denominator))
            if f.denominator != 1:
                D = lcm(D, f.denominator)
    return D, [(u, v, num * (D // den)) for u, v, num, den in fr]


def min_weight(edges, directed=True) -> dict:
    m: dict = {}
    for u, v, w in edges:
        w = F(w)
        for a, b in ((u, v),) if directed else ((u, v), (v, u)):
            if (a, b) not in m or w < m[(a, b)]:
                m[(a, b)] = w
    return m


def pairs(edges) -> set:
    return {(e[0], e[1]) for e in edges}


# --------------------------------------------------------------------------- reachability
def reachable(n, edges, src) -> set:
    a = _adj(n, edges)
    seen = {src}
    q = deque([src])
    while q:
        u = q.popleft()
        for v in a[u]:
            if v not in seen:
                seen.add(v)
                q.append(v)
    return seen


def hop_distance(n, edges, src) -> list:
    a = _adj(n, edges)
    d = [None] * n
    d[src] = 0
    q = deque([src])
    while q:
        u = q.popleft()
        for v in a[u]:
            if d[v] is None:
                d[v] = d[u] + 1
                q.append(v)
    return d


def is_walk(path, edges) -> bool:
    p = pairs(edges)
    return all((a, b) in p for a, b in zip(path, path[1:]))


def walk_weight(path, edges, directed=True):
    m = min_weight(edges, directed)
    tot = Fraction(0)
    for a, b in zip(path, path[1:]):
        if (a, b) not in m:
            return None
        tot += m[(a, b)]
    return tot


# --------------------------------------------------------------------------- shortest paths (exact integers)
def _pred_cycle(pred, n, start_nodes):
    """A cycle of the predecessor graph (list of nodes) or None."""
    colour = [0] * n
    for s in start_nodes:
        if colour[s]:
            continue
        chain = []
        v = s
        while v is not None and v != -1 and colour[v] == 0:
            colour[v] = 1
            chain.append(v)
            v = pred[v][0] if pred[v] is not None else None
        if v is not None and v != -1 and colour[v] == 1:
            i = chain.index(v)
            for x in chain:
                colour[x] = 2
            return chain[i:]
        for x in chain:
            colour[x] = 2
    return None


def _sssp_int(n, wadj, src):
    """wadj[u] = [(v, integer w)].  -> ('dist', list[int|None]) or ('cycle', [nodes])  (label correcting,
    FIFO; a cycle in the predecessor graph is a negative cycle; checked every n relaxations)."""
    if all(w >= 0 for row in wadj for _, w in row):
        d: list = [None] * n
        d[src] = 0
        heap = [(0, src)]
        while heap:
            du, u = heappop(heap)
            if du > d[u]:
                continue
            for v, w in wadj[u]:
                nd = du + w
                if d[v] is None or nd < d[v]:
                    d[v] = nd
                    heappush(heap, (nd, v))
        return "dist", d
    d = [None] * n
    pred: list = [None] * n  # (u, w)
    d[src] = 0
    pred[src] = (-1, 0)
    q = deque([src])
    inq = [False] * n
    inq[src] = True
    relax = 0
    next_check = n
    while q:
        u = q.popleft()
        inq[u] = False
        du = d[u]
        for v, w in wadj[u]:
            nd = du + w
            if d[v] is None or nd < d[v]:
                d[v] = nd
                pred[v] = (u, w)
                relax += 1
                if not inq[v]:
                    inq[v] = True
                    q.append(v)
        if relax >= next_check:
            next_check = relax + n
            cyc = _pred_cycle(pred, n, [v for v in range(n) if pred[v] is not None])
            if cyc is not None:
                return "cycle", cyc
    return "dist", d


def _certify_dist(n, wadj, src, d):
    if d[src] != 0:
        raise OracleError("source label is not 0")
    for u in range(n):
        if d[u] is None:
            continue
        for v, w in wadj[u]:
            if d[v] is None or d[v] > d[u] + w:
                raise OracleError("labels are not a feasible potential")


def _certify_cycle(wadj, cyc, reach):
    """cyc = [c0, c1, ...] with pred edges c_{i+1} -> c_i; verify it is a closed walk of input edges of negative weight
    that can be reached from the source."""
    best = {}
    for u in set(cyc):
        for v, w in wadj[u]:
            if (u, v) not in best or w < best[(u, v)]:
                best[(u, v)] = w
    tot = 0
    k = len(cyc)
    for i in range(k):
        a, b = cyc[(i + 1) % k], cyc[i]  # predecessor edge a -> b
        if (a, b) not in best:
            raise OracleError("negative-cycle witness uses a pair that is not an edge")
        tot += best[(a, b)]
    if tot >= 0 or any(v not in reach for v in cyc):
        raise OracleError("negative-cycle witness is not negative / not reachable")


def _wadj(n, edges, directed=True):
    D, E = _scaled(edges)
    a = [[] for _ in range(n)]
    for u, v, w in E:
        a[u].append((v, w))
        if not directed:
            a[v].append((u, w))
    return D, a


def _sssp_pre(n, D, wadj, src, reach=None):
    kind, x = _sssp_int(n, wadj, src)
    if kind == "cycle":
        if reach is None:
            reach = set()
            q = deque([src])
            reach.add(src)
            while q:
                u = q.popleft()
                for v, _ in wadj[u]:
                    if v not in reach:
                        reach.add(v)
                        q.append(v)
        _certify_cycle(wadj, x, reach)
        return NEG_CYCLE
    _certify_dist(n, wadj, src, x)
    return [None if v is None else Fraction(v, D) for v in x]


def sssp(n, edges, src):
    D, a = _wadj(n, edges)
    return _sssp_pre(n, D, a, src)


def apsp(n, edges, directed=True):
    D, a = _wadj(n, edges, directed)
    rows = []
    for s in range(n):
        r = _sssp_pre(n, D, a, s)
        if r == NEG_CYCLE:
            return NEG_CYCLE
        rows.append(r)
    return rows


# --------------------------------------------------------------------------- components
def scc_partition(n, edges) -> set:
    """Kosaraju: finishing order of an iterative DFS, then sweeps of the reversed graph."""
    a = _adj(n, edges)
    ra = [[] for _ in range(n)]
    for e in edges:
        ra[e[1]].append(e[0])
    seen = [False] * n
    order = []
    for s in range(n):
        if seen[s]:
            continue
        seen[s] = True
        st = [(s, 0)]
        while st:
            v, i = st.pop()
            if i < len(a[v]):
                st.append((v, i + 1))
                w = a[v][i]
                if not seen[w]:
                    seen[w] = True
                    st.append((w, 0))
            else:
                order.append(v)
    comp = [-1] * n
    out = set()
    for s in reversed(order):
        if comp[s] != -1:
            continue
        comp[s] = s
        members = [s]
        st2 = [s]
        while st2:
            v = st2.pop()
            for w in ra[v]:
                if comp[w] == -1:
                    comp[w] = s
                    members.append(w)
                    st2.append(w)
        out.add(frozenset(members))
    return out


def is_acyclic(n, edges) -> bool:
    if any(e[0] == e[1] for e in edges):
        return False
    return all(len(c) == 1 for c in scc_partition(n, edges))


class _UF:
    def __init__(self, n):
        self.p = list(range(n))

    def find(self, x):
        p = self.p
        r = x
        while p[r] != r:
            r = p[r]
        while p[x] != r:
            p[x], x = r, p[x]
        return r

    def union(self, a, b):
        a, b = self.find(a), self.find(b)
        if a == b:
            return False
        self.p[b] = a
        return True


def undirected_components(n, edges) -> set:
    uf = _UF(n)
    for e in edges:
        uf.union(e[0], e[1])
    d: dict = {}
    for v in range(n):
        d.setdefault(uf.find(v), set()).add(v)
    return {frozenset(c) for c in d.values()}


def msf_weight(n, edges) -> Fraction:
    D, E = _scaled(edges)
    uf = _UF(n)
    tot = 0
    for w, u, v in sorted((w, u, v) for u, v, w in E):
        if uf.union(u, v):
            tot += w
    return Fraction(tot, D)


# --------------------------------------------------------------------------- PageRank power iteration (trace)
class PagerankTrace:
    """Independent push-style power iteration in binary64 from the uniform vector (multigraph semantics: parallel arcs
    count in the out-degree and in the contributions; dangling mass is spread uniformly), extended on demand.
    changes[k-1] = max-norm change of sweep k, iterates[k] = vector after sweep k (iterates[0] = uniform).
    Used to PLACE tol strictly between two consecutive changes and to know the sweep at which a max-norm stopping
    rule fires; every comparison made with it leaves a relative margin for rounding."""

    def __init__(self, n, edges, damping):
        self.n, self.damping = n, damping
        out = [0] * n
        for e in edges:
            out[e[0]] += 1
        self.dangling = [i for i in range(n) if out[i] == 0]
        self.share = [0.0 if out[i] == 0 else 1.0 / out[i] for i in range(n)]
        self.src = [e[0] for e in edges]
        self.dst = [e[1] for e in edges]
        self.changes: list = []
        self.iterates: list = [[1.0 / n] * n]

    def sweep(self):
        n, damping = self.n, self.damping
        x = self.iterates[-1]
        base = (1.0 - damping) / n
        share = self.share
        acc = [0.0] * n
        y = [x[i] * share[i] for i in range(n)]
        for u, v in zip(self.src, self.dst):
            acc[v] += y[u]
        dang = damping * sum(x[i] for i in self.dangling) / n
        new = [base + damping * acc[i] + dang for i in range(n)]
        self.changes.append(max(abs(new[i] - x[i]) for i in range(n)))
        self.iterates.append(new)

    def upto(self, k):
        while len(self.changes) < k:
            self.sweep()
        return self

    def first_below(self, tol, max_sweeps):
        """1-based number of the first sweep (<= max_sweeps) whose change is < tol, else None."""
        k = 0
        while k < max_sweeps:
            if len(self.changes) <= k:
                self.sweep()
            if self.changes[k] < tol:
                return k + 1
            k += 1
        return None


def pagerank_trace(n, edges, damping, sweeps):
    t = PagerankTrace(n, edges, damping).upto(sweeps)
    return t.changes, t.iterates


# --------------------------------------------------------------------------- self test against the brute-force module
def selftest(seed=0, rounds=150):
    import random

    import oracles.c12_graph as S
    rng = random.Random(f"c12_big/{seed}")
    bad = []
    for it in range(rounds):
        n = rng.randint(1, 7)
        m = rng.randint(0, 12)
        neg = rng.random() < 0.5
        E = [(rng.randrange(n), rng.randrange(n), rng.choice([-2, -1, 0, 1, 2, 3, 0.5, 2.25] if neg else [0, 1, 2, 3, 0.125, 7])) for _ in range(m)]
        A = [(u, v) for u, v, _ in E]
        s = rng.randrange(n)
        checks = [("reachable", reachable(n, A, s), S.reachable(n, A, s)),
                  ("hop_distance", hop_distance(n, A, s), S.hop_distance(n, A, s)),
                  ("sssp", sssp(n, E, s), S.sssp(n, E, s)),
                  ("apsp directed", apsp(n, E, True), S.apsp(n, E, True)),
                  ("apsp undirected", apsp(n, E, False), S.apsp(n, E, False)),
                  ("scc_partition", scc_partition(n, A), S.scc_partition(n, A)),
                  ("is_acyclic", is_acyclic(n, A), S.is_acyclic(n, A)),
                  ("undirected_components", undirected_components(n, E), S.undirected_components(n, E)),
                  ("msf_weight", msf_weight(n, E), S.msf_weight(n, E))]
        for name, a, b in checks:
            if a != b:
                bad.append(f"{name}: n={n} E={E} s={s}: big={a} brute={b}")
        d = rng.choice([0.85, 0.5, 0.3])
        px = S.pagerank_exact(n, A, F(d))
        ch, its = pagerank_trace(n, A, d, 400)
        if px is not None and max(abs(its[-1][k] - float(px[k])) for k in range(n)) > 1e-9:
            bad.append(f"pagerank_trace: n={n} A={A} d={d}: 400 sweeps are not within 1e-9 of the exact stationary vector")
    return bad

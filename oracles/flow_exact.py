"""Exact reference algorithms and certificate checkers for flow problems (C08, C09).

Independent of solvor.  Integer arithmetic only.  Nodes are 0..n-1; arcs are lists of tuples
(u, v, cap) or (u, v, cap, cost); parallel and anti-parallel arcs are distinct arcs of an explicit residual
*multigraph* (every arc gets its own residual twin), so nothing is pooled per node pair.

Max flow:       min_cut_brute (all s-t cuts), edmonds_karp (value, per-arc flow, closed set of the last BFS),
                st_flow_defects (checks a pooled {(u,v): f} dictionary against the statement of C08).
Min-cost flow:  mcf_exact (successive shortest paths with Bellman-Ford; returns per-arc flow + node potentials,
                or a violated cut when infeasible), certify_optimal / certify_infeasible (the 30-line checkers
                that make the oracle self-certifying), mcf_brute (enumeration of all integral flows),
                pooled_flow_defects / decomposition_costs (checks of a solver's pooled flow dictionary).
"""
from __future__ import annotations

from collections import deque
from itertools import product

INF = float("inf")


# ------------------------------------------------------------------------------------------ residual multigraph
class Residual:
    """Edge list; edge 2k is arc k, edge 2k+1 its residual twin."""

    def __init__(self, n):
        self.n = n
        self.to, self.cap, self.cost = [], [], []
        self.adj = [[] for _ in range(n)]

    def add(self, u, v, cap, cost=0):
        self.adj[u].append(len(self.to))
        self.to.append(v); self.cap.append(cap); self.cost.append(cost)
        self.adj[v].append(len(self.to))
        self.to.append(u); self.cap.append(0); self.cost.append(-cost)
        return len(self.to) - 2

    def push(self, e, d):
        self.cap[e] -= d
        self.cap[e ^ 1] += d

    def reachable(self, s):
        seen = {s}
        q = deque([s])
        while q:
            u = q.popleft()
            for e in self.adj[u]:
                if self.cap[e] > 0 and self.to[e] not in seen:
                    seen.add(self.to[e])
                    q.append(self.to[e])
        return seen


# ------------------------------------------------------------------------------------------------- max flow
def pooled_caps(arcs):
    d = {}
    for a in arcs:
        d[(a[0], a[1])] = d.get((a[0], a[1]), 0) + a[2]
    return d


def min_cut_brute(n, arcs, s, t):
    """Minimum over all S with s in S, t not in S of cap(S, V-S).  Returns (value, sorted S)."""
    assert s != t
    others = [x for x in range(n) if x != s and x != t]
    best, best_s = None, None
    for mask in range(1 << len(others)):
        side = [False] * n
        side[s] = True
        for i, x in enumerate(others):
            if mask >> i & 1:
                side[x] = True
        c = 0
        for a in arcs:
            if side[a[0]] and not side[a[1]]:
                c += a[2]
        if best is None or c < best:
            best, best_s = c, [x for x in range(n) if side[x]]
    return best, best_s


def edmonds_karp(n, arcs, s, t, trace=None):
    """Reference Edmonds-Karp.  Returns (value, per-arc flow list, closed set S of the failing BFS,
    used_reverse: some augmenting path went through a residual twin).
    trace: optional dict that receives {"augmentations", "reopened", "longest_path"}; reopened = number of arcs that were
    saturated by one augmenting path, had flow taken off again over their twin by a later one, and were pushed forward again
    by a still later one (the 'saturate, cancel, use again' pattern)."""
    assert s != t
    g = Residual(n)
    for a in arcs:
        g.add(a[0], a[1], a[2])
    value = 0
    used_reverse = False
    stage = [0] * len(arcs)  # 0 fresh, 1 has been saturated, 2 then cancelled (partly), 3 then pushed forward again
    n_aug = longest = 0
    while True:
        pe = {s: None}
        q = deque([s])
        while q and t not in pe:
            u = q.popleft()
            for e in g.adj[u]:
                v = g.to[e]
                if g.cap[e] > 0 and v not in pe:
                    pe[v] = e
                    q.append(v)
        if t not in pe:
            break
        path = []
        v = t
        while pe[v] is not None:
            path.append(pe[v])
            v = g.to[pe[v] ^ 1]
        d = min(g.cap[e] for e in path)
        n_aug += 1
        longest = max(longest, len(path))
        for e in path:
            if e & 1:
                used_reverse = True
                if stage[e >> 1] == 1:
                    stage[e >> 1] = 2
            elif stage[e >> 1] == 2:
                stage[e >> 1] = 3
            g.push(e, d)
            if not e & 1 and g.cap[e] == 0 and stage[e >> 1] == 0:
                stage[e >> 1] = 1
        value += d
    if trace is not None:
        trace.update(augmentations=n_aug, reopened=sum(1 for x in stage if x == 3), longest_path=longest)
    flows = [g.cap[2 * k + 1] for k in range(len(arcs))]
    closed = sorted(pe)
    # self-check: the closed set is a saturated cut of that value
    cutcap = sum(a[2] for a in arcs if a[0] in pe and a[1] not in pe)
    back = sum(f for a, f in zip(arcs, flows) if a[0] not in pe and a[1] in pe)
    assert cutcap == value and back == 0, "reference Edmonds-Karp lost its own certificate"
    bal = [0] * n
    for a, f in zip(arcs, flows):
        assert 0 <= f <= a[2]
        bal[a[0]] -= f
        bal[a[1]] += f
    assert bal[t] == value and all(bal[x] == 0 for x in range(n) if x != s and x != t)
    return value, flows, closed, used_reverse


def st_flow_defects(n, arcs, s, t, fl):
    """fl: {(u, v): value} as returned by a solver (pooled per ordered node pair).  Returns (list of defect
    strings, net inflow at t, net outflow at s, augmenting: is t reachable from s in the residual network of fl)."""
    caps = pooled_caps(arcs)
    bad = []
    bal = [0] * n
    for (u, v), f in fl.items():
        if not (isinstance(f, int) and not isinstance(f, bool)):
            if not (isinstance(f, float) and f == int(f)):
                bad.append(f"flow on {(u, v)} is {f!r}, not an integer")
                continue
        if f < 0:
            bad.append(f"negative flow {f} on {(u, v)}")
        if f > caps.get((u, v), 0):
            bad.append(f"flow {f} on {(u, v)} exceeds pooled capacity {caps.get((u, v), 0)}")
        bal[u] -= f
        bal[v] += f
    for x in range(n):
        if x != s and x != t and bal[x] != 0:
            bad.append(f"conservation broken at node {x}: inflow - outflow = {bal[x]}")
    # residual reachability of the returned flow (pooled residual: cap - f + reverse f)
    res = {}
    for (u, v), c in caps.items():
        res[(u, v)] = res.get((u, v), 0) + c
    for (u, v), f in fl.items():
        res[(u, v)] = res.get((u, v), 0) - f
        res[(v, u)] = res.get((v, u), 0) + f
    out = {}
    for (u, v), r in res.items():
        if r > 0:
            out.setdefault(u, []).append(v)
    seen = {s}
    q = deque([s])
    while q:
        u = q.popleft()
        for v in out.get(u, ()):
            if v not in seen:
                seen.add(v)
                q.append(v)
    return bad, bal[t], -bal[s], (t in seen)


# -------------------------------------------------------------------------------------------- min-cost flow
def has_negative_cycle(n, arcs):
    """Is there a directed cycle of negative total cost among the arcs (capacities ignored, self-loops count)?"""
    d = [0] * n
    for _ in range(n):
        ch = False
        for u, v, _c, w in arcs:
            if d[u] + w < d[v]:
                d[v] = d[u] + w
                ch = True
        if not ch:
            return False
    return True


def mcf_exact(n, arcs, supplies):
    """Minimum-cost flow with node supplies (sum 0, >0 produces).  arcs: (u, v, cap, cost), integers, no
    negative cycle.  Returns {"status": "optimal", "cost", "flow": per-arc list, "pi": potentials} or
    {"status": "infeasible", "cut": S} with supply(S) > cap(S, V-S)."""
    assert sum(supplies) == 0
    S, T = n, n + 1
    g = Residual(n + 2)
    for u, v, c, w in arcs:
        g.add(u, v, c, w)
    need = 0
    for i, b in enumerate(supplies):
        if b > 0:
            g.add(S, i, b, 0)
            need += b
        elif b < 0:
            g.add(i, T, -b, 0)
    shipped = 0
    N = n + 2
    while shipped < need:
        dist = [INF] * N
        pe = [None] * N
        dist[S] = 0
        for rnd in range(N):
            ch = False
            for u in range(N):
                if dist[u] == INF:
                    continue
                for e in g.adj[u]:
                    if g.cap[e] > 0 and dist[u] + g.cost[e] < dist[g.to[e]]:
                        dist[g.to[e]] = dist[u] + g.cost[e]
                        pe[g.to[e]] = e
                        ch = True
            if not ch:
                break
        else:
            raise ValueError("negative cycle in the residual network (instance outside the domain)")
        if dist[T] == INF:
            break
        path = []
        v = T
        while v != S:
            path.append(pe[v])
            v = g.to[pe[v] ^ 1]
        d = min(min(g.cap[e] for e in path), need - shipped)
        for e in path:
            g.push(e, d)
        shipped += d
    if shipped < need:
        cut = sorted(x for x in g.reachable(S) if x < n)
        return {"status": "infeasible", "cut": cut}
    flow = [g.cap[2 * k + 1] for k in range(len(arcs))]
    # potentials: shortest distances in the final residual network of the original arcs from a virtual root
    pi = [0] * n
    for rnd in range(n + 1):
        ch = False
        for k, (u, v, c, w) in enumerate(arcs):
            if flow[k] < c and pi[u] + w < pi[v]:
                pi[v] = pi[u] + w
                ch = True
            if flow[k] > 0 and pi[v] - w < pi[u]:
                pi[u] = pi[v] - w
                ch = True
        if not ch:
            break
    else:
        raise AssertionError("reference SSP ended with a negative residual cycle")
    cost = sum(f * a[3] for f, a in zip(flow, arcs))
    return {"status": "optimal", "cost": cost, "flow": flow, "pi": pi}


def certify_optimal(n, arcs, supplies, flow, pi):
    """Feasibility + complementary slackness => flow is a minimum-cost flow.  Returns list of defects."""
    bad = []
    bal = [0] * n
    for k, (u, v, c, w) in enumerate(arcs):
        f = flow[k]
        if not (0 <= f <= c):
            bad.append(f"arc {k} flow {f} outside [0,{c}]")
        bal[u] += f
        bal[v] -= f
        rc = w + pi[u] - pi[v]
        if rc > 0 and f != 0:
            bad.append(f"arc {k} has reduced cost {rc} > 0 but flow {f}")
        if rc < 0 and f != c:
            bad.append(f"arc {k} has reduced cost {rc} < 0 but flow {f} < cap {c}")
    for i in range(n):
        if bal[i] != supplies[i]:
            bad.append(f"node {i}: outflow - inflow = {bal[i]}, supply {supplies[i]}")
    return bad


def certify_infeasible(n, arcs, supplies, cut):
    """Gale: a feasible flow needs supply(S) <= cap(S, V-S) for every S.  Returns list of defects."""
    S = set(cut)
    b = sum(supplies[i] for i in S)
    c = sum(a[2] for a in arcs if a[0] in S and a[1] not in S)
    return [] if b > c else [f"cut {sorted(S)}: supply {b} <= capacity {c}, proves nothing"]


def mcf_brute(n, arcs, supplies):
    """Minimum cost over all integral flows (enumeration); None when none is feasible."""
    best = None
    for fl in product(*[range(a[2] + 1) for a in arcs]):
        bal = [0] * n
        for f, a in zip(fl, arcs):
            bal[a[0]] += f
            bal[a[1]] -= f
        if bal == list(supplies):
            c = sum(f * a[3] for f, a in zip(fl, arcs))
            if best is None or c < best:
                best = c
    return best


def decomposition_costs(arcs, fl):
    """Set of total costs obtainable by splitting the pooled flow fl[(u,v)] over the parallel arcs u->v
    within each arc's capacity (empty set if some pooled value cannot be split, e.g. exceeds capacity)."""
    groups = {}
    for u, v, c, w in arcs:
        groups.setdefault((u, v), []).append((c, w))
    total = {0}
    for key, f in fl.items():
        if f == 0:
            continue
        grp = groups.get(key, [])
        if len(grp) == 1:  # no parallel arcs on this pair: nothing to split (also keeps huge capacities cheap)
            if f > grp[0][0]:
                return set()
            total = {a + f * grp[0][1] for a in total}
            continue
        opts = {0: {0}}  # amount placed so far -> achievable costs
        for c, w in grp:
            nxt = {}
            for amt, costs in opts.items():
                for x in range(0, min(c, f - amt) + 1):
                    nxt.setdefault(amt + x, set()).update(cc + x * w for cc in costs)
            opts = nxt
        here = opts.get(f, set())
        total = {a + b for a in total for b in here}
        if not total:
            return set()
    return total


def pooled_flow_defects(n, arcs, supplies, fl):
    """fl: solver's {(u, v): value}.  Capacity (pooled), integrality, sign, node balance == supplies."""
    caps = pooled_caps(arcs)
    bad = []
    bal = [0] * n
    for key, f in fl.items():
        if not (isinstance(key, tuple) and len(key) == 2 and all(isinstance(x, int) and 0 <= x < n for x in key)):
            bad.append(f"flow key {key!r} is not an arc of the network")
            continue
        u, v = key
        if isinstance(f, bool) or not isinstance(f, (int, float)) or f != int(f):
            bad.append(f"flow on {key} is {f!r}, not integral")
            continue
        if f < 0:
            bad.append(f"negative flow {f} on {key}")
        if f > caps.get(key, 0):
            bad.append(f"flow {f} on {key} exceeds pooled capacity {caps.get(key, 0)}")
        bal[u] += f
        bal[v] -= f
    for i in range(n):
        if bal[i] != supplies[i]:
            bad.append(f"node {i}: outflow - inflow = {bal[i]}, required {supplies[i]}")
    return bad


def assignment_brute(mat):
    """Minimum total cost of assigning min(n,m) rows to distinct columns (each row at most once)."""
    n = len(mat)
    m = len(mat[0]) if n else 0
    if n == 0 or m == 0:
        return 0
    from itertools import permutations, combinations
    best = None
    if n <= m:
        for cols in permutations(range(m), n):
            c = sum(mat[i][cols[i]] for i in range(n))
            if best is None or c < best:
                best = c
    else:
        for rows in permutations(range(n), m):
            c = sum(mat[rows[j]][j] for j in range(m))
            if best is None or c < best:
                best = c
    return best


# ------------------------------------------------------------------- larger instances: cheap certifying oracles
def mcf_spfa(n, arcs, supplies):
    """Same contract as mcf_exact (successive shortest paths), with a queue-based Bellman-Ford, for networks with hundreds
    of arcs.  Not trusted by itself: callers run certify_optimal / certify_infeasible on what it returns."""
    assert sum(supplies) == 0
    S, T = n, n + 1
    N = n + 2
    g = Residual(N)
    for u, v, c, w in arcs:
        g.add(u, v, c, w)
    need = 0
    for i, b in enumerate(supplies):
        if b > 0:
            g.add(S, i, b, 0)
            need += b
        elif b < 0:
            g.add(i, T, -b, 0)
    shipped = 0
    while shipped < need:
        dist = [INF] * N
        pe = [None] * N
        inq = [False] * N
        pops = [0] * N
        dist[S] = 0
        q = deque([S])
        while q:
            u = q.popleft()
            inq[u] = False
            pops[u] += 1
            if pops[u] > N:
                raise ValueError("negative cycle in the residual network (instance outside the domain)")
            du = dist[u]
            for e in g.adj[u]:
                if g.cap[e] > 0 and du + g.cost[e] < dist[g.to[e]]:
                    dist[g.to[e]] = du + g.cost[e]
                    pe[g.to[e]] = e
                    if not inq[g.to[e]]:
                        inq[g.to[e]] = True
                        q.append(g.to[e])
        if dist[T] == INF:
            break
        path = []
        v = T
        while v != S:
            path.append(pe[v])
            v = g.to[pe[v] ^ 1]
        d = min(min(g.cap[e] for e in path), need - shipped)
        for e in path:
            g.push(e, d)
        shipped += d
    if shipped < need:
        return {"status": "infeasible", "cut": sorted(x for x in g.reachable(S) if x < n)}
    flow = [g.cap[2 * k + 1] for k in range(len(arcs))]
    pi = residual_potentials(n, arcs, flow)
    if pi is None:
        raise AssertionError("reference SSP ended with a negative residual cycle")
    return {"status": "optimal", "cost": sum(f * a[3] for f, a in zip(flow, arcs)), "flow": flow, "pi": pi}


def residual_potentials(n, arcs, flow):
    """Shortest distances from a virtual root (0 to every node) in the residual network of a per-arc flow, or None when
    that network has a negative-cost cycle.  (They are node potentials that satisfy complementary slackness.)"""
    radj = [[] for _ in range(n)]
    for k, (u, v, c, w) in enumerate(arcs):
        if flow[k] < c:
            radj[u].append((v, w))
        if flow[k] > 0:
            radj[v].append((u, -w))
    pi = [0] * n
    inq = [True] * n
    pops = [0] * n
    q = deque(range(n))
    while q:
        u = q.popleft()
        inq[u] = False
        pops[u] += 1
        if pops[u] > n + 1:
            return None
        for v, w in radj[u]:
            if pi[u] + w < pi[v]:
                pi[v] = pi[u] + w
                if not inq[v]:
                    inq[v] = True
                    q.append(v)
    return pi


def split_pooled(arcs, fl):
    """Per-arc flow list for a solver's pooled {(u,v): f}: parallel arcs are filled cheapest first (the cheapest reading of the
    pooled value).  Precondition: pooled_flow_defects(...) is empty."""
    groups = {}
    for k, (u, v, c, w) in enumerate(arcs):
        groups.setdefault((u, v), []).append((w, k, c))
    flow = [0] * len(arcs)
    for key, f in fl.items():
        left = int(f)
        for w, k, c in sorted(groups.get(key, [])):
            x = min(c, left)
            flow[k] = x
            left -= x
        assert left == 0, "pooled value exceeds the pooled capacity"
    return flow


def negative_residual_cycle(n, arcs, flow):
    """Optimality certificate for a *given* feasible per-arc flow: a feasible flow is of minimum cost iff its residual
    network has no negative-cost cycle.  Returns None (optimal) or (gain, [(u, v, +1|-1 direction, cost)...]) - a residual
    cycle of total cost gain < 0 along which one unit can be rerouted."""
    if residual_potentials(n, arcs, flow) is not None:
        return None
    # find one explicitly (Bellman-Ford with parent pointers, n rounds, then walk back n steps)
    res = []
    for k, (u, v, c, w) in enumerate(arcs):
        if flow[k] < c:
            res.append((u, v, w, 1))
        if flow[k] > 0:
            res.append((v, u, -w, -1))
    d = [0] * n
    par = [None] * n
    x = None
    for _ in range(n):
        x = None
        for e in res:
            if d[e[0]] + e[2] < d[e[1]]:
                d[e[1]] = d[e[0]] + e[2]
                par[e[1]] = e
                x = e[1]
        if x is None:
            break
    assert x is not None
    for _ in range(n):
        x = par[x][0]
    cyc = []
    y = x
    while True:
        e = par[y]
        cyc.append(e)
        y = e[0]
        if y == x:
            break
    cyc.reverse()
    gain = sum(e[2] for e in cyc)
    assert gain < 0
    return gain, [(e[0], e[1], e[3], e[2]) for e in cyc]


def hungarian(mat):
    """Minimum-cost assignment of every row to a distinct column (rows <= columns), O(n^2 m), integer arithmetic.
    Returns (cost, col_of_row, u, v) with dual potentials; certify_assignment checks them."""
    n = len(mat)
    m = len(mat[0]) if n else 0
    assert n <= m
    u = [0] * (n + 1)
    v = [0] * (m + 1)
    p = [0] * (m + 1)  # p[j] = row matched to column j (1-based, 0 = none)
    way = [0] * (m + 1)
    for i in range(1, n + 1):
        p[0] = i
        j0 = 0
        minv = [INF] * (m + 1)
        used = [False] * (m + 1)
        while True:
            used[j0] = True
            i0 = p[j0]
            delta = INF
            j1 = 0
            for j in range(1, m + 1):
                if not used[j]:
                    cur = mat[i0 - 1][j - 1] - u[i0] - v[j]
                    if cur < minv[j]:
                        minv[j] = cur
                        way[j] = j0
                    if minv[j] < delta:
                        delta = minv[j]
                        j1 = j
            for j in range(m + 1):
                if used[j]:
                    u[p[j]] += delta
                    v[j] -= delta
                else:
                    minv[j] -= delta
            j0 = j1
            if p[j0] == 0:
                break
        while True:
            j1 = way[j0]
            p[j0] = p[j1]
            j0 = j1
            if j0 == 0:
                break
    col = [-1] * n
    for j in range(1, m + 1):
        if p[j]:
            col[p[j] - 1] = j - 1
    cost = sum(mat[i][col[i]] for i in range(n))
    return cost, col, u[1:], v[1:]


def certify_assignment(mat, col, u, v):
    """LP duality for 'every row to a distinct column' (rows <= columns): u_i + v_j <= c_ij, v_j <= 0, v_j = 0 on unused
    columns, equality on assigned cells  =>  the assignment is optimal.  Returns list of defects."""
    n = len(mat)
    m = len(mat[0]) if n else 0
    bad = []
    if sorted(set(col)) != sorted(col) or any(not (0 <= j < m) for j in col) or len(col) != n:
        return [f"{col} is not an assignment of every row to a distinct column"]
    used = set(col)
    for j in range(m):
        if v[j] > 0 or (j not in used and v[j] != 0):
            bad.append(f"column dual v[{j}]={v[j]}")
    for i in range(n):
        for j in range(m):
            if u[i] + v[j] > mat[i][j]:
                bad.append(f"dual infeasible at ({i},{j})")
        if u[i] + v[col[i]] != mat[i][col[i]]:
            bad.append(f"slack on assigned cell ({i},{col[i]})")
    return bad[:5]


def assignment_optimum(mat):
    """Optimal value of solve_assignment's problem (min(n,m) rows to distinct columns) for any shape, certified."""
    n = len(mat)
    m = len(mat[0]) if n else 0
    if n == 0 or m == 0:
        return 0
    a = [list(r) for r in mat] if n <= m else [[mat[i][j] for i in range(n)] for j in range(m)]
    cost, col, u, v = hungarian(a)
    bad = certify_assignment(a, col, u, v)
    if bad:
        raise AssertionError(f"hungarian reference lost its certificate: {bad}")
    return cost

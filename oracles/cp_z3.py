"""Second, independent back end for questions about CP model descriptions (format of oracles/cp_sem.py) that are
too large for brute force.  z3 is used in two roles, both kept *certifying* wherever an answer can be checked:

* `Cnf`: a captured clause list loaded into a z3 solver; `accepts(lits)` answers "is CNF + these literals true
  satisfiable?" (the projection of the CNF's models on the named variables, one assignment at a time).
* `Sem`: the CP semantics of a description stated in linear integer arithmetic (not derived from solvor's encoder),
  used to *propose* solutions / non-solutions.  Every proposed assignment is re-checked with cp_sem.violated()
  by the caller, so a wrong Sem can only lose candidates, never produce a false alarm.
  `neg_over_cnf` searches for a CNF model whose decoded assignment breaks the semantics (complete "nothing extra"
  when it answers unsat; that direction trusts z3 and this file).
"""
from __future__ import annotations

import z3

from oracles import cp_sem


def _bname(i):
    return f"b{i}"


class Cnf:
    def __init__(self, clauses, n_bool, timeout_ms=20000):
        parts = [f"(declare-const b{i} Bool)" for i in range(1, n_bool + 1)]
        for c in clauses:
            if c:
                parts.append("(assert (or " + " ".join(f"b{l}" if l > 0 else f"(not b{-l})" for l in c) + "))")
            else:
                parts.append("(assert false)")
        self.s = z3.Solver()
        self.s.set("timeout", timeout_ms)
        self.s.from_string("\n".join(parts))
        self.n_bool = n_bool
        self._b = {}

    def b(self, i):
        x = self._b.get(i)
        if x is None:
            x = self._b[i] = z3.Bool(_bname(i))
        return x

    def lit(self, l):
        return self.b(l) if l > 0 else z3.Not(self.b(-l))

    def accepts(self, lits):
        """True / False / None (unknown): CNF and all of `lits` (signed ints) satisfiable?"""
        r = self.s.check(*[self.lit(l) for l in lits])
        return True if r == z3.sat else False if r == z3.unsat else None

    def model_true(self):
        m = self.s.model()
        return {i for i in range(1, self.n_bool + 1) if z3.is_true(m.eval(self.b(i), model_completion=True))}

    def not_exactly_one(self, groups):
        """is there a CNF model in which one of the literal groups does not have exactly one true literal?
        returns (verdict, witness) with verdict True/False/None; witness = (group index, true literals)"""
        bad = []
        for g in groups:
            bs = [self.b(i) for i in g]
            bad.append(z3.Not(z3.PbEq([(x, 1) for x in bs], 1)) if bs else z3.BoolVal(True))
        self.s.push()
        try:
            self.s.add(z3.Or(*bad) if bad else z3.BoolVal(False))
            r = self.s.check()
            if r == z3.sat:
                tr = self.model_true()
                for k, g in enumerate(groups):
                    t = [i for i in g if i in tr]
                    if len(t) != 1:
                        return True, (k, t)
                return None, None
            return (False, None) if r == z3.unsat else (None, None)
        finally:
            self.s.pop()


# ------------------------------------------------------------------ semantics in arithmetic
def _expr(e, X):
    k = e[0]
    if k == "var":
        return X[e[1]]
    if k == "const":
        return z3.IntVal(e[1])
    if k == "add":
        return _expr(e[1], X) + _expr(e[2], X)
    if k == "sub":
        return _expr(e[1], X) - _expr(e[2], X)
    if k == "mul":
        return _expr(e[1], X) * e[2]
    if k == "rmul":
        return e[1] * _expr(e[2], X)
    raise ValueError(e)


def _isum(xs):
    xs = list(xs)
    return z3.Sum(xs) if xs else z3.IntVal(0)


def violated_formula(c, X, dom, tag):
    """formula that is true exactly for the assignments (inside the domain box) that BREAK constraint c.
    May introduce fresh existential booleans (circuit: a successor-closed node set that avoids node 0)."""
    k = c[0]
    if k == "rel":
        l, r = _expr(c[2], X), _expr(c[3], X)
        return (l != r) if c[1] == "==" else (l == r)
    if k == "all_different":
        xs = [X[n] for n in c[1]]
        return z3.Not(z3.Distinct(*xs)) if len(xs) > 1 else z3.BoolVal(False)
    if k in ("sum_eq", "sum_le", "sum_ge"):
        s = _isum(X[n] for n in c[1])
        return (s != c[2]) if k == "sum_eq" else (s > c[2]) if k == "sum_le" else (s < c[2])
    if k == "no_overlap":
        names, d = c[1], c[2]
        out = []
        for i in range(len(names)):
            for j in range(i + 1, len(names)):
                out.append(z3.And(X[names[i]] + d[i] > X[names[j]], X[names[j]] + d[j] > X[names[i]]))
        return z3.Or(*out) if out else z3.BoolVal(False)
    if k == "cumulative":
        names, d, dem, cap = c[1], c[2], c[3], c[4]
        if not names:
            return z3.BoolVal(False)
        lo = min(dom[n][0] for n in names)
        hi = max(dom[n][1] + di for n, di in zip(names, d))
        out = []
        for t in range(lo, hi + 1):
            # only tasks whose start window lets them run at t contribute
            act = [(n, di, de) for n, di, de in zip(names, d, dem) if dom[n][0] <= t < dom[n][1] + di]
            if sum(de for _, _, de in act) > cap:
                out.append(_isum(z3.If(z3.And(X[n] <= t, t < X[n] + di), de, 0) for n, di, de in act) > cap)
        return z3.Or(*out) if out else z3.BoolVal(False)
    if k == "circuit":
        names = c[1]
        n = len(names)
        if n == 0:
            return z3.BoolVal(False)
        xs = [X[x] for x in names]
        out = [z3.Or(x < 0, x >= n) for x in xs]
        if n > 1:
            out.append(z3.Not(z3.Distinct(*xs)))
        S = [z3.Bool(f"S!{tag}!{i}") for i in range(n)]
        closed = [z3.Not(S[0]), z3.Or(*S)]
        for i in range(n):
            for j in range(n):
                closed.append(z3.Implies(z3.And(S[i], xs[i] == j), S[j]))
        out.append(z3.And(*closed))
        return z3.Or(*out)
    raise ValueError(c)


def holds_formula(c, X, dom, tag):
    """formula true exactly for the assignments that SATISFY c (fresh existentials for circuit: visiting order)."""
    k = c[0]
    if k != "circuit":
        return z3.Not(violated_formula(c, X, dom, tag))
    names = c[1]
    n = len(names)
    if n == 0:
        return z3.BoolVal(True)
    xs = [X[x] for x in names]
    u = [z3.Int(f"u!{tag}!{i}") for i in range(n)]
    out = [z3.And(x >= 0, x < n) for x in xs]
    if n > 1:
        out.append(z3.Distinct(*xs))
    out.append(u[0] == 0)
    for i in range(n):
        out.append(z3.And(u[i] >= 0, u[i] < n))
        for j in range(1, n):
            out.append(z3.Implies(xs[i] == j, u[j] == u[i] + 1))
    if n > 1:
        out.append(z3.Distinct(*u))
    return z3.And(*out)


def int_vars(desc):
    X = {n: z3.Int(f"X!{n}") for n, _, _ in desc["vars"]}
    dom = {n: (lb, ub) for n, lb, ub in desc["vars"]}
    box = [z3.And(X[n] >= lb, X[n] <= ub) for n, lb, ub in desc["vars"]]
    return X, dom, box


class Sem:
    """solutions of a description, proposed by z3 (callers re-check them with cp_sem)."""

    def __init__(self, desc, timeout_ms=10000, seed=0):
        self.desc = desc
        self.X, self.dom, box = int_vars(desc)
        self.s = z3.Solver()
        self.s.set("timeout", timeout_ms)
        self.s.set("random_seed", seed)
        self.s.add(*box)
        for k, c in enumerate(desc["constraints"]):
            self.s.add(holds_formula(c, self.X, self.dom, k))

    def _decode(self):
        m = self.s.model()
        return {n: m.eval(x, model_completion=True).as_long() for n, x in self.X.items()}

    def feasible(self):
        r = self.s.check()
        return True if r == z3.sat else False if r == z3.unsat else None

    def sample(self, rng, wish=None):
        """a solution that agrees with a random wish assignment on a greedily maximal set of variables"""
        names = [v[0] for v in self.desc["vars"]]
        if wish is None:
            wish = {n: rng.randint(lb, ub) for n, lb, ub in self.desc["vars"]}
        order = names[:]
        rng.shuffle(order)
        fixed = []
        if self.s.check() != z3.sat:
            return None
        best = self._decode()
        for n in order:
            if best[n] == wish[n]:
                fixed.append(self.X[n] == wish[n])
                continue
            r = self.s.check(*fixed, self.X[n] == wish[n])
            if r == z3.sat:
                fixed.append(self.X[n] == wish[n])
                best = self._decode()
        return best


def neg_over_cnf(cnf: Cnf, desc, bool_vars, timeout_ms=10000):
    """search a model of the CNF whose decoded assignment breaks a constraint of desc.
    bool_vars: {name: {value: boolean id}} (the encoder's variable map of the named variables).
    returns ('extra', assignment) | ('none', None) | ('unknown', None)"""
    X, dom, box = int_vars(desc)
    s = cnf.s
    s.push()
    try:
        s.set("timeout", timeout_ms)
        s.add(*box)
        for n, lb, ub in desc["vars"]:
            for v in range(lb, ub + 1):
                s.add(cnf.b(bool_vars[n][v]) == (X[n] == v))
        s.add(z3.Or(*[violated_formula(c, X, dom, k) for k, c in enumerate(desc["constraints"])]) if desc["constraints"]
              else z3.BoolVal(False))
        r = s.check()
        if r == z3.sat:
            m = s.model()
            return "extra", {n: m.eval(x, model_completion=True).as_long() for n, x in X.items()}
        return ("none", None) if r == z3.unsat else ("unknown", None)
    finally:
        s.pop()


def violated(desc, a):
    """re-export of the certifying direct check"""
    return cp_sem.violated(desc, a)


def selftest(desc, limit=400):
    """cross-check of this file against cp_sem on one small description: for every point of the box,
    violated_formula / holds_formula must agree with cp_sem.holds constraint by constraint. returns list of disagreements"""
    import itertools
    X, dom, box = int_vars(desc)
    names = [v[0] for v in desc["vars"]]
    pts = list(itertools.islice(itertools.product(*[range(lb, ub + 1) for _, lb, ub in desc["vars"]]), limit))
    bad = []
    for k, c in enumerate(desc["constraints"]):
        sv, sh = z3.Solver(), z3.Solver()
        sv.add(violated_formula(c, X, dom, f"v{k}"))
        sh.add(holds_formula(c, X, dom, f"h{k}"))
        for p in pts:
            a = dict(zip(names, p))
            fix = [X[n] == v for n, v in a.items()]
            want = cp_sem.holds(c, a)
            got_v = sv.check(*fix) == z3.sat
            got_h = sh.check(*fix) == z3.sat
            if got_v == want or got_h != want:
                bad.append((c, a, want, got_v, got_h))
                break
    return bad

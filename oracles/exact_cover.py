"""Independent exact oracle for exact-cover instances (property C07).

An instance is (matrix, is_secondary): `matrix` a list of 0/1 rows of equal length C, `is_secondary` a list of C
booleans. A *cover* is a set S of row indices such that
  * every primary column j has exactly one row of S with a 1 in it,
  * every secondary column has at most one,
  * every row of S has a 1 in at least one primary column (rows covering no primary column are never part of an
    answer: otherwise any cover could be padded with disjoint secondary-only / empty rows).
Nothing here shares code or ideas with dancing links: `is_cover` counts column sums, `all_covers` tries every
subset of the eligible rows (2^R subsets; meant for R <= ~10), `all_covers_naive` does the same by calling
`is_cover` on every subset and is used to cross-check `all_covers`.

For instances beyond subset enumeration (second half of the file): `covers_by_parts` splits the instance into
independent parts (union-find) and lists the covers of each part by plain first-uncovered-column backtracking on bit
masks; `why_not_cover_sparse` checks one returned selection directly against the definition; `bell`,
`perfect_matchings_complete`, `domino_tilings`, `QUEENS` are cover counts known from combinatorics, used to cross-check
the enumeration on structured families. checks/C07.py cross-checks all of them against the subset enumeration on every run.
"""
from __future__ import annotations

from itertools import combinations


def secondary_flags(n_cols, columns, secondary):
    """Column j is secondary iff its name (columns[j], or j itself when no names were given) equals one of the
    entries of `secondary`."""
    names = list(columns) if columns else list(range(n_cols))
    sec = list(secondary) if secondary else []
    return [any(names[j] == s for s in sec) for j in range(n_cols)]


def eligible_rows(matrix, is_secondary):
    return [i for i, row in enumerate(matrix) if any(v and not is_secondary[j] for j, v in enumerate(row))]


def why_not_cover(matrix, is_secondary, selection):
    """None if `selection` (iterable of row indices) is a cover, else a sentence saying what is wrong."""
    sel = list(selection)
    n_rows = len(matrix)
    for i in sel:
        if isinstance(i, bool) or not isinstance(i, int) or not 0 <= i < n_rows:
            return f"{i!r} is not a row index of a matrix with {n_rows} rows"
    if len(set(sel)) != len(sel):
        return f"a row is selected twice: {sel}"
    for j, s in enumerate(is_secondary):
        k = sum(1 for i in sel if matrix[i][j])
        if not s and k != 1:
            return f"primary column {j} is covered {k} times by rows {sel}"
        if s and k > 1:
            return f"secondary column {j} is covered {k} times by rows {sel}"
    for i in sel:
        if not any(v and not is_secondary[j] for j, v in enumerate(matrix[i])):
            return f"row {i} covers no primary column but is selected ({sel})"
    return None


def is_cover(matrix, is_secondary, selection):
    return why_not_cover(matrix, is_secondary, selection) is None


def all_covers(matrix, is_secondary):
    """Set of frozensets of row indices: every cover of the instance."""
    n_cols = len(is_secondary)
    prim = sum(1 << j for j in range(n_cols) if not is_secondary[j])
    masks = [sum(1 << j for j, v in enumerate(row) if v) for row in matrix]
    elig = [i for i, m in enumerate(masks) if m & prim]
    out = set()
    for k in range(len(elig) + 1):
        for sel in combinations(elig, k):
            acc = 0
            for i in sel:
                if acc & masks[i]:  # some column would be covered twice
                    break
                acc |= masks[i]
            else:
                if acc & prim == prim:  # every primary column covered (exactly once, by disjointness)
                    out.add(frozenset(sel))
    return out


def all_covers_naive(matrix, is_secondary):
    elig = eligible_rows(matrix, is_secondary)
    return {frozenset(sel) for k in range(len(elig) + 1) for sel in combinations(elig, k)
            if is_cover(matrix, is_secondary, sel)}


# ------------------------------------------------------------------ instances beyond subset enumeration
# (size ladder / long searches).  Still nothing of dancing links here: no link structure, no cover/uncover, no
# minimum-size column rule.  `split` cuts the instance into independent parts with union-find (rows that share a
# column belong together); `covers_of_part` lists the covers of one part by the textbook backtracking "take the
# lowest-numbered primary column that is still uncovered, try every eligible row that has a 1 there and is disjoint
# from what was chosen" on integer bit masks, with an explicit stack (no recursion: the interpreter's recursion limit
# is left alone).  The covers of the whole instance are exactly the unions of one cover per part.
class OracleLimit(Exception):
    pass


def sparse_rows(matrix):
    return [[j for j, v in enumerate(row) if v] for row in matrix]


def why_not_cover_sparse(rows, is_secondary, selection):
    """why_not_cover on the sparse form (rows[i] = list of the columns where row i has a 1); same sentences."""
    sel = list(selection)
    n_rows = len(rows)
    for i in sel:
        if isinstance(i, bool) or not isinstance(i, int) or not 0 <= i < n_rows:
            return f"{i!r} is not a row index of a matrix with {n_rows} rows"
    if len(set(sel)) != len(sel):
        return f"a row is selected twice: {sel}"
    hits = {}
    for i in sel:
        for j in rows[i]:
            hits[j] = hits.get(j, 0) + 1
    short = sel if len(sel) <= 12 else f"{sel[:12]}... ({len(sel)} rows)"
    for j, s in enumerate(is_secondary):
        k = hits.get(j, 0)
        if not s and k != 1:
            return f"primary column {j} is covered {k} times by rows {short}"
        if s and k > 1:
            return f"secondary column {j} is covered {k} times by rows {short}"
    for i in sel:
        if all(is_secondary[j] for j in rows[i]):
            return f"row {i} covers no primary column but is selected ({short})"
    return None


def split(rows, is_secondary):
    """Independent parts of the instance: list of (row indices, column indices), every part holding at least one
    primary column.  Only eligible rows (a 1 in some primary column) take part; a primary column that no eligible row
    touches is a part with no rows (it has no cover, so the instance has none)."""
    n_cols = len(is_secondary)
    parent = list(range(n_cols))

    def find(x):
        while parent[x] != x:
            parent[x] = parent[parent[x]]
            x = parent[x]
        return x

    elig = [i for i, cols in enumerate(rows) if any(not is_secondary[j] for j in cols)]
    for i in elig:
        cols = rows[i]
        a = find(cols[0])
        for j in cols[1:]:
            b = find(j)
            if a != b:
                parent[b] = a
    part_rows, part_cols = {}, {}
    for j in range(n_cols):
        part_cols.setdefault(find(j), []).append(j)
    for i in elig:
        part_rows.setdefault(find(rows[i][0]), []).append(i)
    return [(part_rows.get(k, []), cols) for k, cols in part_cols.items() if any(not is_secondary[j] for j in cols)]


def covers_of_part(rows, is_secondary, part_rows, part_cols, limit=2_000_000):
    """All covers of one part as tuples of (global) row indices."""
    local = {j: b for b, j in enumerate(part_cols)}
    prim = sum(1 << local[j] for j in part_cols if not is_secondary[j])
    by_bit = {}
    for i in part_rows:
        m = 0
        for j in rows[i]:
            m |= 1 << local[j]
        for j in rows[i]:
            if not is_secondary[j]:
                by_bit.setdefault(1 << local[j], []).append((i, m))
    out, stack = [], [(0, ())]
    while stack:
        used, chosen = stack.pop()
        rest = prim & ~used
        if not rest:
            out.append(chosen)
            if len(out) > limit:
                raise OracleLimit(f"more than {limit} covers in one part")
            continue
        for i, m in by_bit.get(rest & -rest, ()):
            if not m & used:
                stack.append((used | m, chosen + (i,)))
    return out


def covers_by_parts(rows, is_secondary, limit=2_000_000):
    """[covers of part 1, covers of part 2, ...]; the covers of the instance are the unions of one per part (an
    instance without any primary column has the single, empty, cover: the empty product)."""
    return [covers_of_part(rows, is_secondary, pr, pc, limit) for pr, pc in split(rows, is_secondary)]


# ------------------------------------------------------------------ closed-form counts (cross-checks for the families
# of checks/C07.py whose number of covers is known by construction)
QUEENS = {1: 1, 2: 0, 3: 0, 4: 2, 5: 10, 6: 4, 7: 40, 8: 92, 9: 352, 10: 724, 11: 2680, 12: 14200, 13: 73712}


def bell(n):
    """Number of partitions of an n-set (Bell triangle)."""
    row = [1]
    for _ in range(n):
        new = [row[-1]]
        for v in row:
            new.append(new[-1] + v)
        row = new
    return row[0]


def perfect_matchings_complete(v):
    """Perfect matchings of the complete graph on v vertices: (v-1)!! for even v, none for odd v."""
    if v % 2:
        return 0
    out = 1
    for k in range(v - 1, 0, -2):
        out *= k
    return out


def domino_tilings(h, w):
    """Domino tilings of an h x w board by the broken-profile recurrence (exact integers)."""
    if (h * w) % 2:
        return 0
    if w > h:
        h, w = w, h
    cur = {0: 1}
    for _ in range(h):
        for c in range(w):
            nxt = {}
            for mask, ways in cur.items():
                if mask & 1 << c:  # cell already filled by a vertical domino from the row above
                    m = mask & ~(1 << c)
                    nxt[m] = nxt.get(m, 0) + ways
                else:
                    m = mask | 1 << c  # vertical domino reaching into the next row
                    nxt[m] = nxt.get(m, 0) + ways
                    if c + 1 < w and not mask & 1 << (c + 1):  # horizontal domino: marks the next cell as filled
                        m = mask | 1 << (c + 1)
                        nxt[m] = nxt.get(m, 0) + ways
            cur = nxt
    return cur.get(0, 0)

"""Independent exact oracle for exact-cover instances (property C07).

An instance is (matrix, is_secondary): `matrix` a list of 0/1 rows of equal length C, `is_secondary` a list of C
booleans. A *cover* is a set S of row indices such that
  * every primary column j has exactly one row of S with a 1 in it,
  * every secondary column has at most one,
  * every row of S has a 1 in at least one primary column (rows covering no primary column are never part of an
    answer: otherwise any cover could be padded with disjoint secondary-only / empty rows).
Nothing here shares code or ideas with dancing links: `is_cover` counts column sums, `all_covers` tries every
subset of the eligible rows (2^R subsets; meant for R <= ~10), `all_covers_naive` does the same by calling
`is_cover` on every subset and is used to cross-check `all_covers`.
"""
from __future__ import annotations

from itertools import combinations


def secondary_flags(n_cols, columns, secondary):
    """Column j is secondary iff its name (columns[j], or j itself when no names were given) equals one of the
    entries of `secondary`."""
    names = list(columns) if columns else list(range(n_cols))
    sec = list(secondary) if secondary else []
    return [any(names[j] == s for s in sec) for j in range(n_cols)]


def eligible_rows(matrix, is_secondary):
    return [i for i, row in enumerate(matrix) if any(v and not is_secondary[j] for j, v in enumerate(row))]


def why_not_cover(matrix, is_secondary, selection):
    """None if `selection` (iterable of row indices) is a cover, else a sentence saying what is wrong."""
    sel = list(selection)
    n_rows = len(matrix)
    for i in sel:
        if isinstance(i, bool) or not isinstance(i, int) or not 0 <= i < n_rows:
            return f"{i!r} is not a row index of a matrix with {n_rows} rows"
    if len(set(sel)) != len(sel):
        return f"a row is selected twice: {sel}"
    for j, s in enumerate(is_secondary):
        k = sum(1 for i in sel if matrix[i][j])
        if not s and k != 1:
            return f"primary column {j} is covered {k} times by rows {sel}"
        if s and k > 1:
            return f"secondary column {j} is covered {k} times by rows {sel}"
    for i in sel:
        if not any(v and not is_secondary[j] for j, v in enumerate(matrix[i])):
            return f"row {i} covers no primary column but is selected ({sel})"
    return None


def is_cover(matrix, is_secondary, selection):
    return why_not_cover(matrix, is_secondary, selection) is None


def all_covers(matrix, is_secondary):
    """Set of frozensets of row indices: every cover of the instance."""
    n_cols = len(is_secondary)
    prim = sum(1 << j for j in range(n_cols) if not is_secondary[j])
    masks = [sum(1 << j for j, v in enumerate(row) if v) for row in matrix]
    elig = [i for i, m in enumerate(masks) if m & prim]
    out = set()
    for k in range(len(elig) + 1):
        for sel in combinations(elig, k):
            acc = 0
            for i in sel:
                if acc & masks[i]:  # some column would be covered twice
                    break
                acc |= masks[i]
            else:
                if acc & prim == prim:  # every primary column covered (exactly once, by disjointness)
                    out.add(frozenset(sel))
    return out


def all_covers_naive(matrix, is_secondary):
    elig = eligible_rows(matrix, is_secondary)
    return {frozenset(sel) for k in range(len(elig) + 1) for sel in combinations(elig, k)
            if is_cover(matrix, is_secondary, sel)}

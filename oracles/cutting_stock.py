"""Exact oracle for (small) cutting-stock / integer covering instances.  Integers only, no solvor import.

Problem: given a finite multiset-free column set S (non-negative integer vectors of length m) and a demand
vector d >= 0, find the minimum number k of columns (with repetition) c_1..c_k in S with sum_j c_j >= d
component-wise.  For cutting stock, S = all patterns p with sum_i p_i * size_i <= width (it is enough to take the
maximal ones: every pattern is dominated by a maximal one, and covering is monotone).

Method: breadth-first search over residual demand vectors r (0 <= r <= d), r -> max(r - c, 0).  The first level
at which the zero vector appears is the optimum (BFS levels = number of rolls used; every plan with k rolls is a
path of length k, every path is a plan).  The search is complete (all columns tried from all reached vectors), so
the answer is exact; a witness plan is returned, so the upper bound is self-certifying (`check_plan`).
`min_rolls_dfs` is a second, structurally different implementation (iterative deepening on the number of rolls,
columns in non-increasing index order) used to cross-check the BFS in the thorough tier.
"""
from __future__ import annotations

from itertools import product

INF = float("inf")


def all_patterns(sizes, width):
    """Every non-negative integer vector p with sum p_i*size_i <= width (sizes positive ints)."""
    rng = [range(width // s + 1) for s in sizes]
    return [p for p in product(*rng) if sum(a * s for a, s in zip(p, sizes)) <= width]


def maximal_patterns(sizes, width):
    """Patterns to which no further piece can be added."""
    if not sizes:
        return []
    smin = min(sizes)
    out = []
    for p in all_patterns(sizes, width):
        used = sum(a * s for a, s in zip(p, sizes))
        if width - used < smin:
            out.append(p)
    return out


def min_cover(columns, demands):
    """(k, plan) with k = exact minimum number of columns covering `demands` (plan: dict column -> count),
    or (INF, None) when no finite plan exists."""
    m = len(demands)
    d0 = tuple(int(x) for x in demands)
    zero = (0,) * m
    if d0 == zero:
        return 0, {}
    cols = []
    for c in columns:
        c = tuple(int(x) for x in c)
        if any(x < 0 for x in c):
            raise ValueError("oracle handles non-negative columns only")
        if any(x > 0 and dd > 0 for x, dd in zip(c, d0)) and c not in cols:
            cols.append(c)
    parent = {d0: None}
    frontier = [d0]
    k = 0
    while frontier:
        k += 1
        nxt = []
        for r in frontier:
            for c in cols:
                r2 = tuple(a - b if a > b else 0 for a, b in zip(r, c))
                if r2 == r or r2 in parent:
                    continue
                parent[r2] = (r, c)
                if r2 == zero:
                    plan = {}
                    cur = r2
                    while parent[cur] is not None:
                        cur, cc = parent[cur]
                        plan[cc] = plan.get(cc, 0) + 1
                    return k, plan
                nxt.append(r2)
        frontier = nxt
    return INF, None


def min_rolls(sizes, width, demands):
    """Exact minimum number of rolls of a cutting-stock instance, and a witness plan."""
    return min_cover(maximal_patterns(list(sizes), int(width)), demands)


def min_rolls_dfs(columns, demands, limit=64):
    """Independent second implementation: smallest k such that k columns (chosen in non-increasing index order)
    cover the demands."""
    cols = [tuple(c) for c in columns]
    d0 = tuple(demands)
    if all(x == 0 for x in d0):
        return 0

    def go(r, k, last):
        if all(x <= 0 for x in r):
            return True
        if k == 0:
            return False
        for j in range(last, -1, -1):
            c = cols[j]
            if not any(a > 0 and b > 0 for a, b in zip(r, c)):
                continue
            if go(tuple(a - b for a, b in zip(r, c)), k - 1, j):
                return True
        return False

    for k in range(1, limit + 1):
        if go(d0, k, len(cols) - 1):
            return k
    return INF


def check_plan(plan, demands, sizes=None, width=None, column_set=None):
    """Independent plan checker.  Returns a list of problems (empty = valid plan)."""
    bad = []
    m = len(demands)
    prod = [0] * m
    for pat, cnt in plan.items():
        if len(pat) != m:
            bad.append(f"pattern {pat} has length {len(pat)} != {m}")
            continue
        if not isinstance(cnt, int) or isinstance(cnt, bool) or cnt < 0:
            bad.append(f"count of {pat} is {cnt!r}")
            continue
        if any((not isinstance(a, int)) or a < 0 for a in pat):
            bad.append(f"pattern {pat} has a non-integer or negative entry")
            continue
        if sizes is not None and sum(a * s for a, s in zip(pat, sizes)) > width:
            bad.append(f"pattern {pat} uses {sum(a * s for a, s in zip(pat, sizes))} > width {width}")
        if column_set is not None and tuple(pat) not in column_set:
            bad.append(f"pattern {pat} is not a column of the problem")
        for i in range(m):
            prod[i] += pat[i] * cnt
    for i in range(m):
        if prod[i] < demands[i]:
            bad.append(f"demand {i}: produced {prod[i]} < {demands[i]}")
    return bad


# ------------------------------------------------------------------ certifying oracle for planted perfect packings
def volume_bound(sizes, width, demands):
    """ceil(total demanded length / width): no plan can use fewer rolls, because pieces are cut whole from rolls of
    length `width` and a plan must produce at least the demanded number of every piece.  Integers only."""
    total = sum(int(s) * int(d) for s, d in zip(sizes, demands))
    return -(-total // int(width))


def plan_from_rolls(sizes, rolls):
    """rolls: list of (list of piece sizes cut from one roll, multiplicity).  Returns the plan {pattern: count} over
    the piece types `sizes` (every size occurring in a roll must occur exactly once in `sizes`)."""
    index = {}
    for i, s in enumerate(sizes):
        if s in index:
            raise ValueError(f"size {s} occurs twice: planted rolls need distinct type sizes")
        index[s] = i
    plan = {}
    for pieces, mult in rolls:
        pat = [0] * len(sizes)
        for s in pieces:
            pat[index[s]] += 1
        pat = tuple(pat)
        plan[pat] = plan.get(pat, 0) + int(mult)
    return plan


def planted_optimum(sizes, width, demands, plan):
    """Optimum known by construction.  `plan` ({pattern: count}) is a candidate optimal plan; it is accepted only if
      (1) it is a valid plan for the instance (check_plan: patterns fit, every demand met) and
      (2) its number of rolls equals the volume bound ceil(sum size_i*demand_i / width).
    Then (1) gives OPT <= k and (2) gives OPT >= k.  Returns (k, plan); raises ValueError when the certificate does
    not hold (a generator bug, never a verdict about the code under test)."""
    plan = {tuple(p): int(c) for p, c in plan.items()}
    bad = check_plan(plan, list(demands), list(sizes), width)
    if bad:
        raise ValueError(f"planted plan is not valid: {bad[:3]}")
    k = sum(plan.values())
    lb = volume_bound(sizes, width, demands)
    if k != lb:
        raise ValueError(f"planted plan uses {k} rolls but the volume bound is {lb}: no certificate")
    return k, plan

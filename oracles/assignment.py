"""Exact oracles for the rectangular linear assignment problem (property C10).

A *matching* of an r x c matrix picks min(r, c) cells, no two in one row or one column (so every line of
the shorter side is used exactly once).  All oracles work on integer matrices; `exact_scale` turns a matrix of
Python ints / finite floats into (K, den) with  cost[i][j] == K[i][j] / den  exactly (floats are dyadic
rationals, so den is a power of two and nothing is rounded).

Three independent procedures, none of which shares code or ideas with solvor/hungarian.py:

* `minmax_enum`  - enumerate every matching (itertools.permutations).          any shape with <= ENUM_LIMIT matchings
* `minmax_dp`    - dynamic programme over sets of used columns.                 longer side <= DP_LIMIT
* `minmax_certified` - successive shortest augmenting paths (Bellman-Ford, integers) whose answer is only
  accepted together with an LP-duality certificate that is checked by `verify_certificate` (a dozen lines;
  this, not the search, is what has to be trusted).                             any size

`selftest` cross-validates the three on random matrices; the check module runs it first.
"""
from __future__ import annotations

import itertools
import math

ENUM_LIMIT = 5040  # 7! : permutation enumeration up to 7 x 7
DP_LIMIT = 12


class OracleError(Exception):
    pass


# ------------------------------------------------------------------ exact representation
def exact_scale(matrix):
    """(K, den): integer matrix and positive integer with matrix[i][j] == K[i][j] / den exactly."""
    ratios = []
    den = 1
    for row in matrix:
        rr = []
        for x in row:
            if isinstance(x, bool) or not isinstance(x, (int, float)):
                raise OracleError(f"entry {x!r} is not an int or float")
            if isinstance(x, float):
                if x != x or x in (math.inf, -math.inf):
                    raise OracleError(f"entry {x!r} is not finite")
                p, q = x.as_integer_ratio()
            else:
                p, q = x, 1
            rr.append((p, q))
            if q > den:
                den = q  # denominators are powers of two: the largest is the common one
        ratios.append(rr)
    K = []
    for rr in ratios:
        row = []
        for p, q in rr:
            if den % q:
                raise OracleError("non-dyadic denominator")
            row.append(p * (den // q))
        K.append(row)
    return K, den


def exact_number(x, den):
    """x * den as an exact integer, or None when x is not a finite number or x*den is not an integer."""
    if isinstance(x, bool) or not isinstance(x, (int, float)):
        return None
    if isinstance(x, float):
        if x != x or x in (math.inf, -math.inf):
            return None
        p, q = x.as_integer_ratio()
    else:
        p, q = x, 1
    if (p * den) % q:
        return None
    return (p * den) // q


def dims(K):
    r = len(K)
    c = len(K[0]) if r else 0
    for row in K:
        if len(row) != c:
            raise OracleError("ragged matrix")
    return r, c


def transpose(K):
    return [list(col) for col in zip(*K)]


def n_matchings(r, c):
    a, b = min(r, c), max(r, c)
    return math.perm(b, a)


# ------------------------------------------------------------------ 1. enumeration
_MATCHINGS: dict = {}


def all_matchings(r, c):
    """Every matching of an r x c grid as a tuple of flat cell indices i*c + j."""
    key = (r, c)
    got = _MATCHINGS.get(key)
    if got is None:
        out = []
        if r <= c:
            for p in itertools.permutations(range(c), r):  # row i -> column p[i]
                out.append(tuple(i * c + p[i] for i in range(r)))
        else:
            for p in itertools.permutations(range(r), c):  # column j -> row p[j]
                out.append(tuple(p[j] * c + j for j in range(c)))
        if len(_MATCHINGS) > 64:
            _MATCHINGS.clear()
        _MATCHINGS[key] = got = out
    return got


def minmax_enum(K):
    r, c = dims(K)
    flat = [x for row in K for x in row]
    lo = hi = None
    for cells in all_matchings(r, c):
        s = 0
        for t in cells:
            s += flat[t]
        if lo is None:
            lo = hi = s
        elif s < lo:
            lo = s
        elif s > hi:
            hi = s
    return lo, hi


# ------------------------------------------------------------------ 2. subset dynamic programme
def minmax_dp(K):
    r, c = dims(K)
    if r > c:
        K = transpose(K)
        r, c = c, r
    size = 1 << c
    lo = [None] * size
    hi = [None] * size
    lo[0] = hi[0] = 0
    best_lo = best_hi = None
    for mask in range(size):  # rows 0..popcount(mask)-1 occupy exactly the columns of mask
        a = lo[mask]
        if a is None:
            continue
        b = hi[mask]
        i = bin(mask).count("1")
        if i == r:
            if best_lo is None or a < best_lo:
                best_lo = a
            if best_hi is None or b > best_hi:
                best_hi = b
            continue
        row = K[i]
        for j in range(c):
            bit = 1 << j
            if mask & bit:
                continue
            m2 = mask | bit
            v = a + row[j]
            if lo[m2] is None or v < lo[m2]:
                lo[m2] = v
            v = b + row[j]
            if hi[m2] is None or v > hi[m2]:
                hi[m2] = v
    return best_lo, best_hi


# ------------------------------------------------------------------ 3. certified optimum
def verify_certificate(K, match, u, v):
    """K is r x c with r <= c, match[i] = column of row i.  Returns the certified minimum.

    Weak duality: if v[j] <= 0 and u[i] + v[j] <= K[i][j] for all i, j, then every matching M that uses all rows
    costs  sum K[i][M(i)] >= sum (u[i] + v[M(i)]) >= sum u + sum v.  So a matching whose cost equals sum u + sum v
    is a minimum one.
    """
    r, c = dims(K)
    if r > c or len(match) != r or len(u) != r or len(v) != c:
        raise OracleError("certificate has the wrong shape")
    if sorted(set(match)) != sorted(match) or any(not (0 <= j < c) for j in match):
        raise OracleError("certificate matching is not injective / in range")
    if any(x > 0 for x in v):
        raise OracleError("certificate: positive column dual")
    for i in range(r):
        for j in range(c):
            if u[i] + v[j] > K[i][j]:
                raise OracleError("certificate: dual infeasible")
    value = sum(K[i][match[i]] for i in range(r))
    if sum(u) + sum(v) != value:
        raise OracleError("certificate: duality gap")
    return value


def _min_with_certificate(K):
    r, c = dims(K)  # r <= c
    match_row = [-1] * r
    match_col = [-1] * c
    for _ in range(r):
        dr = [0 if match_row[i] == -1 else None for i in range(r)]
        dc = [None] * c
        pred = [-1] * c
        for _pass in range(2 * (r + c) + 4):
            changed = False
            for i in range(r):
                di = dr[i]
                if di is None:
                    continue
                row = K[i]
                mi = match_row[i]
                for j in range(c):
                    if j == mi:
                        continue
                    nd = di + row[j]
                    if dc[j] is None or nd < dc[j]:
                        dc[j] = nd
                        pred[j] = i
                        changed = True
            for j in range(c):
                i = match_col[j]
                if i != -1 and dc[j] is not None:
                    nd = dc[j] - K[i][j]
                    if dr[i] is None or nd < dr[i]:
                        dr[i] = nd
                        changed = True
            if not changed:
                break
        else:
            raise OracleError("Bellman-Ford did not settle")
        free = [j for j in range(c) if match_col[j] == -1 and dc[j] is not None]
        j = min(free, key=lambda t: dc[t])
        for _step in range(r + c + 2):
            i = pred[j]
            pj = match_row[i]
            match_row[i] = j
            match_col[j] = i
            if pj == -1:
                break
            j = pj
        else:
            raise OracleError("augmentation did not end")
    # shortest distances from the sink t in the final residual graph (nodes: rows, columns, t; arcs:
    # t -> matched column (0), matched column -> its row (-K), row -> every other column (+K), free column -> t (0))
    dr = [None] * r
    dc = [None] * c
    for _pass in range(2 * (r + c) + 6):
        changed = False
        for j in range(c):
            i = match_col[j]
            if i == -1:
                if dc[j] is not None and dc[j] < 0:
                    raise OracleError("negative cycle through the sink")
                continue
            if dc[j] is None or dc[j] > 0:
                dc[j] = 0
                changed = True
            nd = dc[j] - K[i][j]
            if dr[i] is None or nd < dr[i]:
                dr[i] = nd
                changed = True
        for i in range(r):
            if dr[i] is None:
                continue
            row = K[i]
            mi = match_row[i]
            for j in range(c):
                if j != mi and (dc[j] is None or dr[i] + row[j] < dc[j]):
                    dc[j] = dr[i] + row[j]
                    changed = True
        if not changed:
            break
    else:
        raise OracleError("negative cycle in the final residual graph")
    u = [-dr[i] for i in range(r)]
    v = [min(dc[j], 0) for j in range(c)]
    return match_row, u, v


def min_certified(K):
    r, c = dims(K)
    if r > c:
        K = transpose(K)
    match, u, v = _min_with_certificate(K)
    return verify_certificate(K, match, u, v)


def minmax_certified(K):
    lo = min_certified(K)
    hi = -min_certified([[-x for x in row] for row in K])
    return lo, hi


# ------------------------------------------------------------------ dispatch / self test
def which(r, c):
    if n_matchings(r, c) <= ENUM_LIMIT:
        return "enum"
    if max(r, c) <= DP_LIMIT:
        return "dp"
    return "certified"


def minmax(K):
    """(minimum, maximum) total over all matchings of the integer matrix K."""
    r, c = dims(K)
    if r == 0 or c == 0:
        return 0, 0
    w = which(r, c)
    if w == "enum":
        return minmax_enum(K)
    if w == "dp":
        return minmax_dp(K)
    return minmax_certified(K)


def selftest(rng, rounds=250):
    """The three procedures must agree wherever more than one applies.  Returns number of comparisons."""
    n = 0
    for t in range(rounds):
        r, c = rng.randint(1, 7), rng.randint(1, 7)
        if t % 5 == 0:
            r, c = rng.randint(1, 9), rng.randint(7, 9)
            if t % 10 == 0:
                r, c = c, r
        span = rng.choice([1, 2, 5, 40])
        K = [[rng.randint(-span, span) for _ in range(c)] for _ in range(r)]
        answers = {"dp": minmax_dp(K), "certified": minmax_certified(K)}
        if n_matchings(r, c) <= ENUM_LIMIT:
            answers["enum"] = minmax_enum(K)
        if len(set(answers.values())) != 1:
            raise OracleError(f"oracles disagree on {K}: {answers}")
        n += 1
    # the certificate checker must reject a wrong answer
    try:
        verify_certificate([[1, 2], [2, 1]], [1, 0], [2, 2], [0, 0])
    except OracleError:
        pass
    else:
        raise OracleError("verify_certificate accepted a non-optimal matching")
    return n

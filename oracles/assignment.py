"""Exact oracles for the rectangular linear assignment problem (property C10).

A *matching* of an r x c matrix picks min(r, c) cells, no two in one row or one column (so every line of
the shorter side is used exactly once).  All oracles work on integer matrices; `exact_scale` turns a matrix of
Python ints / finite floats into (K, den) with  cost[i][j] == K[i][j] / den  exactly (floats are dyadic
rationals, so den is a power of two and nothing is rounded).

Three independent procedures, none of which shares code or ideas with solvor/hungarian.py:

* `minmax_enum`  - enumerate every matching (itertools.permutations).          any shape with <= ENUM_LIMIT matchings
* `minmax_dp`    - dynamic programme over sets of used columns.                 longer side <= DP_LIMIT
* `minmax_dp_short` - dynamic programme over sets of used lines of the SHORT side, one long-side line at a time.
                                                             shorter side <= SHORT_DP_MAX, longer side of any length
* `minmax_certified` - successive shortest augmenting paths (Bellman-Ford, integers) whose answer is only
  accepted together with an LP-duality certificate that is checked by `verify_certificate` (a dozen lines;
  this, not the search, is what has to be trusted).                             any size

* `optimum_certified` - ONE side (min or max) of a large matrix (the size ladder, 31 .. 1000+).  Again only the
  certificate is trusted (`verify_certificate`, exact integers, O(r*c)); the search for it is free to be fast:
  (a) duals derived from a *hint* matching (the answer of the code under test) by label-correcting shortest
  paths over the exchange graph - they exist iff that graph has no negative cycle / improving path, i.e. iff
  the hint is optimal -, (b) otherwise a shortest-augmenting-path search with potentials in integers (the same
  family of algorithm as the code under test, hence NOT trusted - its output goes through verify_certificate).
  Either way the number returned is a proven optimum; the hint can change the time it takes, never the value.
* `choice_matters` - exact O(r*c) test whether two matchings of different total exist.

`selftest` cross-validates all of them on random matrices; the check module runs it first.
"""
from __future__ import annotations

import itertools
import math

ENUM_LIMIT = 5040  # 7! : permutation enumeration up to 7 x 7
DP_LIMIT = 12


class OracleError(Exception):
    pass


# ------------------------------------------------------------------ exact representation
def exact_scale(matrix):
    """(K, den): integer matrix and positive integer with matrix[i][j] == K[i][j] / den exactly."""
    ratios = []
    den = 1
    for row in matrix:
        rr = []
        for x in row:
            if isinstance(x, bool) or not isinstance(x, (int, float)):
                raise OracleError(f"entry {x!r} is not an int or float")
            if isinstance(x, float):
                if x != x or x in (math.inf, -math.inf):
                    raise OracleError(f"entry {x!r} is not finite")
                p, q = x.as_integer_ratio()
            else:
                p, q = x, 1
            rr.append((p, q))
            if q > den:
                den = q  # denominators are powers of two: the largest is the common one
        ratios.append(rr)
    K = []
    for rr in ratios:
        row = []
        for p, q in rr:
            if den % q:
                raise OracleError("non-dyadic denominator")
            row.append(p * (den // q))
        K.append(row)
    return K, den


def exact_number(x, den):
    """x * den as an exact integer, or None when x is not a finite number or x*den is not an integer."""
    if isinstance(x, bool) or not isinstance(x, (int, float)):
        return None
    if isinstance(x, float):
        if x != x or x in (math.inf, -math.inf):
            return None
        p, q = x.as_integer_ratio()
    else:
        p, q = x, 1
    if (p * den) % q:
        return None
    return (p * den) // q


def dims(K):
    r = len(K)
    c = len(K[0]) if r else 0
    for row in K:
        if len(row) != c:
            raise OracleError("ragged matrix")
    return r, c


def transpose(K):
    return [list(col) for col in zip(*K)]


def n_matchings(r, c):
    a, b = min(r, c), max(r, c)
    return math.perm(b, a)


# ------------------------------------------------------------------ 1. enumeration
_MATCHINGS: dict = {}


def all_matchings(r, c):
    """Every matching of an r x c grid as a tuple of flat cell indices i*c + j."""
    key = (r, c)
    got = _MATCHINGS.get(key)
    if got is None:
        out = []
        if r <= c:
            for p in itertools.permutations(range(c), r):  # row i -> column p[i]
                out.append(tuple(i * c + p[i] for i in range(r)))
        else:
            for p in itertools.permutations(range(r), c):  # column j -> row p[j]
                out.append(tuple(p[j] * c + j for j in range(c)))
        if len(_MATCHINGS) > 64:
            _MATCHINGS.clear()
        _MATCHINGS[key] = got = out
    return got


def minmax_enum(K):
    r, c = dims(K)
    flat = [x for row in K for x in row]
    lo = hi = None
    for cells in all_matchings(r, c):
        s = 0
        for t in cells:
            s += flat[t]
        if lo is None:
            lo = hi = s
        elif s < lo:
            lo = s
        elif s > hi:
            hi = s
    return lo, hi


# ------------------------------------------------------------------ 2. subset dynamic programme
def minmax_dp(K):
    r, c = dims(K)
    if r > c:
        K = transpose(K)
        r, c = c, r
    size = 1 << c
    lo = [None] * size
    hi = [None] * size
    lo[0] = hi[0] = 0
    best_lo = best_hi = None
    for mask in range(size):  # rows 0..popcount(mask)-1 occupy exactly the columns of mask
        a = lo[mask]
        if a is None:
            continue
        b = hi[mask]
        i = bin(mask).count("1")
        if i == r:
            if best_lo is None or a < best_lo:
                best_lo = a
            if best_hi is None or b > best_hi:
                best_hi = b
            continue
        row = K[i]
        for j in range(c):
            bit = 1 << j
            if mask & bit:
                continue
            m2 = mask | bit
            v = a + row[j]
            if lo[m2] is None or v < lo[m2]:
                lo[m2] = v
            v = b + row[j]
            if hi[m2] is None or v > hi[m2]:
                hi[m2] = v
    return best_lo, best_hi


# ------------------------------------------------------------------ 2b. subset DP over the SHORT side (elongated shapes)
SHORT_DP_MAX = 6  # 2^6 states per line of the long side: a 6 x 200 matrix costs about 80 000 steps


def minmax_dp_short(K):
    """(min, max) for a matrix whose shorter side has at most SHORT_DP_MAX lines, any length of the longer side.
    The lines of the long side are visited one after the other; the state is the set of short-side lines that already
    have a partner.  A long-side line is either left out or given to one short-side line that is still free (every
    matching arises exactly once: its pairs sorted by long-side index).  O(long * 2^short * short), integers only."""
    r, c = dims(K)
    if r > c:
        K = transpose(K)
        r, c = c, r
    if r > SHORT_DP_MAX:
        raise OracleError("minmax_dp_short: the shorter side is too long")
    size = 1 << r
    full = size - 1
    lo = [None] * size
    hi = [None] * size
    lo[0] = hi[0] = 0
    for j in range(c):
        col = [K[i][j] for i in range(r)]
        for mask in range(full - 1, -1, -1):  # descending: a target mask | bit > mask has been handled before, so the
            a = lo[mask]                      # value read here is still the one without line j (one partner per line)
            if a is None:
                continue
            b = hi[mask]
            for i in range(r):
                bit = 1 << i
                if mask & bit:
                    continue
                m2 = mask | bit
                v = a + col[i]
                if lo[m2] is None or v < lo[m2]:
                    lo[m2] = v
                v = b + col[i]
                if hi[m2] is None or v > hi[m2]:
                    hi[m2] = v
    if lo[full] is None:
        raise OracleError("minmax_dp_short: no complete matching")
    return lo[full], hi[full]


# ------------------------------------------------------------------ 3. certified optimum
def verify_certificate(K, match, u, v):
    """K is r x c with r <= c, match[i] = column of row i.  Returns the certified minimum.

    Weak duality: if v[j] <= 0 and u[i] + v[j] <= K[i][j] for all i, j, then every matching M that uses all rows
    costs  sum K[i][M(i)] >= sum (u[i] + v[M(i)]) >= sum u + sum v.  So a matching whose cost equals sum u + sum v
    is a minimum one.
    """
    r, c = dims(K)
    if r > c or len(match) != r or len(u) != r or len(v) != c:
        raise OracleError("certificate has the wrong shape")
    if sorted(set(match)) != sorted(match) or any(not (0 <= j < c) for j in match):
        raise OracleError("certificate matching is not injective / in range")
    if any(x > 0 for x in v):
        raise OracleError("certificate: positive column dual")
    for i in range(r):
        for j in range(c):
            if u[i] + v[j] > K[i][j]:
                raise OracleError("certificate: dual infeasible")
    value = sum(K[i][match[i]] for i in range(r))
    if sum(u) + sum(v) != value:
        raise OracleError("certificate: duality gap")
    return value


def _min_with_certificate(K):
    r, c = dims(K)  # r <= c
    match_row = [-1] * r
    match_col = [-1] * c
    for _ in range(r):
        dr = [0 if match_row[i] == -1 else None for i in range(r)]
        dc = [None] * c
        pred = [-1] * c
        for _pass in range(2 * (r + c) + 4):
            changed = False
            for i in range(r):
                di = dr[i]
                if di is None:
                    continue
                row = K[i]
                mi = match_row[i]
                for j in range(c):
                    if j == mi:
                        continue
                    nd = di + row[j]
                    if dc[j] is None or nd < dc[j]:
                        dc[j] = nd
                        pred[j] = i
                        changed = True
            for j in range(c):
                i = match_col[j]
                if i != -1 and dc[j] is not None:
                    nd = dc[j] - K[i][j]
                    if dr[i] is None or nd < dr[i]:
                        dr[i] = nd
                        changed = True
            if not changed:
                break
        else:
            raise OracleError("Bellman-Ford did not settle")
        free = [j for j in range(c) if match_col[j] == -1 and dc[j] is not None]
        j = min(free, key=lambda t: dc[t])
        for _step in range(r + c + 2):
            i = pred[j]
            pj = match_row[i]
            match_row[i] = j
            match_col[j] = i
            if pj == -1:
                break
            j = pj
        else:
            raise OracleError("augmentation did not end")
    # shortest distances from the sink t in the final residual graph (nodes: rows, columns, t; arcs:
    # t -> matched column (0), matched column -> its row (-K), row -> every other column (+K), free column -> t (0))
    dr = [None] * r
    dc = [None] * c
    for _pass in range(2 * (r + c) + 6):
        changed = False
        for j in range(c):
            i = match_col[j]
            if i == -1:
                if dc[j] is not None and dc[j] < 0:
                    raise OracleError("negative cycle through the sink")
                continue
            if dc[j] is None or dc[j] > 0:
                dc[j] = 0
                changed = True
            nd = dc[j] - K[i][j]
            if dr[i] is None or nd < dr[i]:
                dr[i] = nd
                changed = True
        for i in range(r):
            if dr[i] is None:
                continue
            row = K[i]
            mi = match_row[i]
            for j in range(c):
                if j != mi and (dc[j] is None or dr[i] + row[j] < dc[j]):
                    dc[j] = dr[i] + row[j]
                    changed = True
        if not changed:
            break
    else:
        raise OracleError("negative cycle in the final residual graph")
    u = [-dr[i] for i in range(r)]
    v = [min(dc[j], 0) for j in range(c)]
    return match_row, u, v


def min_certified(K):
    r, c = dims(K)
    if r > c:
        K = transpose(K)
    match, u, v = _min_with_certificate(K)
    return verify_certificate(K, match, u, v)


def minmax_certified(K):
    lo = min_certified(K)
    hi = -min_certified([[-x for x in row] for row in K])
    return lo, hi


# ------------------------------------------------------------------ 4. large matrices: one certified side
def duals_from_matching(K, match):
    """K: r x c with r <= c; match[i] = column of row i (complete, injective).  Column duals v with v <= 0,
    v[j] == 0 on free columns and  v[j] - v[match[i]] <= K[i][j] - K[i][match[i]]  for all i, j  exist iff the
    matching is a minimum one; the largest such v are shortest distances in that system of difference
    constraints.  Label-correcting search.  Returns (u, v), or None (negative cycle / improving path, or gave up).
    NOT trusted: the caller hands the result to verify_certificate."""
    r, c = dims(K)
    match_col = [-1] * c
    for i, j in enumerate(match):
        match_col[j] = i
    dc = [0] * c
    pops = [0] * c
    queue = [j for j in range(c) if match_col[j] != -1]
    queued = [match_col[j] != -1 for j in range(c)]
    head = 0
    limit = c + 2
    budget = 64 * c + 1024  # optimal matchings need about one scan per column, long chains a few dozen; then give up
    while head < len(queue):
        j0 = queue[head]
        head += 1
        queued[j0] = False
        pops[j0] += 1
        budget -= 1
        if pops[j0] > limit or budget < 0:
            return None  # (in all likelihood) a negative cycle: a cyclic exchange improves the matching
        row = K[match_col[j0]]
        base = dc[j0] - row[j0]
        for j in range(c):
            if base + row[j] < dc[j]:
                if match_col[j] == -1:
                    return None  # a free column would need a negative dual: an improving alternating path
                dc[j] = base + row[j]
                if not queued[j]:
                    queued[j] = True
                    queue.append(j)
        if head > 4096:
            del queue[:head]
            head = 0
    u = [K[i][match[i]] - dc[match[i]] for i in range(r)]
    return u, dc


def _sap_with_certificate(K):
    """Shortest augmenting paths with row/column potentials, integers, r <= c.  -> (match, u, v).  NOT trusted."""
    r, c = dims(K)
    u = [0] * (r + 1)
    v = [0] * (c + 1)
    p = [0] * (c + 1)  # p[j]: row (1-based) matched to column j (1-based); column 0 is the artificial start
    way = [0] * (c + 1)
    for i in range(1, r + 1):
        p[0] = i
        j0 = 0
        minv = [None] * (c + 1)
        used = [False] * (c + 1)
        while True:
            used[j0] = True
            i0 = p[j0]
            row = K[i0 - 1]
            ui = u[i0]
            delta = None
            j1 = -1
            for j in range(1, c + 1):
                if used[j]:
                    continue
                cur = row[j - 1] - ui - v[j]
                mj = minv[j]
                if mj is None or cur < mj:
                    minv[j] = mj = cur
                    way[j] = j0
                if delta is None or mj < delta:
                    delta = mj
                    j1 = j
            for j in range(c + 1):
                if used[j]:
                    u[p[j]] += delta
                    v[j] -= delta
                elif minv[j] is not None:
                    minv[j] -= delta
            j0 = j1
            if p[j0] == 0:
                break
        while j0:
            j1 = way[j0]
            p[j0] = p[j1]
            j0 = j1
    match = [-1] * r
    for j in range(1, c + 1):
        if p[j]:
            match[p[j] - 1] = j - 1
    return match, u[1:], v[1:]


def optimum_certified(K, sense, hint=None):
    """(value, how): the minimum (sense "min") or maximum ("max") total over all matchings of K, proven by a
    verified LP-duality certificate.  hint: optional candidate answer, one entry per row of K (column or -1);
    an invalid or non-optimal hint is simply not used.  how: "hint" | "search"."""
    r, c = dims(K)
    if sense not in ("min", "max"):
        raise OracleError("sense")
    W = K if sense == "min" else [[-x for x in row] for row in K]
    h = None
    if hint is not None and len(hint) == r and all(isinstance(x, int) and -1 <= x < c for x in hint):
        if r <= c:
            h = list(hint)
        else:
            h = [-1] * c
            for i, j in enumerate(hint):
                if j != -1:
                    h[j] = i
    if r > c:
        W = transpose(W)
    if h is not None and (any(x == -1 for x in h) or len(set(h)) != len(h)):
        h = None
    value = None
    how = "search"
    if h is not None:
        d = duals_from_matching(W, h)
        if d is not None:
            try:
                value = verify_certificate(W, h, d[0], d[1])
                how = "hint"
            except OracleError:
                value = None
    if value is None:
        match, u, v = _sap_with_certificate(W)
        value = verify_certificate(W, match, u, v)
    return (value if sense == "min" else -value), how


def choice_matters(K):
    """True iff two matchings of K have different totals.  Square: iff K is not of the form a[i] + b[j] (exchange two
    rows' columns); more columns than rows: iff some row is not constant (move one row to a free column); more rows
    than columns: iff some column is not constant."""
    r, c = dims(K)
    if r == 0 or c == 0:
        return False
    if r == c:
        k00 = K[0][0]
        r0 = K[0]
        return any(K[i][j] - K[i][0] - r0[j] + k00 != 0 for i in range(1, r) for j in range(1, c))
    if r < c:
        return any(x != row[0] for row in K for x in row)
    return any(K[i][j] != K[0][j] for i in range(1, r) for j in range(c))


# ------------------------------------------------------------------ dispatch / self test
def which(r, c):
    if n_matchings(r, c) <= ENUM_LIMIT:
        return "enum"
    if max(r, c) <= DP_LIMIT:
        return "dp"
    if min(r, c) <= SHORT_DP_MAX:
        return "dp-short"
    return "certified"


def minmax(K):
    """(minimum, maximum) total over all matchings of the integer matrix K."""
    r, c = dims(K)
    if r == 0 or c == 0:
        return 0, 0
    w = which(r, c)
    if w == "enum":
        return minmax_enum(K)
    if w == "dp":
        return minmax_dp(K)
    if w == "dp-short":
        return minmax_dp_short(K)
    return minmax_certified(K)


def _random_matching(rng, r, c):
    if r <= c:
        return rng.sample(range(c), r)
    out = [-1] * r
    for j, i in enumerate(rng.sample(range(r), c)):
        out[i] = j
    return out


def selftest(rng, rounds=250):
    """The three procedures must agree wherever more than one applies.  Returns number of comparisons."""
    n = 0
    for t in range(rounds):
        r, c = rng.randint(1, 7), rng.randint(1, 7)
        if t % 5 == 0:
            r, c = rng.randint(1, 9), rng.randint(7, 9)
            if t % 10 == 0:
                r, c = c, r
        span = rng.choice([1, 2, 5, 40])
        K = [[rng.randint(-span, span) for _ in range(c)] for _ in range(r)]
        if t % 7 == 3:  # a_i + b_j (plus, half of the time, one disturbed cell): no choice / barely a choice
            a = [rng.randint(-span, span) for _ in range(r)]
            b = [rng.randint(-span, span) if r == c else 0 for _ in range(c)]
            if r > c:
                a, b = [0] * r, [rng.randint(-span, span) for _ in range(c)]
            K = [[a[i] + b[j] for j in range(c)] for i in range(r)]
            if t % 2:
                K[rng.randrange(r)][rng.randrange(c)] += 1
        answers = {"dp": minmax_dp(K), "certified": minmax_certified(K)}
        if n_matchings(r, c) <= ENUM_LIMIT:
            answers["enum"] = minmax_enum(K)
        for sense, side in (("min", 0), ("max", 1)):
            val, how = optimum_certified(K, sense)
            got = [val]
            # with hints: a random matching (rarely optimal), and an optimal one recovered by the search
            hint = _random_matching(rng, r, c)
            got.append(optimum_certified(K, sense, hint)[0])
            W = K if sense == "min" else [[-x for x in row] for row in K]
            m, _, _ = _sap_with_certificate(W if r <= c else transpose(W))
            if r <= c:
                opt_hint = m
            else:
                opt_hint = [-1] * r
                for j, i in enumerate(m):
                    opt_hint[i] = j
            val2, how2 = optimum_certified(K, sense, opt_hint)
            if how2 != "hint":
                raise OracleError(f"an optimal hint was not certified on {K} ({sense})")
            got.append(val2)
            if any(x != answers["dp"][side] for x in got):
                raise OracleError(f"optimum_certified disagrees on {K} ({sense}): {got} vs {answers['dp']}")
        if len(set(answers.values())) != 1:
            raise OracleError(f"oracles disagree on {K}: {answers}")
        if choice_matters(K) != (answers["dp"][0] != answers["dp"][1]):
            raise OracleError(f"choice_matters wrong on {K}")
        n += 1
    # elongated shapes: the short-side DP against the certified search (and enumeration / the column-set DP where they apply)
    for t in range(max(20, rounds // 4)):
        a, b = rng.randint(1, SHORT_DP_MAX), rng.choice([rng.randint(5, 14), rng.randint(13, 40), rng.randint(13, 90)])
        r, c = (a, b) if t % 2 else (b, a)
        span = rng.choice([1, 3, 9, 1000])
        K = [[rng.randint(-span, span) for _ in range(c)] for _ in range(r)]
        got = minmax_dp_short(K)
        answers = {"certified": minmax_certified(K)}
        if n_matchings(r, c) <= ENUM_LIMIT:
            answers["enum"] = minmax_enum(K)
        if max(r, c) <= DP_LIMIT:
            answers["dp"] = minmax_dp(K)
        if any(v != got for v in answers.values()):
            raise OracleError(f"minmax_dp_short disagrees on {K}: {got} vs {answers}")
        if choice_matters(K) != (got[0] != got[1]):
            raise OracleError(f"choice_matters wrong on {K}")
        n += 1
    # the certificate checker must reject a wrong answer
    try:
        verify_certificate([[1, 2], [2, 1]], [1, 0], [2, 2], [0, 0])
    except OracleError:
        pass
    else:
        raise OracleError("verify_certificate accepted a non-optimal matching")
    return n

"""Independent oracles for C18 (job-shop schedules, VRPTW states).

Nothing here imports solvor.  Everything works on plain data:

job shop
    jobs      : list of jobs, job = list of (machine, duration) with integer durations
    schedule  : mapping (job, op) -> (start, end)

VRP (index 0 of `customers` is the depot, customer id == index, as solve_vrptw builds it)
    customers : list of (id, x, y, demand, tw_start, tw_end, service_time, required_vehicles)
    vehicles  : list of (id, capacity)
    routes    : list (one per vehicle) of lists of customer ids
    unassigned: iterable of customer ids
    arrivals  : list (one per vehicle) of lists of floats

All checkers return a list of (clause, detail) pairs; the empty list means "holds".
"""
from __future__ import annotations

from math import hypot, inf, isfinite

# ---------------------------------------------------------------------------------------------- job shop


def jobshop_schedule_problems(jobs, schedule):
    """Clauses of the property statement that concern the schedule alone."""
    bad = []
    ops = [(j, k) for j, job in enumerate(jobs) for k in range(len(job))]
    try:
        keys = set(schedule.keys())
    except AttributeError:
        return [("every-operation", f"solution is not a mapping: {type(schedule).__name__}")]
    for jk in ops:
        if jk not in keys:
            bad.append(("every-operation", f"operation {jk} has no start/end"))
    if bad:
        return bad
    for (j, k) in ops:
        se = schedule[(j, k)]
        if not (isinstance(se, (tuple, list)) and len(se) == 2):
            return [("every-operation", f"operation {(j, k)} -> {se!r} is not a (start, end) pair")]
        s, e = se
        d = jobs[j][k][1]
        if e - s != d:
            bad.append(("duration", f"operation {(j, k)}: end - start = {e}-{s} = {e - s}, duration {d}"))
    for j, job in enumerate(jobs):
        for k in range(len(job) - 1):
            if schedule[(j, k + 1)][0] < schedule[(j, k)][1]:
                bad.append(("job-order", f"job {j}: op {k + 1} starts at {schedule[(j, k + 1)][0]} before op {k} "
                                         f"ends at {schedule[(j, k)][1]}"))
    by_m = {}
    for (j, k) in ops:
        by_m.setdefault(jobs[j][k][0], []).append((j, k))
    for m, lst in by_m.items():
        for a in range(len(lst)):
            sa, ea = schedule[lst[a]]
            for b in range(a + 1, len(lst)):
                sb, eb = schedule[lst[b]]
                # two processing intervals overlap iff they share a stretch of positive length
                if max(sa, sb) < min(ea, eb):
                    bad.append(("machine-overlap", f"machine {m}: {lst[a]}=[{sa},{ea}) overlaps {lst[b]}=[{sb},{eb})"))
    return bad


def jobshop_latest_end(jobs, schedule):
    ends = [schedule[(j, k)][1] for j, job in enumerate(jobs) for k in range(len(job))]
    return max(ends) if ends else 0


def jobshop_result_problems(jobs, schedule, objective):
    bad = jobshop_schedule_problems(jobs, schedule)
    if bad:
        return bad
    mk = jobshop_latest_end(jobs, schedule)
    if not (objective == mk):
        bad.append(("objective", f"objective {objective!r} != latest end time {mk!r}"))
    return bad


# ---------------------------------------------------------------------------------------------- VRP

C_ID, C_X, C_Y, C_DEM, C_TWS, C_TWE, C_SVC, C_REQ = range(8)

UNASSIGNED_PENALTY = 100000.0      # vrp_objective(unassigned_penalty=...) default; solve_vrptw never overrides it
MISSING_VEHICLE_UNITS = 1000.0     # VRPState.sync_violation: units per missing vehicle of a multi-vehicle customer


def _d(customers, a, b):
    return hypot(customers[a][C_X] - customers[b][C_X], customers[a][C_Y] - customers[b][C_Y])


def close(a, b, rel=1e-9, abs_=1e-9):
    if a == b:
        return True
    if not (isfinite(a) and isfinite(b)):
        return False
    return abs(a - b) <= abs_ + rel * max(abs(a), abs(b))


def vrp_arrivals(customers, route):
    """Arrival (= start of service) times along one route: leave the depot at 0, travel, wait for the
    window to open, serve, travel on."""
    out = []
    t = 0.0
    prev = 0
    for cid in route:
        t += _d(customers, prev, cid)
        t = max(t, customers[cid][C_TWS])
        out.append(t)
        t += customers[cid][C_SVC]
        prev = cid
    return out


def vrp_structure_problems(customers, n_vehicles, routes, unassigned):
    """Bookkeeping clauses: partition between routes and unassigned."""
    bad = []
    n = len(customers)
    ids = set(range(1, n))
    if len(routes) != n_vehicles:
        bad.append(("routes-shape", f"{len(routes)} routes for {n_vehicles} vehicles"))
    un = set(unassigned)
    for c in un:
        if c not in ids:
            bad.append(("unknown-id", f"unassigned contains {c!r}, which is not a customer"))
    on = {}
    for v, r in enumerate(routes):
        seen = set()
        for c in r:
            if c not in ids:
                bad.append(("unknown-id", f"route {v} contains {c!r}, which is not a customer"))
                continue
            if c in seen:
                bad.append(("twice-on-route", f"customer {c} appears more than once on route {v}: {list(r)}"))
            seen.add(c)
            on.setdefault(c, set()).add(v)
    for c in sorted(ids):
        k = len(on.get(c, ()))
        if k == 0 and c not in un:
            bad.append(("lost", f"customer {c} is on no route and not in unassigned"))
        if k > 0 and c in un:
            bad.append(("in-both", f"customer {c} is in unassigned and on route(s) {sorted(on[c])}"))
        if customers[c][C_REQ] == 1 and k > 1:
            bad.append(("single-on-many", f"single-vehicle customer {c} is on routes {sorted(on[c])}"))
    return bad


def vrp_arrival_problems(customers, routes, arrivals, exact=False):
    """exact=True: the instance is one on which float arithmetic is exact (oracles/jobshop_vrp_gen.vrp_exactness),
    so the recurrence must be met to the last bit; otherwise relative/absolute tolerance 1e-9."""
    bad = []
    same = (lambda g, e: g == e) if exact else close
    if len(arrivals) != len(routes):
        return [("arrival-times", f"{len(arrivals)} arrival lists for {len(routes)} routes")]
    for v, r in enumerate(routes):
        if any(not (isinstance(c, int) and 0 < c < len(customers)) for c in r):
            continue
        exp = vrp_arrivals(customers, r)
        got = list(arrivals[v])
        if len(got) != len(exp) or any(not same(g, e) for g, e in zip(got, exp)):
            bad.append(("arrival-times", f"route {v} = {list(r)}: arrival_times {got} but travel/wait/service gives {exp}"))
    return bad


def vrp_ok_problems(customers, n_vehicles, routes, unassigned, arrivals, exact=False):
    return vrp_structure_problems(customers, n_vehicles, routes, unassigned) + \
        vrp_arrival_problems(customers, routes, arrivals, exact)


def vrp_objective(customers, vehicles, routes, unassigned, *, distance_weight=1.0, vehicle_weight=0.0,
                  tw_penalty=1000.0, capacity_penalty=1000.0, sync_penalty=10000.0,
                  unassigned_penalty=UNASSIGNED_PENALTY):
    """Documented weighted sum, recomputed from routes alone (arrival times are recomputed, not read)."""
    dist = 0.0
    used = 0
    tw = 0.0
    cap = 0.0
    arr = []
    for v, r in enumerate(routes):
        a = vrp_arrivals(customers, r)
        arr.append(a)
        if r:
            used += 1
            dist += _d(customers, 0, r[0]) + sum(_d(customers, r[i], r[i + 1]) for i in range(len(r) - 1)) + _d(customers, r[-1], 0)
        for c, t in zip(r, a):
            if t > customers[c][C_TWE]:
                tw += t - customers[c][C_TWE]
        load = sum(customers[c][C_DEM] for c in r)
        if load > vehicles[v][1]:
            cap += load - vehicles[v][1]
    sync = 0.0
    for c in range(len(customers)):
        req = customers[c][C_REQ]
        if req <= 1:
            continue
        times = [arr[v][r.index(c)] for v, r in enumerate(routes) if c in r]
        if len(times) < req:
            sync += (req - len(times)) * MISSING_VEHICLE_UNITS
        elif len(times) > 1:
            sync += max(times) - min(times)
    parts = {"distance": dist, "vehicles_used": used, "tw_violation": tw, "capacity_violation": cap,
             "sync_violation": sync, "unassigned": len(set(unassigned))}
    total = (distance_weight * dist + vehicle_weight * used + tw_penalty * tw + capacity_penalty * cap
             + sync_penalty * sync + unassigned_penalty * len(set(unassigned)))
    return total, parts


def num(x):
    """JSON-friendly number: inf <-> None."""
    return None if x == inf else x


def unnum(x):
    return inf if x is None else x

"""Exact 0/1-knapsack oracle by complete subset enumeration (independent of solvor).

All numbers are integers (grid units): a decimal instance with weights k_i/den is handed over as the
integers k_i, so "fits" and "better" are decided exactly, never in floating point.

subset_table(values, weights) -> list of (weight, value) indexed by bitmask (bit i = item i chosen)
best(values, weights, cap, minimize) -> (optimum, mask) ; mask is a witness: its weight is <= cap and its
value is the optimum (self-certifying for "a subset this good exists"; that nothing better exists rests on
the enumeration being complete: all 2^n masks are visited).
"""
from __future__ import annotations


def subset_table(values, weights):
    n = len(values)
    tab = [(0, 0)] * (1 << n)
    for mask in range(1, 1 << n):
        low = mask & -mask
        i = low.bit_length() - 1
        w, v = tab[mask ^ low]
        tab[mask] = (w + weights[i], v + values[i])
    return tab


def best_from_table(tab, cap, minimize=False):
    best_v, best_m = None, None
    for mask, (w, v) in enumerate(tab):
        if w <= cap:
            if best_v is None or (v < best_v if minimize else v > best_v):
                best_v, best_m = v, mask
    return best_v, best_m  # mask 0 (empty set, weight 0) always qualifies when cap >= 0


def best(values, weights, cap, minimize=False):
    return best_from_table(subset_table(values, weights), cap, minimize)


def best_dp_int(values, weights, cap):
    """Second, structurally different exact method for larger n (integer weights, maximise): DP over items
    keyed by reachable weight -> best value (dictionary, no table indexed by capacity, no backtracking)."""
    reach = {0: 0}
    for v, w in zip(values, weights):
        nxt = dict(reach)
        for rw, rv in reach.items():
            nw = rw + w
            if nw <= cap and nxt.get(nw, -1) < rv + v:
                nxt[nw] = rv + v
        reach = nxt
    return max(reach.values())

"""Oracle side of C19 (search heuristics keep honest books).  Independent of /repo.

* adversarial deterministic objectives described by plain JSON:
    - {"kind": "table", "K": K, "table": [...]}       lookup table on the ring 0..K-1 (plateaus / ties everywhere)
    - {"kind": "grid", "n", "lo", "w", "m", "table", "slope", "q", "c"}   on R^n:
          f(x) = table[cell(x)] + slope.x + q*|x-c|^2   (cell = clamped floor grid: plateaus + jumps; q, slope
          optional smooth part).  Total: defined (and finite) for every float vector incl. inf/nan.
    - {"kind": "sep", "n", "lo", "w", "m", "table", "rot", "eps", "base", "slope", "q", "c", "abs", "quant"}  on R^n
          for ANY n (size of the description is O(n + m)):
          f(x) = base + eps * sum_i table[(cell_i(x_i) + i*rot) mod m] + Q( slope.x + q*|x-c|^2 + sum_i a_i*|x_i - k_i| )
          Q = identity, or floor to multiples of 2^-quant (plateaus and exact ties of a smooth function);
          eps = 2^-40 with base = 1.0 gives exact dyadic gaps of 2^-40; "abs" gives kinks.
    - a "table" given as {"gen": seed, "mode": ..., "eps": ..., "base": ...} is expanded by gen_values (own splitmix64
      generator: no dependence on the random module), so that 1000-state instances stay a one-line replayable case.
* any objective may carry a "pit": its value at one exact point shifted (see make_objective).
* Recorder: the recording proxy put between the solver and the objective (snapshots every argument at call time).
* judge_*: the property statement evaluated on (result, trace).  Exact: only ==, <= and unary minus on the floats
  the objective itself produced.
"""
from __future__ import annotations

import math

CLAMP = 1e6


# ----------------------------------------------------------------------------- discrete ring
class Ring:
    """States 0..K-1 in one of several concrete representations (what the callbacks hand to the solver).
    int / tuple / list / cached are the structural ones; the others are unusual but legal VALUES of a generic solution
    type T (round 3): falsy representatives of state 0 ("" / frozenset() / 0.0 / False), strings, frozensets, a pair whose
    first entry is itself a state, equal-but-differently-typed numbers, and None as a state ("none0")."""

    REPS = ("int", "tuple", "list", "cached", "str", "fset", "float", "nested", "bool01", "none0")

    def __init__(self, K: int, rep: str):
        self.K, self.rep = K, rep
        self.cache = {i: [i] for i in range(K)}  # rep == "cached": one shared list object per state

    def mk(self, i: int):
        i %= self.K
        rep = self.rep
        if rep == "int":
            return i
        if rep == "tuple":
            return (i,)
        if rep == "list":
            return [i]  # fresh object every time
        if rep == "cached":
            return self.cache[i]  # shared object
        if rep == "str":
            return "" if i == 0 else f"s{i}"
        if rep == "fset":
            return frozenset() if i == 0 else frozenset({i})
        if rep == "float":
            return float(i)
        if rep == "nested":
            return (i, (i, "x"))
        if rep == "bool01":
            return bool(i) if i < 2 else i
        if rep == "none0":
            return None if i == 0 else i
        raise ValueError(rep)

    @staticmethod
    def idx(s) -> int:
        if s is None:
            return 0
        if isinstance(s, (bool, int)):
            return int(s)
        if isinstance(s, float):
            return int(s)
        if isinstance(s, str):
            return int(s[1:]) if s else 0
        if isinstance(s, frozenset):
            return next(iter(s)) if s else 0
        return Ring.idx(s[0])


_M64 = (1 << 64) - 1


def splitmix(seed: int):
    """Tiny self-contained generator (splitmix64) -> function returning the next 64-bit integer."""
    st = [(seed * 0x9E3779B97F4A7C15 + 0x1234567) & _M64]

    def nxt():
        st[0] = (st[0] + 0x9E3779B97F4A7C15) & _M64
        z = st[0]
        z = ((z ^ (z >> 30)) * 0xBF58476D1CE4E5B9) & _M64
        z = ((z ^ (z >> 27)) * 0x94D049BB133111EB) & _M64
        return z ^ (z >> 31)

    return nxt


def gen_values(g, count):
    """Deterministic value list from {"gen": seed, "mode", "eps", "base"}.  Every value is base + eps*k with an
    integer k, i.e. exactly representable for the (eps, base) pairs used (eps a power of two, |k| small)."""
    nxt = splitmix(g["gen"])
    mode, eps, base = g.get("mode", "small"), g.get("eps", 1), g.get("base", 0)
    out = []
    a = max(1, int(count * 0.618))  # multiplier coprime to count: i -> (a*i + seed) mod count is a bijection
    while math.gcd(a, count) != 1:
        a += 1
    for i in range(count):
        r = nxt()
        if mode == "binary":
            k = r % 2
        elif mode == "small":
            k = r % 6 - 2
        elif mode == "perm":  # all distinct
            k = (i * a + g["gen"]) % count
        elif mode == "pit":  # plateau with rare pits and spikes
            k = (0, 0, 0, 0, 0, 0, 0, -1, 7, 0)[r % 10]
        elif mode == "early":  # the unique best value sits among the first states, the rest is rugged and worse
            k = -5 if i == g.get("at", 1) % count else r % 4
        else:
            raise ValueError(mode)
        out.append(base + eps * k)
    return out


def expand_table(t, count):
    return gen_values(t, count) if isinstance(t, dict) else list(t)


def table_objective(spec, negate=False):
    table = expand_table(spec["table"], spec["K"])
    if negate:
        return lambda s: -table[Ring.idx(s)]
    return lambda s: table[Ring.idx(s)]


# ----------------------------------------------------------------------------- continuous grid
def _cl(v: float) -> float:
    if v != v:
        return 0.0
    return CLAMP if v > CLAMP else (-CLAMP if v < -CLAMP else v)


def grid_cell(spec, x) -> int:
    lo, w, m = spec["lo"], spec["w"], spec["m"]
    cell = 0
    for i in range(spec["n"]):
        k = int(math.floor((_cl(x[i]) - lo) / w))
        k = 0 if k < 0 else (m - 1 if k > m - 1 else k)
        cell = cell * m + k
    return cell


def grid_objective(spec, negate=False):
    n, table = spec["n"], list(spec["table"])
    slope, q, c = spec.get("slope") or [0] * n, spec.get("q", 0), spec.get("c") or [0] * n

    def f(x):
        v = table[grid_cell(spec, x)]
        for i in range(n):
            xi = _cl(x[i])
            if slope[i]:
                v += slope[i] * xi
            if q:
                v += q * (xi - c[i]) * (xi - c[i])
        return v

    if negate:
        return lambda x: -f(x)
    return f


def _vec(v, n):
    return [v] * n if isinstance(v, (int, float)) else list(v)


def sep_objective(spec, negate=False):
    n, lo, w, m = spec["n"], spec.get("lo", 0.0), spec.get("w", 1.0), spec.get("m", 1)
    table = expand_table(spec.get("table") or [0], m)
    rot, eps, base = spec.get("rot", 0), spec.get("eps", 1), spec.get("base", 0)
    slope, q, c = _vec(spec.get("slope", 0), n), spec.get("q", 0), _vec(spec.get("c", 0), n)
    ab = spec.get("abs")  # [[a_i, k_i]] * n  or one [a, k] for every coordinate
    if ab is not None and not isinstance(ab[0], (list, tuple)):
        ab = [ab] * n
    quant = spec.get("quant")
    smooth = any(slope) or q or ab

    def f(x):
        steps = 0
        sm = 0.0
        for i in range(n):
            xi = _cl(x[i])
            if m > 1 or table[0]:
                k = int(math.floor((xi - lo) / w))
                k = 0 if k < 0 else (m - 1 if k > m - 1 else k)
                steps += table[(k + i * rot) % m]
            if slope[i]:
                sm += slope[i] * xi
            if q:
                sm += q * (xi - c[i]) * (xi - c[i])
            if ab:
                sm += ab[i][0] * abs(xi - ab[i][1])
        v = base + eps * steps
        if smooth:
            if quant is not None:
                sm = math.floor(sm * 2.0 ** quant) / 2.0 ** quant
            v += sm
        return v

    if negate:
        return lambda x: -f(x)
    return f


def sep_gradient(spec, kink="right"):
    """(Sub)gradient of the smooth part of a sep objective; at a kink x_i == k_i the one-sided derivative
    (kink='right': +a, 'left': -a) or 0 ('zero')."""
    n = spec["n"]
    slope, q, c = _vec(spec.get("slope", 0), n), spec.get("q", 0), _vec(spec.get("c", 0), n)
    ab = spec.get("abs")
    if ab is not None and not isinstance(ab[0], (list, tuple)):
        ab = [ab] * n
    at = {"right": 1, "left": -1, "zero": 0}[kink]

    def g(x):
        out = []
        for i in range(n):
            xi = _cl(x[i])
            v = slope[i] + 2 * q * (xi - c[i])
            if ab:
                d = xi - ab[i][1]
                v += ab[i][0] * (1 if d > 0 else (-1 if d < 0 else at))
            out.append(v)
        return out

    return g


def fd_gradient(f, n, h):
    """Forward differences of the user's objective (what a user without derivatives hands to bfgs)."""
    def g(x):
        x = [float(v) for v in x]
        f0 = f(x)
        out = []
        for i in range(n):
            y = list(x)
            y[i] += h
            out.append((f(y) - f0) / h)
        return out

    return g


def make_gradient(spec, mode):
    """Gradient callback of the user's f (user's sign) for bfgs/lbfgs.  mode: 'analytic' | 'table' (grid only) |
    'right'/'left'/'zero' (sep: convention at a kink) | {'fd': h}."""
    if isinstance(mode, dict):
        return fd_gradient(make_objective(spec), spec["n"], mode["fd"])
    if spec["kind"] == "sep":
        return sep_gradient(spec, "right" if mode == "analytic" else mode)
    return grid_gradient(spec, mode)


def grid_gradient(spec, mode):
    """Gradient callback for bfgs/lbfgs.  'analytic': gradient of the smooth part (zero on the plateaus);
    'table': an arbitrary deterministic vector field read from the cell (the book-keeping claim does not
    depend on the gradient being consistent with f)."""
    n = spec["n"]
    slope, q, c = spec.get("slope") or [0] * n, spec.get("q", 0), spec.get("c") or [0] * n
    gt = spec.get("gtable")

    def analytic(x):
        return [slope[i] + 2 * q * (_cl(x[i]) - c[i]) for i in range(n)]

    def table(x):
        return list(gt[grid_cell(spec, x) % len(gt)])

    return analytic if mode == "analytic" else table


def make_objective(spec, negate=False):
    """spec["pit"] = {"x": point, "d": delta}: the value at exactly that point (compared as a snapshot) is shifted
    by delta - a discontinuity at one point, used to plant 'the best candidate' at a chosen evaluation of a run."""
    pit = spec.get("pit")
    if pit is None:
        if spec["kind"] == "table":
            return table_objective(spec, negate)
        if spec["kind"] == "sep":
            return sep_objective(spec, negate)
        return grid_objective(spec, negate)
    base = make_objective({k: v for k, v in spec.items() if k != "pit"})
    px, d = pit["x"], pit["d"]

    def f(x):
        v = base(x)
        return v + d if snap(x) == px else v

    if negate:
        return lambda x: -f(x)
    return f


def gen_points(g, bounds):
    """Deterministic points from {"gen": seed, "count": k, "outside": one-in-N or 0}: coordinates on lo / hi /
    fractions of the box, occasionally outside it."""
    nxt = splitmix(g["gen"])
    out = []
    for _ in range(g["count"]):
        p = []
        for lo, hi in bounds:
            r = nxt() % 16
            p.append(lo if r == 0 else hi if r == 1 else lo + (hi - lo) * ((nxt() % 1024) / 1024.0))
        if g.get("outside") and nxt() % g["outside"] == 0:
            i = nxt() % len(p)
            p[i] = bounds[i][1] + 1.5 if nxt() % 2 else bounds[i][0] - 0.75
        out.append(p)
    return out


# ----------------------------------------------------------------------------- recording proxy
def snap(x):
    """Immutable, JSON-friendly snapshot of a solution as it is *now*."""
    if x is None or isinstance(x, (int, float, str)):
        return x
    if isinstance(x, frozenset):
        return ["frozenset"] + sorted(x)
    return [snap(v) for v in x]


class Recorder:
    def __init__(self, f):
        self.f = f
        self.calls: list = []  # (snapshot of argument, value returned)

    def __call__(self, x):
        v = self.f(x)
        self.calls.append((snap(x), v))
        return v


# ----------------------------------------------------------------------------- the contract
def same(a, b) -> bool:
    return a == b or (a != a and b != b)


def judge_books(sign, objective, pure_at_solution, trace, start_values, evaluations):
    """First group.  sign=+1 minimise / -1 maximise.  Returns [(clause, detail)]."""
    bad = []
    if not same(objective, pure_at_solution):
        bad.append(("ensures:objective==f(solution)", f"objective {objective!r} but f(solution) = {pure_at_solution!r}"))
    vals = [v for _, v in trace]
    if vals:
        k = min(range(len(vals)), key=lambda i: sign * vals[i])
        if not sign * objective <= sign * vals[k]:
            bad.append(("ensures:best-of-evaluated",
                        f"objective {objective!r} is worse than evaluated call #{k}: f({trace[k][0]}) = {vals[k]!r}"))
    for s, v in start_values:
        if not sign * objective <= sign * v:
            bad.append(("ensures:not-worse-than-start", f"objective {objective!r} is worse than start {s}: f = {v!r}"))
            break
    if evaluations != len(trace):
        bad.append(("ensures:evaluations==calls", f"evaluations {evaluations} but the objective was called {len(trace)} times"))
    return bad


def judge_bounds(solution, bounds):
    for i, (lo, hi) in enumerate(bounds):
        if not lo <= solution[i] <= hi:
            return [("ensures:within-bounds", f"solution[{i}] = {solution[i]!r} outside [{lo}, {hi}]")]
    return []


def judge_point(objective, pure_at_solution):
    """Second group (powell, bfgs, lbfgs with an objective)."""
    if not same(objective, pure_at_solution):
        return [("ensures:objective==f(solution)", f"objective {objective!r} but f(solution) = {pure_at_solution!r}")]
    return []


def nontrivial(sign, trace) -> bool:
    """The run went on after its best evaluation: some later evaluation is strictly worse than the best one
    (a solver returning 'the last/current point' would be wrong on this run)."""
    vals = [sign * v for _, v in trace]
    if len(vals) < 2:
        return False
    b = min(vals)
    first = vals.index(b)
    return any(v > b for v in vals[first + 1:])

"""Oracle side of C19 (search heuristics keep honest books).  Independent of /repo.

* adversarial deterministic objectives described by plain JSON:
    - {"kind": "table", "K": K, "table": [...]}       lookup table on the ring 0..K-1 (plateaus / ties everywhere)
    - {"kind": "grid", "n", "lo", "w", "m", "table", "slope", "q", "c"}   on R^n:
          f(x) = table[cell(x)] + slope.x + q*|x-c|^2   (cell = clamped floor grid: plateaus + jumps; q, slope
          optional smooth part).  Total: defined (and finite) for every float vector incl. inf/nan.
* Recorder: the recording proxy put between the solver and the objective (snapshots every argument at call time).
* judge_*: the property statement evaluated on (result, trace).  Exact: only ==, <= and unary minus on the floats
  the objective itself produced.
"""
from __future__ import annotations

import math

CLAMP = 1e6


# ----------------------------------------------------------------------------- discrete ring
class Ring:
    """States 0..K-1 in one of four concrete representations (what the callbacks hand to the solver)."""

    def __init__(self, K: int, rep: str):
        self.K, self.rep = K, rep
        self.cache = {i: [i] for i in range(K)}  # rep == "cached": one shared list object per state

    def mk(self, i: int):
        i %= self.K
        if self.rep == "int":
            return i
        if self.rep == "tuple":
            return (i,)
        if self.rep == "list":
            return [i]  # fresh object every time
        return self.cache[i]  # shared object

    @staticmethod
    def idx(s) -> int:
        return s if isinstance(s, int) else s[0]


def table_objective(spec, negate=False):
    table = list(spec["table"])
    if negate:
        return lambda s: -table[Ring.idx(s)]
    return lambda s: table[Ring.idx(s)]


# ----------------------------------------------------------------------------- continuous grid
def _cl(v: float) -> float:
    if v != v:
        return 0.0
    return CLAMP if v > CLAMP else (-CLAMP if v < -CLAMP else v)


def grid_cell(spec, x) -> int:
    lo, w, m = spec["lo"], spec["w"], spec["m"]
    cell = 0
    for i in range(spec["n"]):
        k = int(math.floor((_cl(x[i]) - lo) / w))
        k = 0 if k < 0 else (m - 1 if k > m - 1 else k)
        cell = cell * m + k
    return cell


def grid_objective(spec, negate=False):
    n, table = spec["n"], list(spec["table"])
    slope, q, c = spec.get("slope") or [0] * n, spec.get("q", 0), spec.get("c") or [0] * n

    def f(x):
        v = table[grid_cell(spec, x)]
        for i in range(n):
            xi = _cl(x[i])
            if slope[i]:
                v += slope[i] * xi
            if q:
                v += q * (xi - c[i]) * (xi - c[i])
        return v

    if negate:
        return lambda x: -f(x)
    return f


def grid_gradient(spec, mode):
    """Gradient callback for bfgs/lbfgs.  'analytic': gradient of the smooth part (zero on the plateaus);
    'table': an arbitrary deterministic vector field read from the cell (the book-keeping claim does not
    depend on the gradient being consistent with f)."""
    n = spec["n"]
    slope, q, c = spec.get("slope") or [0] * n, spec.get("q", 0), spec.get("c") or [0] * n
    gt = spec.get("gtable")

    def analytic(x):
        return [slope[i] + 2 * q * (_cl(x[i]) - c[i]) for i in range(n)]

    def table(x):
        return list(gt[grid_cell(spec, x) % len(gt)])

    return analytic if mode == "analytic" else table


def make_objective(spec, negate=False):
    return table_objective(spec, negate) if spec["kind"] == "table" else grid_objective(spec, negate)


# ----------------------------------------------------------------------------- recording proxy
def snap(x):
    """Immutable, JSON-friendly snapshot of a solution as it is *now*."""
    if isinstance(x, (int, float)):
        return x
    return [snap(v) for v in x]


class Recorder:
    def __init__(self, f):
        self.f = f
        self.calls: list = []  # (snapshot of argument, value returned)

    def __call__(self, x):
        v = self.f(x)
        self.calls.append((snap(x), v))
        return v


# ----------------------------------------------------------------------------- the contract
def same(a, b) -> bool:
    return a == b or (a != a and b != b)


def judge_books(sign, objective, pure_at_solution, trace, start_values, evaluations):
    """First group.  sign=+1 minimise / -1 maximise.  Returns [(clause, detail)]."""
    bad = []
    if not same(objective, pure_at_solution):
        bad.append(("ensures:objective==f(solution)", f"objective {objective!r} but f(solution) = {pure_at_solution!r}"))
    vals = [v for _, v in trace]
    if vals:
        k = min(range(len(vals)), key=lambda i: sign * vals[i])
        if not sign * objective <= sign * vals[k]:
            bad.append(("ensures:best-of-evaluated",
                        f"objective {objective!r} is worse than evaluated call #{k}: f({trace[k][0]}) = {vals[k]!r}"))
    for s, v in start_values:
        if not sign * objective <= sign * v:
            bad.append(("ensures:not-worse-than-start", f"objective {objective!r} is worse than start {s}: f = {v!r}"))
            break
    if evaluations != len(trace):
        bad.append(("ensures:evaluations==calls", f"evaluations {evaluations} but the objective was called {len(trace)} times"))
    return bad


def judge_bounds(solution, bounds):
    for i, (lo, hi) in enumerate(bounds):
        if not lo <= solution[i] <= hi:
            return [("ensures:within-bounds", f"solution[{i}] = {solution[i]!r} outside [{lo}, {hi}]")]
    return []


def judge_point(objective, pure_at_solution):
    """Second group (powell, bfgs, lbfgs with an objective)."""
    if not same(objective, pure_at_solution):
        return [("ensures:objective==f(solution)", f"objective {objective!r} but f(solution) = {pure_at_solution!r}")]
    return []


def nontrivial(sign, trace) -> bool:
    """The run went on after its best evaluation: some later evaluation is strictly worse than the best one
    (a solver returning 'the last/current point' would be wrong on this run)."""
    vals = [sign * v for _, v in trace]
    if len(vals) < 2:
        return False
    b = min(vals)
    first = vals.index(b)
    return any(v > b for v in vals[first + 1:])

"""Cheap certifying oracles for minimum spanning forests on graphs far beyond the small scope (C13, round 2).

Independent of solvor: no heap, no union-find, no sort of the edge list.  Graphs are (n, edges), nodes 0..n-1, edges =
list of (u, v, w); self loops and parallel edges allowed; weights are ints or floats (compared with Python's exact
int/float comparison, summed exactly as int / Fraction).

* components_bfs(n, edges)        - (label per node, number of components) by breadth-first search.
* matrix_prim(n, edges)           - (min spanning forest weight, components): textbook O(V^2) Prim on an adjacency MATRIX
                                    (lightest parallel edge per pair), one run per component.  Reference up to ~1100 nodes.
* boruvka(n, edges)               - (weight, components, chosen edge indices): Boruvka rounds; components relabelled by BFS
                                    over the chosen edges each round; ties broken by edge index (total order => no cycle).
                                    O((V+E) log V), used at every size and cross-checked against matrix_prim where that runs.
* forest_shape(n, edges, tree)    - direct check of a returned edge set against the definition: every edge an input
                                    edge (multiset), acyclic, same components as the graph.
* is_min_forest_fast(n, edges, tree) - self-certifying cycle-property test of a spanning forest (every non-forest edge
                                    is at least as heavy as the heaviest edge on the forest path between its ends), with
                                    binary lifting for the path maxima: O((V+E) log V).
"""
from __future__ import annotations

from collections import Counter, deque
from fractions import Fraction


def exact(w):
    if isinstance(w, int):
        return w
    return Fraction(w)


def exact_sum(ws):
    s = 0
    for w in ws:
        s += exact(w)
    return s


def components_bfs(n, edges):
    nbr = [[] for _ in range(n)]
    for e in edges:
        u, v = e[0], e[1]
        if u != v:
            nbr[u].append(v)
            nbr[v].append(u)
    label = [-1] * n
    c = 0
    for r in range(n):
        if label[r] >= 0:
            continue
        label[r] = c
        dq = deque([r])
        while dq:
            x = dq.popleft()
            for y in nbr[x]:
                if label[y] < 0:
                    label[y] = c
                    dq.append(y)
        c += 1
    return label, c


def matrix_prim(n, edges):
    """O(V^2) array Prim on an adjacency matrix; returns (exact weight of a minimum spanning forest, components)."""
    mat = [[None] * n for _ in range(n)]
    for u, v, w in edges:
        if u == v:
            continue
        old = mat[u][v]
        if old is None or w < old:
            mat[u][v] = w
            mat[v][u] = w
    done = [False] * n
    picked = []
    c = 0
    for root in range(n):
        if done[root]:
            continue
        c += 1
        done[root] = True
        key = list(mat[root])  # key[y]: lightest known edge from the tree to y (None: none)
        while True:
            best = -1
            bw = None
            for y in range(n):
                k = key[y]
                if k is not None and not done[y] and (bw is None or k < bw):
                    bw = k
                    best = y
            if best < 0:
                break
            done[best] = True
            picked.append(bw)
            row = mat[best]
            for y in range(n):
                k = row[y]
                if k is not None and not done[y]:
                    o = key[y]
                    if o is None or k < o:
                        key[y] = k
    return exact_sum(picked), c


def boruvka(n, edges):
    """(exact weight, components, indices of the chosen edges)."""
    real = [(i, e[0], e[1], e[2]) for i, e in enumerate(edges) if e[0] != e[1]]
    chosen = []
    label = list(range(n))
    ncomp = n
    while True:
        best = {}
        for i, u, v, w in real:
            a, b = label[u], label[v]
            if a == b:
                continue
            o = best.get(a)
            if o is None or w < o[0] or (w == o[0] and i < o[1]):
                best[a] = (w, i)
            o = best.get(b)
            if o is None or w < o[0] or (w == o[0] and i < o[1]):
                best[b] = (w, i)
        if not best:
            break
        new = {i for _, i in best.values()}
        chosen += sorted(new)
        label, ncomp2 = components_bfs(n, [edges[i] for i in chosen])
        if ncomp2 != n - len(chosen):
            raise AssertionError("boruvka oracle produced a cycle")  # impossible with a total order on the edges
        ncomp = ncomp2
        real = [t for t in real if label[t[1]] != label[t[2]]]
    return exact_sum(edges[i][2] for i in chosen), ncomp, chosen


def forest_shape(n, edges, tree, glabel, c):
    """tree: list of (u, v, w) in index space; glabel, c: components_bfs of the graph.
    Returns list of (kind, detail) with kind in {"edges-of-the-input", "count", "acyclic", "connects"}."""
    out = []
    pool = Counter((min(u, v), max(u, v), w) for u, v, w in edges)
    for a, b, w in tree:
        k = (min(a, b), max(a, b), w)
        if pool[k] <= 0:
            out.append(("edges-of-the-input", f"edge {(a, b, w)!r} is not in the input (or used more often than given)"))
            break
        pool[k] -= 1
    if len(tree) != n - c:
        out.append(("count", f"{len(tree)} edges returned, a spanning forest of this graph has {n - c}"))
    # acyclic <=> (#components of the returned edge set) == n - (#returned edges), loops count as cycles
    loops = [e for e in tree if e[0] == e[1]]
    tl, tc = components_bfs(n, tree)
    if loops or tc != n - len(tree):
        # locate one cycle-closing edge by incremental BFS-free labelling (only on failure, may be slow)
        lab = list(range(n))
        bad = loops[0] if loops else None
        if bad is None:
            members = {i: [i] for i in range(n)}
            for a, b, w in tree:
                x, y = lab[a], lab[b]
                if x == y:
                    bad = (a, b, w)
                    break
                if len(members[x]) < len(members[y]):
                    x, y = y, x
                for t in members[y]:
                    lab[t] = x
                members[x] += members.pop(y)
        out.append(("acyclic", f"edge {bad!r} closes a cycle in the returned edge set"))
    elif tc != c:
        out.append(("connects", f"returned edges leave {tc} components, the graph has {c}"))
    return out


def is_min_forest_fast(n, edges, tree):
    """tree must be a spanning forest of (n, edges).  True iff the cycle property holds (=> minimum weight).
    Returns (ok, witness) where witness = (non-forest edge, heavier forest-path maximum) on failure."""
    adj = [[] for _ in range(n)]
    for u, v, w in tree:
        adj[u].append((v, w))
        adj[v].append((u, w))
    depth = [-1] * n
    par = [0] * n
    pw = [None] * n
    order = []
    for r in range(n):
        if depth[r] >= 0:
            continue
        depth[r] = 0
        par[r] = r
        dq = deque([r])
        while dq:
            x = dq.popleft()
            order.append(x)
            for y, w in adj[x]:
                if depth[y] < 0:
                    depth[y] = depth[x] + 1
                    par[y] = x
                    pw[y] = w
                    dq.append(y)
    LOG = max(1, max(depth).bit_length())
    up = [par]
    mx = [pw]
    for _ in range(1, LOG):
        pu, pm = up[-1], mx[-1]
        nu = [0] * n
        nm = [None] * n
        for x in range(n):
            h = pu[x]
            nu[x] = pu[h]
            a, b = pm[x], pm[h]
            nm[x] = a if b is None else b if a is None else (a if a >= b else b)
        up.append(nu)
        mx.append(nm)

    def path_max(a, b):
        best = None
        if depth[a] < depth[b]:
            a, b = b, a
        d = depth[a] - depth[b]
        j = 0
        while d:
            if d & 1:
                m = mx[j][a]
                if m is not None and (best is None or m > best):
                    best = m
                a = up[j][a]
            d >>= 1
            j += 1
        if a == b:
            return best
        for j in range(LOG - 1, -1, -1):
            if up[j][a] != up[j][b]:
                for m in (mx[j][a], mx[j][b]):
                    if m is not None and (best is None or m > best):
                        best = m
                a, b = up[j][a], up[j][b]
        for m in (pw[a], pw[b]):
            if m is not None and (best is None or m > best):
                best = m
        if par[a] != par[b]:
            raise AssertionError("ends not connected by the forest")
        return best

    for u, v, w in edges:
        if u == v:
            continue
        m = path_max(u, v)
        if m is not None and w < m:
            return False, ((u, v, w), m)
    return True, None


def self_test():
    """boruvka == matrix_prim == subset enumeration (oracles/mst.py) on a fixed family; certificate accepts exactly the
    minimum forests.  Returns the number of graphs."""
    import random

    from oracles import mst as O
    rng = random.Random(4242)
    cnt = 0
    for t in range(160):
        n = rng.randint(1, 7) if t < 120 else rng.randint(20, 60)
        m = rng.randint(0, 9) if t < 120 else rng.randint(n, 4 * n)
        pal = rng.choice(((1,), (0, 1), (-2, -1, 0, 1, 2), (0.5, 0.25, 1, 1.0), tuple(range(50))))
        edges = [(rng.randrange(n), rng.randrange(n), rng.choice(pal)) for _ in range(m)]
        wb, cb, chosen = boruvka(n, edges)
        wm, cm = matrix_prim(n, edges)
        lab, cc = components_bfs(n, edges)
        if (wb, cb) != (wm, cm) or cc != cb:
            raise AssertionError(f"mst_big self-test: boruvka {wb}/{cb} vs matrix prim {wm}/{cm} vs bfs {cc} on {n} {edges}")
        if t < 120 and O.n_subsets(n, edges) <= 3000:
            we, ce, _ = O.enum_forest_weight(n, edges)
            if (we, ce) != (wb, cb):
                raise AssertionError(f"mst_big self-test: enumeration {we}/{ce} vs boruvka {wb}/{cb} on {n} {edges}")
        tree = [edges[i] for i in chosen]
        if forest_shape(n, edges, tree, lab, cc):
            raise AssertionError("mst_big self-test: boruvka forest rejected by forest_shape")
        ok, _ = is_min_forest_fast(n, edges, tree)
        if not ok or not O.is_min_forest_certificate(n, edges, tree) if n <= 60 else not ok:
            raise AssertionError("mst_big self-test: certificate rejects a minimum forest")
        # a spoiled forest (swap one tree edge for a strictly heavier non-tree edge that reconnects) must be rejected
        for i in chosen:
            u, v, w = edges[i]
            rest = [edges[j] for j in chosen if j != i]
            l2, _ = components_bfs(n, rest)
            alt = [e for k, e in enumerate(edges) if k not in set(chosen) and e[0] != e[1]
                   and l2[e[0]] != l2[e[1]] and e[2] > w]
            if alt:
                ok2, _ = is_min_forest_fast(n, edges, rest + [alt[0]])
                if ok2:
                    raise AssertionError("mst_big self-test: certificate accepts a non-minimum forest")
                break
        cnt += 1
    return cnt

"""Exact reference semantics for shortest paths (property C11).

Independent of /repo: no heap, no closed set, no parent pointers taken from the code under test.
All arithmetic is exact: weights are converted with `exact()` to int / Fraction (a Python float is a dyadic
rational, so Fraction(float) is its exact value); grid distances live in Z[sqrt 2] (class Q2, exact order).

Three ways to get distances, cross-checked against each other by the check on the small scope:
  * walk_dp        - definition by walks: d_k(v) = min weight of a walk s->v with at most k edges (Jacobi rounds),
                     negative cycle reachable  <=>  d_n != d_{n-1}
  * brute_simple   - enumeration of all simple paths / simple cycles (DFS), only for tiny graphs
  * dense_dijkstra - array-based O(n^2) selection for non-negative weights
and a certificate checker (certify): feasible potentials (lower bound) + tight-arc reachability (upper bound),
so an accepted distance vector is exact whatever produced it.
"""
from __future__ import annotations

from fractions import Fraction

INF = None  # "no walk"


def exact(w):
    if isinstance(w, bool):
        return int(w)
    if isinstance(w, int):
        return w
    if isinstance(w, float):
        if w == int(w):
            return int(w)
        return Fraction(w)
    if isinstance(w, Fraction):
        return w
    raise TypeError(f"weight {w!r}")


# ------------------------------------------------------------------ Z[sqrt 2] (Q[sqrt 2])
def _sgn(x):
    return (x > 0) - (x < 0)


class Q2:
    """a + b*sqrt(2), a and b int/Fraction, with the exact total order of the reals."""
    __slots__ = ("a", "b")

    def __init__(self, a=0, b=0):
        self.a, self.b = a, b

    def __add__(self, o):
        if not isinstance(o, Q2):
            o = Q2(o, 0)
        return Q2(self.a + o.a, self.b + o.b)

    __radd__ = __add__

    def sign(self):
        a, b = self.a, self.b
        sa, sb = _sgn(a), _sgn(b)
        if sa >= 0 and sb >= 0:
            return 1 if (sa or sb) else 0
        if sa <= 0 and sb <= 0:
            return -1
        # opposite signs: compare a^2 with 2 b^2 (sqrt 2 irrational: never equal unless both 0)
        d = a * a - 2 * b * b
        if sa > 0:  # a > 0 > b
            return _sgn(d)
        return -_sgn(d)

    def _cmp(self, o):
        if not isinstance(o, Q2):
            o = Q2(o, 0)
        return Q2(self.a - o.a, self.b - o.b).sign()

    def __lt__(self, o):
        return self._cmp(o) < 0

    def __le__(self, o):
        return self._cmp(o) <= 0

    def __gt__(self, o):
        return self._cmp(o) > 0

    def __ge__(self, o):
        return self._cmp(o) >= 0

    def __eq__(self, o):
        if not isinstance(o, Q2):
            o = Q2(o, 0)
        return self.a == o.a and self.b == o.b

    def __hash__(self):
        return hash((self.a, self.b))

    def __float__(self):
        return float(self.a) + float(self.b) * 2 ** 0.5

    def __repr__(self):
        return f"{self.a}+{self.b}*sqrt2"


# ------------------------------------------------------------------ distances
def walk_dp(n, arcs, s, zero=0):
    """arcs: iterable of (u, v, w) with exact weights.  Returns (dist, neg) where dist[v] is the minimum weight of
    a walk s->v with at most n-1 arcs (None if none) and neg says whether one more round still improves something,
    i.e. a negative cycle is reachable from s (then dist is meaningless as a shortest distance)."""
    arcs = list(arcs)
    d = [INF] * n
    d[s] = zero
    for _ in range(n - 1):
        nd = list(d)
        for u, v, w in arcs:
            if d[u] is not INF:
                c = d[u] + w
                if nd[v] is INF or c < nd[v]:
                    nd[v] = c
        if nd == d:
            return d, False
        d = nd
    for u, v, w in arcs:
        if d[u] is not INF and (d[v] is INF or d[u] + w < d[v]):
            return d, True
    return d, False


def reachable(n, arcs, s):
    succ = [[] for _ in range(n)]
    for u, v, _w in arcs:
        succ[u].append(v)
    seen = [False] * n
    seen[s] = True
    todo = [s]
    while todo:
        u = todo.pop()
        for v in succ[u]:
            if not seen[v]:
                seen[v] = True
                todo.append(v)
    return seen


def brute_simple(n, arcs, s, zero=0):
    """Minimum weight over all *simple* paths s->v (exponential; tiny graphs only)."""
    out = [[] for _ in range(n)]
    for u, v, w in arcs:
        out[u].append((v, w))
    best = [INF] * n
    on = [False] * n

    def go(u, c):
        if best[u] is INF or c < best[u]:
            best[u] = c
        on[u] = True
        for v, w in out[u]:
            if not on[v]:
                go(v, c + w)
        on[u] = False

    go(s, zero)
    return best


def brute_negative_cycle(n, arcs, sources=None, zero=0):
    """True iff some simple cycle of negative weight exists (through nodes reachable from `sources`, when given)."""
    out = [[] for _ in range(n)]
    for u, v, w in arcs:
        out[u].append((v, w))
    ok = [True] * n
    if sources is not None:
        ok = [False] * n
        for s in sources:
            for i, r in enumerate(reachable(n, arcs, s)):
                ok[i] = ok[i] or r
    found = [False]
    on = [False] * n

    def go(root, u, c):
        on[u] = True
        for v, w in out[u]:
            if found[0]:
                break
            if v == root:
                if c + w < zero:
                    found[0] = True
            elif v > root and not on[v]:
                go(root, v, c + w)
        on[u] = False

    for r in range(n):
        if ok[r] and not found[0]:
            go(r, r, zero)
    return found[0]


def dense_dijkstra(n, out, s, zero=0):
    """out[u] = list of (v, w), w >= 0.  O(n^2) selection, no heap."""
    d = [INF] * n
    d[s] = zero
    done = [False] * n
    for _ in range(n):
        u = -1
        for i in range(n):
            if not done[i] and d[i] is not INF and (u < 0 or d[i] < d[u]):
                u = i
        if u < 0:
            break
        done[u] = True
        for v, w in out[u]:
            c = d[u] + w
            if d[v] is INF or c < d[v]:
                d[v] = c
    return d


def certify(n, arcs, s, d, zero=0):
    """True iff d is exactly the shortest-distance vector from s (no reachable negative cycle):
    d[s]=0, every arc out of a finite node is feasible (d[v] <= d[u]+w, so v finite), and every finite node is
    reached from s through tight arcs (d[v] == d[u]+w)."""
    arcs = list(arcs)
    if d[s] is INF or not d[s] == zero:
        return False
    tight = [[] for _ in range(n)]
    for u, v, w in arcs:
        if d[u] is INF:
            continue
        if d[v] is INF or d[u] + w < d[v]:
            return False
        if d[u] + w == d[v]:
            tight[u].append(v)
    seen = [False] * n
    seen[s] = True
    todo = [s]
    while todo:
        u = todo.pop()
        for v in tight[u]:
            if not seen[v]:
                seen[v] = True
                todo.append(v)
    return all(seen[v] == (d[v] is not INF) for v in range(n))


# ------------------------------------------------------------------ paths
def path_sums(weights_of, path, zero=0, cap=4096):
    """weights_of(u, v) -> collection of exact weights of the parallel arcs u->v (empty if no arc).
    Returns None if some consecutive pair is not an arc, else the set of totals obtainable by picking one parallel
    arc per step (a node list does not say which parallel arc was used)."""
    sums = {zero}
    for a, b in zip(path, path[1:]):
        ws = weights_of(a, b)
        if not ws:
            return None
        sums = {x + w for x in sums for w in set(ws)}
        if len(sums) > cap:  # keep the smallest ones; enough for "== reported shortest distance"
            sums = set(sorted(sums)[:cap])
    return sums


# ------------------------------------------------------------------ grids
DIRS4 = ((-1, 0), (1, 0), (0, -1), (0, 1))
DIRS8 = DIRS4 + ((-1, -1), (-1, 1), (1, -1), (1, 1))


def grid_graph(grid, directions, blocked, costs):
    """Explicit graph of the documented grid semantics: a move goes to an in-bounds 4-/8-neighbour cell whose value is
    not blocked and costs costs.get(value, 1), times sqrt 2 for a diagonal move.  Node id = r*cols + c.
    Returns (n, out) with Q2 weights."""
    rows = len(grid)
    cols = len(grid[0]) if rows else 0
    dirs = DIRS8 if directions == 8 else DIRS4
    out = [[] for _ in range(rows * cols)]
    for r in range(rows):
        for c in range(cols):
            for dr, dc in dirs:
                nr, nc = r + dr, c + dc
                if 0 <= nr < rows and 0 <= nc < cols and grid[nr][nc] not in blocked:
                    base = exact(costs.get(grid[nr][nc], 1))
                    out[r * cols + c].append((nr * cols + nc, Q2(0, base) if dr and dc else Q2(base, 0)))
    return rows * cols, out


# ------------------------------------------------------------------ instances beyond the small scope
# Polynomial and still independent of /repo (no heap, no closed set, no parent pointers).  Every distance vector
# produced here can be passed through certify() (O(m)), so on the size ladder the verdict rests on the certificate.
def array_dijkstra(n, out, sources, zero=0):
    """Multi-source array Dijkstra: out[u] = list of (v, w) with exact w >= 0; O(n^2 + m) selection by linear scan.
    Returns d with d[v] = min over sources of delta(source, v), None if unreachable."""
    d = [INF] * n
    for s in sources:
        d[s] = zero
    done = [False] * n
    for _ in range(n):
        u, best = -1, None
        for i in range(n):
            x = d[i]
            if x is not INF and not done[i] and (best is None or x < best):
                u, best = i, x
        if u < 0:
            break
        done[u] = True
        for v, w in out[u]:
            c = best + w
            x = d[v]
            if x is INF or c < x:
                d[v] = c
    return d


def bfs_levels(n, succ, sources):
    """hop distances by level-by-level expansion (succ[u] = iterable of v)."""
    d = [INF] * n
    level = []
    for s in sources:
        if d[s] is INF:
            d[s] = 0
            level.append(s)
    k = 0
    while level:
        k += 1
        nxt = []
        for u in level:
            for v in succ[u]:
                if d[v] is INF:
                    d[v] = k
                    nxt.append(v)
        level = nxt
    return d


def bellman_ford_exact(n, arcs, sources, zero=0):
    """Exact Bellman-Ford (in-place rounds, early exit).  Returns (d, neg): neg <=> a negative cycle is reachable from
    the sources (d is then only an upper bound).  Labels are exact ints/Fractions, so no rounding at any magnitude."""
    arcs = list(arcs)
    d = [INF] * n
    for s in sources:
        d[s] = zero
    for _ in range(n):
        changed = False
        for u, v, w in arcs:
            x = d[u]
            if x is not INF:
                c = x + w
                y = d[v]
                if y is INF or c < y:
                    d[v] = c
                    changed = True
        if not changed:
            return d, False
    return d, True  # still improving in round n: some walk with >= n arcs is shorter than every simple path


class Distances:
    """All-pairs-on-demand exact distances of one arc set: array Dijkstra when all weights are >= 0, otherwise Johnson
    (one exact Bellman-Ford from all nodes gives potentials, then array Dijkstra on the reduced weights); when a negative
    cycle exists somewhere, per-source exact Bellman-Ford decides whether it is reachable."""

    def __init__(self, n, arcs):
        self.n = n
        self.arcs = list(arcs)
        self.nonneg = all(w >= 0 for _, _, w in self.arcs)
        self._pot = False  # not computed
        self._out = None
        self._cache = {}

    def _adj(self):
        if self._out is None:
            p = self.potentials()
            out = [[] for _ in range(self.n)]
            for u, v, w in self.arcs:
                out[u].append((v, w if p is None else w + p[u] - p[v]))
            self._out = out
        return self._out

    def potentials(self):
        """None for non-negative graphs; a feasible potential if no negative cycle exists; 'cycle' otherwise"""
        if self._pot is False:
            if self.nonneg:
                self._pot = None
            else:
                d, neg = bellman_ford_exact(self.n, self.arcs, range(self.n))
                self._pot = "cycle" if neg else d
        return self._pot

    def has_negative_cycle(self):
        return self.potentials() == "cycle"

    def dist(self, s):
        """(d, neg) like walk_dp"""
        if s not in self._cache:
            p = self.potentials()
            if p == "cycle":
                self._cache[s] = bellman_ford_exact(self.n, self.arcs, [s])
            else:
                r = array_dijkstra(self.n, self._adj(), [s])
                if p is not None:
                    r = [None if x is None else x - p[s] + p[v] for v, x in enumerate(r)]
                self._cache[s] = (r, False)
        return self._cache[s]

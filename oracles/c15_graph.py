"""Definitional oracles for C15 (cut vertices, bridges, core numbers, PageRank residual, modularity).

Independent of /repo: everything is brute force straight from the definitions, integers / Fractions only.

Input convention ("presentation"): `nodes` = list of distinct hashable nodes (any order), `nbrs` = list of
neighbour lists aligned with `nodes` (nbrs[i] = what the neighbour function returns for nodes[i]).

Intended undirected graph of a presentation (see ctx.assumptions in checks/C15.py): the *symmetric closure*
as a simple graph: {u,v} is an edge iff u != v, both are in `nodes`, and (v in N(u) or u in N(v)).
Self loops, duplicates and neighbours outside `nodes` add nothing.
Intended directed graph (PageRank): arcs (u,v) for v in N(u), v in `nodes`; self loops are arcs.
"""
from __future__ import annotations

from fractions import Fraction


# ------------------------------------------------------------------ undirected
def closure(nodes, nbrs):
    """adjacency dict node -> set of the simple symmetric closure."""
    ns = set(nodes)
    adj = {v: set() for v in nodes}
    for v, lst in zip(nodes, nbrs):
        for w in lst:
            if w in ns and w != v:
                adj[v].add(w)
                adj[w].add(v)
    return adj


def n_components(adj, skip_vertex=None, skip_edge=None):
    """number of connected components of the graph minus one vertex / minus one edge (a frozenset)."""
    seen = set()
    if skip_vertex is not None:
        seen.add(skip_vertex)
    comps = 0
    for s in adj:
        if s in seen:
            continue
        comps += 1
        seen.add(s)
        stack = [s]
        while stack:
            x = stack.pop()
            for y in adj[x]:
                if y in seen:
                    continue
                if skip_edge is not None and x in skip_edge and y in skip_edge:
                    continue
                seen.add(y)
                stack.append(y)
    return comps


def cut_vertices(adj):
    """vertices whose removal (with incident edges) increases the number of connected components."""
    base = n_components(adj)
    out = set()
    for v in adj:
        if n_components(adj, skip_vertex=v) > base:
            out.add(v)
    return out


def bridge_edges(adj):
    """set of frozenset({u,v}) whose removal increases the number of connected components."""
    base = n_components(adj)
    out = set()
    done = set()
    for u in adj:
        for v in adj[u]:
            e = frozenset((u, v))
            if e in done:
                continue
            done.add(e)
            if n_components(adj, skip_edge=e) > base:
                out.add(e)
    return out


def k_core_set(adj, k):
    """survivors of repeated deletion of nodes of (current) degree below k."""
    alive = set(adj)
    changed = True
    while changed:
        changed = False
        for v in list(alive):
            if sum(1 for w in adj[v] if w in alive) < k:
                alive.discard(v)
                changed = True
    return alive


def core_numbers(adj):
    """core[v] = largest k such that v survives in k_core_set(adj, k) (k = 0 always survives)."""
    core = {v: 0 for v in adj}
    k = 1
    while True:
        s = k_core_set(adj, k)
        if not s:
            return core
        for v in s:
            core[v] = k
        k += 1


def modularity(adj, partition, resolution):
    """Q = sum_c [ L_c/m - resolution*(d_c/(2m))^2 ] as a Fraction; None when the graph has no edges."""
    m = sum(len(a) for a in adj.values())  # = 2m
    if m == 0:
        return None
    two_m = Fraction(m)
    res = resolution if isinstance(resolution, Fraction) else Fraction(resolution)
    q = Fraction(0)
    for c in partition:
        inside2 = sum(1 for v in c for w in adj[v] if w in c)  # = 2 L_c
        dc = sum(len(adj[v]) for v in c)
        q += Fraction(inside2, 1) / two_m - res * (Fraction(dc) / two_m) ** 2
    return q


def is_partition(nodes, parts):
    """None if `parts` is a list of non-empty pairwise disjoint sets covering exactly `nodes`, else a reason."""
    seen = set()
    ns = set(nodes)
    for c in parts:
        if not isinstance(c, (set, frozenset)):
            return f"community {c!r} is not a set"
        if not c:
            return "empty community"
        for v in c:
            if v not in ns:
                return f"{v!r} is not a node"
            if v in seen:
                return f"{v!r} is in two communities"
            seen.add(v)
    if seen != ns:
        return f"nodes without community: {sorted(ns - seen, key=repr)}"
    return None


# ------------------------------------------------------------------ directed: PageRank
def arcs(nodes, nbrs, multi):
    """out-lists restricted to the node set; duplicates kept (multi) or collapsed (simple digraph)."""
    ns = set(nodes)
    out = {}
    for v, lst in zip(nodes, nbrs):
        l = [w for w in lst if w in ns]
        if not multi:
            l = list(dict.fromkeys(l))
        out[v] = l
    return out


def pagerank_step(nodes, out, p, damping):
    """one exact application of  G(p)_v = (1-d)/n + d*sum_{u->v} p_u/out(u) + d*(sum_{dangling} p_u)/n."""
    n = len(nodes)
    d = Fraction(damping)
    dangling = sum((p[u] for u in nodes if not out[u]), Fraction(0))
    acc = {v: Fraction(0) for v in nodes}
    for u in nodes:
        if out[u]:
            share = p[u] / len(out[u])
            for w in out[u]:
                acc[w] += share
    base = (1 - d) / n + d * dangling / n
    return {v: base + d * acc[v] for v in nodes}


def pagerank_residual(nodes, nbrs, scores, damping, multi):
    """max_v |p_v - G(p)_v| for the returned floats taken as exact rationals."""
    out = arcs(nodes, nbrs, multi)
    p = {v: Fraction(scores[v]) for v in nodes}
    g = pagerank_step(nodes, out, p, damping)
    return max(abs(p[v] - g[v]) for v in nodes)


def pagerank_exact(nodes, nbrs, damping, multi):
    """the unique fixed point, by exact Gaussian elimination on (I - d*M) p = (1-d)/n (small n only)."""
    n = len(nodes)
    idx = {v: i for i, v in enumerate(nodes)}
    out = arcs(nodes, nbrs, multi)
    d = Fraction(damping)
    a = [[Fraction(0)] * (n + 1) for _ in range(n)]
    for i in range(n):
        a[i][i] += 1
        a[i][n] = (1 - d) / n
    for u in nodes:
        j = idx[u]
        if out[u]:
            w = d / len(out[u])
            for x in out[u]:
                a[idx[x]][j] -= w
        else:
            for i in range(n):
                a[i][j] -= d / n
    for c in range(n):
        piv = next(r for r in range(c, n) if a[r][c] != 0)
        a[c], a[piv] = a[piv], a[c]
        pv = a[c][c]
        a[c] = [x / pv for x in a[c]]
        for r in range(n):
            if r != c and a[r][c] != 0:
                f = a[r][c]
                a[r] = [x - f * y for x, y in zip(a[r], a[c])]
    return {v: a[idx[v]][n] for v in nodes}


def pagerank_residual_bound(nodes, nbrs, damping, multi):
    """sup of ||G(p) - G(q)||_inf / eps over all p, q with ||p - q||_inf <= eps and sum(p) = sum(q).

    G is affine with matrix d*M (M column-stochastic, dangling columns = 1/n), so the sup for row v is
    d * max{ sum_u M[v][u]*x_u : |x_u| <= 1, sum x = 0 } = d * (sum of the floor(n/2) largest entries of the row
    minus the sum of the floor(n/2) smallest)."""
    n = len(nodes)
    out = arcs(nodes, nbrs, multi)
    d = Fraction(damping)
    row = {v: {} for v in nodes}
    for u in nodes:
        if out[u]:
            w = Fraction(1, len(out[u]))
            for x in out[u]:
                row[x][u] = row[x].get(u, Fraction(0)) + w
        else:
            for x in nodes:
                row[x][u] = Fraction(1, n)
    k = n // 2
    best = Fraction(0)
    for v in nodes:
        vals = sorted((row[v].get(u, Fraction(0)) for u in nodes), reverse=True)
        val = sum(vals[:k], Fraction(0)) - sum(vals[n - k:], Fraction(0)) if k else Fraction(0)
        if val > best:
            best = val
    return d * best

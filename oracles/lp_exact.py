"""Exact LP oracle with checkable certificates (shared by C03, C04, C17).

    solve(c, A, b, minimize=True) -> dict

for   min / max  c.x   subject to   A x <= b,  x >= 0     (rational data: int, Fraction, or float taken exactly).

Result keys
    status       'optimal' | 'infeasible' | 'unbounded'
    x            list[Fraction] - an optimal vertex / a feasible vertex (unbounded) / None (infeasible)
    objective    Fraction c.x at the optimum (original sense), else None
    certificate  dict, validated by `check_certificate` before `solve` returns:
                   optimal    {'type': 'optimal', 'x': x, 'y': y}   y >= 0, A'y + w >= 0, w.x == -b.y
                   infeasible {'type': 'farkas',  'y': y}           y >= 0, A'y >= 0, b.y < 0
                   unbounded  {'type': 'ray', 'x': x, 'd': d}       x feasible, d >= 0, A d <= 0, w.d < 0
                 where w = c for minimize, -c for maximize (the oracle always minimises w.x).
    stats        dict: pivots, phase1 (bool), degenerate_pivots, ratio_ties, degenerate_vertex (bool)

Method: dense tableau simplex over fractions.Fraction, Bland's rule for both choices (terminates in exact
arithmetic); phase 1 uses ONE auxiliary variable x0 (A x - x0 <= b, min x0), which is deliberately not the per-row
artificial construction of solvor/simplex.py.  Nothing in the answer is trusted: `check_certificate` re-derives
the verdict from the certificate alone (weak duality / Farkas / recession direction) in ~30 lines of Fraction
arithmetic and raises `CertificateError` if anything is off.

`vertex_enum(c, A, b, minimize)` is a second, brute-force oracle (all bases) for tiny sizes, used by the self test
(`python -m oracles.lp_exact`).
"""
from __future__ import annotations

from fractions import Fraction
from itertools import combinations

__all__ = ["solve", "check_certificate", "CertificateError", "vertex_enum", "to_fraction"]

F0, F1 = Fraction(0), Fraction(1)


class CertificateError(AssertionError):
    pass


def to_fraction(v) -> Fraction:
    if isinstance(v, Fraction):
        return v
    if isinstance(v, bool):
        raise TypeError("bool is not LP data")
    if isinstance(v, int):
        return Fraction(v)
    if isinstance(v, float):
        if v != v or v in (float("inf"), float("-inf")):
            raise ValueError("non-finite LP data")
        return Fraction(v)  # exact binary value
    return Fraction(v)


def _norm(c, A, b):
    c = [to_fraction(v) for v in c]
    A = [[to_fraction(v) for v in row] for row in A]
    b = [to_fraction(v) for v in b]
    n = len(c)
    if len(A) != len(b):
        raise ValueError("len(A) != len(b)")
    for row in A:
        if len(row) != n:
            raise ValueError("row length != len(c)")
    return c, A, b


def _dot(u, v):
    return sum((a * b for a, b in zip(u, v)), F0)


# ------------------------------------------------------------------------------------------------ the checker
def check_certificate(c, A, b, minimize, res) -> bool:
    """Validate `res` (as returned by solve) against the data only. Raises CertificateError."""
    c, A, b = _norm(c, A, b)
    m, n = len(b), len(c)
    w = c if minimize else [-v for v in c]
    cert = res["certificate"]

    def need(cond, msg):
        if not cond:
            raise CertificateError(f"{res['status']}: {msg}")

    def feasible(x):
        need(len(x) == n and all(v >= 0 for v in x), "x >= 0 fails")
        for i in range(m):
            need(_dot(A[i], x) <= b[i], f"row {i} violated by x")

    def col(y, j):
        return sum((A[i][j] * y[i] for i in range(m)), F0)

    st = res["status"]
    if st == "optimal":
        need(cert["type"] == "optimal", "wrong certificate type")
        x, y = cert["x"], cert["y"]
        feasible(x)
        need(len(y) == m and all(v >= 0 for v in y), "y >= 0 fails")
        for j in range(n):
            need(col(y, j) + w[j] >= 0, f"dual row {j} violated")
        need(_dot(w, x) == -_dot(b, y), "duality gap")  # => every feasible x' has w.x' >= -b.y = w.x
        need(res["x"] == x and res["objective"] == _dot(c, x), "x/objective fields inconsistent")
    elif st == "infeasible":
        need(cert["type"] == "farkas", "wrong certificate type")
        y = cert["y"]
        need(len(y) == m and all(v >= 0 for v in y), "y >= 0 fails")
        for j in range(n):
            need(col(y, j) >= 0, f"A'y >= 0 fails at {j}")
        need(_dot(b, y) < 0, "b.y < 0 fails")  # 0 <= y'Ax <= y.b < 0 for any feasible x: contradiction
        need(res["x"] is None and res["objective"] is None, "x/objective must be None")
    elif st == "unbounded":
        need(cert["type"] == "ray", "wrong certificate type")
        x, d = cert["x"], cert["d"]
        feasible(x)
        need(len(d) == n and all(v >= 0 for v in d), "d >= 0 fails")
        for i in range(m):
            need(_dot(A[i], d) <= 0, f"A d <= 0 fails at row {i}")
        need(_dot(w, d) < 0, "w.d < 0 fails")
        need(res["x"] == x and res["objective"] is None, "x/objective fields inconsistent")
    else:
        raise CertificateError(f"unknown status {st!r}")
    return True


# ------------------------------------------------------------------------------------------------ the solver
class _Tab:
    """Rows: T[i] = coefficients over `ncols` variables + rhs (last). obj = reduced-cost row, obj[-1] = -value."""

    def __init__(self, rows, basis):
        self.T = rows
        self.basis = basis
        self.obj = None
        self.pivots = 0
        self.degenerate_pivots = 0
        self.ratio_ties = 0

    def pivot(self, r, e):
        T = self.T
        p = T[r][e]
        T[r] = [v / p for v in T[r]]
        pr = T[r]
        for i in range(len(T)):
            if i != r and T[i][e] != 0:
                f = T[i][e]
                T[i] = [a - f * q for a, q in zip(T[i], pr)]
        if self.obj is not None and self.obj[e] != 0:
            f = self.obj[e]
            self.obj = [a - f * q for a, q in zip(self.obj, pr)]
        self.basis[r] = e
        self.pivots += 1

    def set_objective(self, cost):
        """cost over the variables; price out the basic columns."""
        obj = list(cost) + [F0]
        for i, bv in enumerate(self.basis):
            if obj[bv] != 0:
                f = obj[bv]
                obj = [a - f * q for a, q in zip(obj, self.T[i])]
        self.obj = obj

    def run(self):
        """Bland. Returns ('optimal', None) or ('unbounded', entering column)."""
        nv = len(self.obj) - 1
        while True:
            inb = set(self.basis)
            e = next((j for j in range(nv) if j not in inb and self.obj[j] < 0), None)
            if e is None:
                return "optimal", None
            best, r, tie = None, None, False
            for i, row in enumerate(self.T):
                if row[e] > 0:
                    q = row[-1] / row[e]
                    if best is None or q < best:
                        best, r, tie = q, i, False
                    elif q == best:
                        tie = True
                        if self.basis[i] < self.basis[r]:
                            r = i
            if r is None:
                return "unbounded", e
            if tie:
                self.ratio_ties += 1
            if best == 0:
                self.degenerate_pivots += 1
            self.pivot(r, e)


def solve(c, A, b, minimize=True, check=True) -> dict:
    c, A, b = _norm(c, A, b)
    m, n = len(b), len(c)
    w = c if minimize else [-v for v in c]
    nv = n + m  # x then slacks
    rows = [list(A[i]) + [F1 if k == i else F0 for k in range(m)] + [b[i]] for i in range(m)]
    tab = _Tab(rows, [n + i for i in range(m)])
    phase1 = any(v < 0 for v in b)
    res = None
    if phase1:
        # auxiliary column x0 (index nv): A x + s - x0 = b ; minimise x0
        for row in tab.T:
            row.insert(-1, -F1)
        tab.obj = [F0] * nv + [F1, F0]
        r = min(range(m), key=lambda i: (b[i], i))
        tab.pivot(r, nv)  # all rhs now >= 0
        st, _ = tab.run()
        assert st == "optimal"  # x0 >= 0 bounds phase 1 below
        if -tab.obj[-1] > 0:
            y = [tab.obj[n + i] for i in range(m)]
            res = {"status": "infeasible", "x": None, "objective": None, "certificate": {"type": "farkas", "y": y}}
        else:
            if nv in tab.basis:  # x0 basic at level 0: pivot it out on any non-zero entry (exists: [A I] has rank m)
                r = tab.basis.index(nv)
                e = next(j for j in range(nv) if tab.T[r][j] != 0)
                tab.pivot(r, e)
            for row in tab.T:
                del row[-2]
    if res is None:
        tab.set_objective(w + [F0] * m)
        st, e = tab.run()
        full = [F0] * nv
        for i, bv in enumerate(tab.basis):
            full[bv] = tab.T[i][-1]
        x = full[:n]
        if st == "optimal":
            y = [tab.obj[n + i] for i in range(m)]
            res = {"status": "optimal", "x": x, "objective": _dot(c, x), "certificate": {"type": "optimal", "x": x, "y": y}}
        else:
            d = [F0] * nv
            d[e] = F1
            for i, bv in enumerate(tab.basis):
                d[bv] = -tab.T[i][e]
            res = {"status": "unbounded", "x": x, "objective": None, "certificate": {"type": "ray", "x": x, "d": d[:n]}}
    degenerate_vertex = False
    if res["x"] is not None:
        tight = sum(1 for v in res["x"] if v == 0) + sum(1 for i in range(m) if _dot(A[i], res["x"]) == b[i])
        degenerate_vertex = tight > n
    res["stats"] = {"pivots": tab.pivots, "phase1": phase1, "degenerate_pivots": tab.degenerate_pivots,
                    "ratio_ties": tab.ratio_ties, "degenerate_vertex": degenerate_vertex}
    if check:
        check_certificate(c, A, b, minimize, res)
    return res


# ------------------------------------------------------------------------------------------------ brute force
def _solve_square(M, r):
    k = len(M)
    M = [list(row) + [v] for row, v in zip(M, r)]
    for col in range(k):
        p = next((i for i in range(col, k) if M[i][col] != 0), None)
        if p is None:
            return None
        M[col], M[p] = M[p], M[col]
        inv = 1 / M[col][col]
        M[col] = [v * inv for v in M[col]]
        for i in range(k):
            if i != col and M[i][col] != 0:
                f = M[i][col]
                M[i] = [a - f * q for a, q in zip(M[i], M[col])]
    return [M[i][k] for i in range(k)]


def _vertices(A, b, n):
    m = len(A)
    rows = [list(r) for r in A] + [[-F1 if j == k else F0 for j in range(n)] for k in range(n)]
    rhs = list(b) + [F0] * n
    out = []
    for S in combinations(range(m + n), n):
        x = _solve_square([rows[i] for i in S], [rhs[i] for i in S])
        if x is not None and all(_dot(rows[i], x) <= rhs[i] for i in range(m + n)):
            out.append(x)
    return out


def vertex_enum(c, A, b, minimize=True):
    """(status, optimum or None) by enumerating all vertices and all extreme recession directions (tiny sizes)."""
    c, A, b = _norm(c, A, b)
    n = len(c)
    w = c if minimize else [-v for v in c]
    V = _vertices(A, b, n)
    if not V:  # {Ax<=b, x>=0} is pointed: non-empty <=> has a vertex
        return "infeasible", None
    R = _vertices(A + [[F1] * n], [F0] * len(A) + [F1], n)
    if min(_dot(w, d) for d in R) < 0:
        return "unbounded", None
    best = min(_dot(w, x) for x in V)
    return "optimal", best if minimize else -best


def _selftest(trials=4000, seed=1):
    import random
    rng = random.Random(seed)
    seen = {"optimal": 0, "infeasible": 0, "unbounded": 0}
    for _ in range(trials):
        n, m = rng.randint(1, 3), rng.randint(1, 4)
        A = [[Fraction(rng.randint(-4, 4), rng.choice((1, 1, 2))) for _ in range(n)] for _ in range(m)]
        b = [Fraction(rng.randint(-4, 4), rng.choice((1, 1, 2))) for _ in range(m)]
        c = [Fraction(rng.randint(-3, 3)) for _ in range(n)]
        mn = rng.random() < 0.5
        r = solve(c, A, b, mn)
        st, val = vertex_enum(c, A, b, mn)
        assert r["status"] == st and r["objective"] == val, (c, A, b, mn, r, st, val)
        seen[st] += 1
    return seen


if __name__ == "__main__":
    print("lp_exact self test (simplex+certificates vs vertex enumeration):", _selftest())

"""Exact reference semantics for the nine accelerated graph functions (used by checks/C12.py).

Independent of solvor: plain definitions evaluated by brute force / textbook fixpoints in exact
arithmetic (fractions.Fraction; every float weight is converted exactly).  Nodes are 0..n-1, edges are
tuples (u, v[, w]) of a directed multigraph (self loops, duplicates and anti-parallel edges allowed).

None stands for "unreachable / +infinity".  Functions are small on purpose: they are the trusted base.
"""
from __future__ import annotations

from fractions import Fraction

NEG_CYCLE = "NEGATIVE_CYCLE"


def F(x) -> Fraction:
    return x if isinstance(x, Fraction) else Fraction(x)


def min_weight(edges, directed=True) -> dict:
    """(u, v) -> minimum weight over all parallel edges (both directions when undirected)."""
    m: dict = {}
    for u, v, w in edges:
        w = F(w)
        for a, b in ((u, v),) if directed else ((u, v), (v, u)):
            if (a, b) not in m or w < m[(a, b)]:
                m[(a, b)] = w
    return m


def pairs(edges) -> set:
    return {(e[0], e[1]) for e in edges}


def reachable(n, edges, src) -> set:
    """Nodes reachable from src (src included) by the closure definition."""
    seen = {src}
    changed = True
    while changed:
        changed = False
        for e in edges:
            if e[0] in seen and e[1] not in seen:
                seen.add(e[1])
                changed = True
    return seen


def hop_distance(n, edges, src) -> list:
    """Fewest edges from src to every node (None = unreachable), by n rounds of relaxation."""
    d = [None] * n
    d[src] = 0
    for _ in range(n):
        for e in edges:
            u, v = e[0], e[1]
            if d[u] is not None and (d[v] is None or d[u] + 1 < d[v]):
                d[v] = d[u] + 1
    return d


def sssp(n, edges, src):
    """Exact single-source distances (list, None = unreachable) or NEG_CYCLE when a negative cycle is
    reachable from src (then no finite answer exists).  Bellman-Ford on Fractions, n full rounds."""
    d: list = [None] * n
    d[src] = Fraction(0)
    E = [(u, v, F(w)) for u, v, w in edges]
    for rnd in range(n):
        changed = False
        for u, v, w in E:
            if d[u] is not None and (d[v] is None or d[u] + w < d[v]):
                d[v] = d[u] + w
                changed = True
        if not changed:
            return d
    return NEG_CYCLE


def apsp(n, edges, directed=True):
    """Exact all-pairs distances (matrix, None = no path) or NEG_CYCLE when any negative cycle exists
    (in undirected mode every edge is two opposite arcs, so one negative edge is a negative cycle)."""
    m = min_weight(edges, directed)
    d = [[None] * n for _ in range(n)]
    for i in range(n):
        d[i][i] = Fraction(0)
    for (u, v), w in m.items():
        if d[u][v] is None or w < d[u][v]:
            d[u][v] = w
    for k in range(n):
        for i in range(n):
            if d[i][k] is None:
                continue
            for j in range(n):
                if d[k][j] is None:
                    continue
                c = d[i][k] + d[k][j]
                if d[i][j] is None or c < d[i][j]:
                    d[i][j] = c
    if any(d[i][i] < 0 for i in range(n)):
        return NEG_CYCLE
    return d


def walk_weight(path, edges, directed=True):
    """Cheapest exact weight of the node sequence `path` read as a walk (min weight per step);
    None if some step is not an edge.  A single node is the empty walk of weight 0."""
    m = min_weight(edges, directed)
    tot = Fraction(0)
    for a, b in zip(path, path[1:]):
        if (a, b) not in m:
            return None
        tot += m[(a, b)]
    return tot


def is_walk(path, edges) -> bool:
    p = pairs(edges)
    return all((a, b) in p for a, b in zip(path, path[1:]))


def scc_partition(n, edges) -> set:
    """Set of frozensets: u ~ v iff each reaches the other."""
    reach = [reachable(n, edges, s) for s in range(n)]
    out = set()
    for u in range(n):
        out.add(frozenset(v for v in range(n) if v in reach[u] and u in reach[v]))
    return out


def is_acyclic(n, edges) -> bool:
    """No directed cycle (a self loop is a cycle)."""
    for u in range(n):
        for e in edges:
            if e[0] == u and u in reachable(n, edges, e[1]):
                return False
    return True


def is_topological_order(n, edges, order) -> bool:
    if sorted(order) != list(range(n)):
        return False
    pos = {v: i for i, v in enumerate(order)}
    return all(pos[e[0]] < pos[e[1]] for e in edges)


def undirected_components(n, edges) -> set:
    label = list(range(n))
    for e in edges:
        a, b = label[e[0]], label[e[1]]
        if a != b:
            label = [a if x == b else x for x in label]
    d: dict = {}
    for v, l in enumerate(label):
        d.setdefault(l, set()).add(v)
    return {frozenset(c) for c in d.values()}


def msf_weight(n, edges) -> Fraction:
    """Exact weight of a minimum spanning forest (= MST when connected): repeatedly add the globally
    cheapest edge that joins two different trees (definition-level Kruskal on Fractions, no union-find)."""
    label = list(range(n))
    rest = sorted(((F(w), u, v) for u, v, w in edges))
    tot = Fraction(0)
    for w, u, v in rest:
        a, b = label[u], label[v]
        if a != b:
            label = [a if x == b else x for x in label]
            tot += w
    return tot


def msf_weight_bruteforce(n, edges):
    """Minimum over all edge subsets that are forests with as many components as the graph (tiny inputs)."""
    from itertools import combinations
    comps = undirected_components(n, edges)
    k = n - len(comps)
    best = None
    for sub in combinations(range(len(edges)), k):
        es = [edges[i] for i in sub]
        if undirected_components(n, es) == comps:
            w = sum((F(e[2]) for e in es), Fraction(0))
            if best is None or w < best:
                best = w
    return best


def pagerank_exact(n, edges, damping):
    """Exact stationary vector p = (1-d)/n + d*(M p + dangling/n) solved by Gaussian elimination on
    Fractions; None when the system is singular (only possible for damping == 1)."""
    d = F(damping)
    out = [0] * n
    for e in edges:
        out[e[0]] += 1
    A = [[Fraction(0)] * (n + 1) for _ in range(n)]
    for i in range(n):
        A[i][i] += 1
        A[i][n] = (1 - d) / n
    for u, v in ((e[0], e[1]) for e in edges):
        A[v][u] -= d / out[u]
    for j in range(n):
        if out[j] == 0:
            for i in range(n):
                A[i][j] -= d / n
    for c in range(n):
        p = next((r for r in range(c, n) if A[r][c] != 0), None)
        if p is None:
            return None
        A[c], A[p] = A[p], A[c]
        inv = 1 / A[c][c]
        A[c] = [x * inv for x in A[c]]
        for r in range(n):
            if r != c and A[r][c] != 0:
                f = A[r][c]
                A[r] = [x - f * y for x, y in zip(A[r], A[c])]
    return [A[i][n] for i in range(n)]

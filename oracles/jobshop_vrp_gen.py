"""Planted instances and exact-arithmetic certificates for C18 (size ladder, numerics).  No solvor import.

Job shop
    gen_jobshop(rng, nj, nm, kind, dur)  -> jobs ([[machine, duration], ...] per job)
    plant_schedule(jobs, rng, gaps)      -> a schedule that is valid BY CONSTRUCTION (random-order list scheduling
                                            with optional idle gaps); used as a witness handed to the swap move
    jobshop_lower_bound(jobs)            -> max(longest job, busiest machine): no valid schedule ends earlier

VRPTW
    gen_vrp(rng, n, V, ...) -> instance with a PLANTED feasible route plan: windows are laid around the planted
        arrival times (open / loose / tight / meeting exactly), vehicle capacities equal the planted loads exactly
        (or with slack / unlimited), multi-vehicle customers sit on `required_vehicles` planted routes and both
        vehicles arrive at the same instant.  The planted plan therefore has zero lateness, zero overload, zero
        sync spread and no unassigned customer: its documented objective is its distance (checked here with the
        plain oracle before the instance is handed out).
    vrp_exactness(customers, vehicles) -> (exact?, why): True when every number that can occur while
        evaluating arrival times / distance / lateness / overload / sync spread of ANY route plan is an integer multiple
        of one power of two and small enough to be a binary64 value - then float arithmetic makes no rounding
        error in ANY evaluation order and the comparison with the oracle can be exact (tolerance 0).
"""
from __future__ import annotations

from fractions import Fraction
from math import hypot, inf, isfinite

from oracles.jobshop_vrp import jobshop_schedule_problems, vrp_arrivals, vrp_objective

G40 = 2.0 ** -40
G30 = 2.0 ** -30
G20 = 2.0 ** -20

JS_KINDS = ["classic", "flow", "partial", "sparse", "bottleneck", "repeat"]
JS_DURS = ["int", "zeros", "ties", "wide", "dyadic"]


# ------------------------------------------------------------------------------------------------ job shop
def _durations(rng, dur, n_ops):
    """A duration sampler; for 'dyadic' the granule is chosen so that every partial sum is a binary64 value."""
    if dur == "int":
        return lambda: rng.randint(1, 20)
    if dur == "zeros":
        return lambda: rng.choice([0, 0, 1, 2, 5, 9])
    if dur == "ties":
        return lambda: 3
    if dur == "wide":
        return lambda: rng.choice([1, 1, 2, 50, 99, 1000])
    if dur == "dyadic":
        # durations <= 4, so all clock values stay below 4*n_ops; 52 - ceil(log2(4*n_ops)) bits are left for the fraction
        bits = 52 - max(1, (4 * n_ops)).bit_length()
        e = min(40, bits)
        g = 2.0 ** -e
        vals = [1.0, 1.0 + g, 1.0 - g, 0.5, g, 2.0, 2.0 + 3 * g, 0.0, 3.0 - g, 4.0]
        return lambda: rng.choice(vals)
    raise ValueError(dur)


def gen_jobshop(rng, nj, nm, kind="classic", dur="int"):
    n_ops_hint = nj * max(1, nm) * 2
    d = _durations(rng, dur, n_ops_hint)
    jobs = []
    for _ in range(nj):
        if kind in ("classic", "sparse"):
            ms = list(range(nm))
            rng.shuffle(ms)
        elif kind == "flow":
            ms = list(range(nm))
        elif kind == "partial":
            ms = [rng.randrange(nm) for _ in range(rng.randint(1, max(1, 2 * nm)))]
        elif kind == "bottleneck":
            ms = list(range(nm))
            rng.shuffle(ms)
            ms = [0 if rng.random() < 0.4 else m for m in ms]
        elif kind == "repeat":
            ms = []
            for m in rng.sample(range(nm), nm):
                ms += [m] * rng.choice([1, 1, 2, 3])
            ms = ms[: max(1, 2 * nm)]
        else:
            raise ValueError(kind)
        if kind == "sparse":
            ms = [3 * m + 2 for m in ms]
        jobs.append([[m, d()] for m in ms])
    return jobs


def plant_schedule(jobs, rng, gaps=(0,)):
    """Random-order list scheduling: operation (j,k) starts when job j and its machine are both free, plus an
    idle gap.  Valid by construction; verified with the plain oracle before it is returned."""
    order = [j for j, job in enumerate(jobs) for _ in job]
    rng.shuffle(order)
    nxt = [0] * len(jobs)
    jf = [0] * len(jobs)
    mf = {}
    sched = {}
    for j in order:
        k = nxt[j]
        m, du = jobs[j][k]
        s = max(mf.get(m, 0), jf[j]) + rng.choice(gaps)
        e = s + du
        sched[(j, k)] = (s, e)
        mf[m] = e
        jf[j] = e
        nxt[j] += 1
    bad = jobshop_schedule_problems(jobs, sched)
    if bad:
        raise AssertionError(f"planted schedule is not valid: {bad[:2]}")
    return sched


def jobshop_lower_bound(jobs):
    per_job = max((sum(d for _, d in job) for job in jobs), default=0)
    load = {}
    for job in jobs:
        for m, d in job:
            load[m] = load.get(m, 0) + d
    return max(per_job, max(load.values(), default=0))


# ------------------------------------------------------------------------------------------------ VRPTW
def _coords(rng, n, depot, coords, g, span=16):
    pts = []
    for _ in range(n):
        if coords == "euclid":
            pts.append((rng.randint(-50, 50), rng.randint(-50, 50)))
        elif coords == "grid":
            pts.append((rng.randint(-3, 4), rng.randint(-3, 4)))
        elif coords == "cluster":
            if pts and rng.random() < 0.5:
                pts.append(pts[rng.randrange(len(pts))])
            else:
                pts.append((rng.randint(-20, 20), rng.randint(-20, 20)))
        elif coords == "line":
            x = rng.randint(-span, span) + rng.choice([0.0, 0.0, g, -g, 0.5, 3 * g])
            pts.append((x, depot[1]))
        elif coords == "float":
            pts.append((rng.uniform(-50, 50), rng.uniform(-50, 50)))
        else:
            raise ValueError(coords)
    return pts


def gen_vrp(rng, n, V, coords="euclid", windows="mixed", cap="exact", p_multi=0.0, gran=G40, depot=(0, 0),
            service="int", span=16, late=60):
    """-> dict(customers=[[id,x,y,demand,tw_start,tw_end|None,service,required]...], vehicles=[[i,cap|None]...],
               depot=[x,y], planted=[[ids...]...])"""
    g = gran
    pts = _coords(rng, n, depot, coords, g, span)
    req = []
    for _ in range(n):
        q = rng.random()
        req.append(1 if (q >= p_multi or V < 2) else (3 if (V >= 3 and q < 0.25 * p_multi) else 2))
    if service == "int":
        svc = [rng.choice([0, 0, 1, 2, 5]) for _ in range(n)]
    else:
        svc = [rng.choice([0.0, 0.5, 1.0, 1.0 + g, g, 2.0 - g]) for _ in range(n)]
    if coords == "line" or service != "int":
        dem = [rng.choice([0.0, 1.0, 1.0 + g, 2.0, 0.5, g, 3.0 - g]) for _ in range(n)]
    else:
        dem = [rng.choice([0, 1, 2, 3, 5, 8]) for _ in range(n)]
    # --- planted routes: singles shuffled, multi-vehicle customers inserted in id order (no cyclic waiting)
    routes = [[] for _ in range(V)]
    singles = [i for i in range(1, n + 1) if req[i - 1] == 1]
    multis = [i for i in range(1, n + 1) if req[i - 1] > 1]
    rng.shuffle(singles)
    skew = [rng.random() ** 2 + 0.05 for _ in range(V)]        # uneven route lengths (some long, maybe one empty)
    if V > 2 and rng.random() < 0.3:
        skew[rng.randrange(V)] = 0.0
    if sum(skew) == 0:
        skew[0] = 1.0
    for c in singles:
        routes[rng.choices(range(V), weights=skew)[0]].append(c)
    floor = [0] * V                                            # first position a later multi customer may take
    for c in multis:
        for v in rng.sample(range(V), req[c - 1]):
            pos = rng.randint(floor[v], len(routes[v]))
            routes[v].insert(pos, c)
            floor[v] = pos + 1
    # --- times: some customers open late (waiting), multi customers open when their last vehicle arrives
    tws = [0.0] * n
    if windows != "open":
        for i in range(n):
            if req[i] == 1 and rng.random() < 0.2:
                tws[i] = float(rng.randint(1, late)) + rng.choice([0.0, g, 0.5])

    def plain():
        out = [(0, depot[0], depot[1], 0.0, 0.0, inf, 0.0, 1)]
        for i in range(n):
            out.append((i + 1, pts[i][0], pts[i][1], dem[i], tws[i], inf, svc[i], req[i]))
        return out

    for _round in range(len(multis) + 2):
        pc = plain()
        arr = [vrp_arrivals(pc, r) for r in routes]
        changed = False
        for c in multis:
            t = max(arr[v][r.index(c)] for v, r in enumerate(routes) if c in r)
            if t != tws[c - 1]:
                tws[c - 1] = t
                changed = True
        if not changed:
            break
    else:
        raise AssertionError("planted multi-vehicle waiting times did not settle")
    pc = plain()
    arr = [vrp_arrivals(pc, r) for r in routes]
    a_of = {}
    for v, r in enumerate(routes):
        for i, c in enumerate(r):
            a_of[c] = arr[v][i]
    twe = [inf] * n
    for i in range(n):
        a = a_of[i + 1]
        mode = windows if windows != "mixed" else rng.choice(["open", "loose", "tight", "exact", "exact"])
        if mode == "open":
            pass
        elif mode == "loose":
            twe[i] = a + rng.randint(10, 100)
        elif mode == "tight":
            twe[i] = a + rng.choice([g, 2 * g, 0.5, 1.0, 3.0])
            if tws[i] < a and rng.random() < 0.5:
                lo = a - rng.choice([g, 0.5, 1.0, 3.0])
                tws[i] = max(tws[i], lo, 0.0)
        elif mode == "exact":
            tws[i] = a            # the window opens exactly on arrival (no waiting, nothing shifts)
            twe[i] = a            # and closes at the same instant
        else:
            raise ValueError(mode)
    # --- capacities
    loads = [sum(dem[c - 1] for c in r) for r in routes]
    vehicles = []
    for v in range(V):
        mode = cap if cap != "mixed" else rng.choice(["exact", "exact", "slack", "inf"])
        if mode == "exact":
            vehicles.append([v, loads[v]])
        elif mode == "slack":
            vehicles.append([v, loads[v] + rng.randint(1, 5)])
        elif mode == "inf":
            vehicles.append([v, None])
        elif mode == "uniform":
            vehicles.append([v, max(loads)])      # binds exactly on the fullest planted route
        else:
            raise ValueError(mode)
    customers = [[i + 1, pts[i][0], pts[i][1], dem[i], tws[i], (None if twe[i] == inf else twe[i]), svc[i], req[i]]
                 for i in range(n)]
    inst = dict(customers=customers, vehicles=vehicles, depot=list(depot), planted=routes)
    # --- certificate: the planted plan is feasible, so its documented objective is its distance
    pc = [(0, depot[0], depot[1], 0.0, 0.0, inf, 0.0, 1)] + \
         [(c[0], c[1], c[2], c[3], c[4], inf if c[5] is None else c[5], c[6], c[7]) for c in customers]
    pv = [(v[0], inf if v[1] is None else v[1]) for v in vehicles]
    _tot, parts = vrp_objective(pc, pv, routes, [])
    if parts["tw_violation"] or parts["capacity_violation"] or parts["sync_violation"]:
        raise AssertionError(f"planted plan is not feasible: {parts}")
    return inst


def _den(x):
    return Fraction(x).denominator


def vrp_exactness(customers, vehicles):
    """(exact, why): see module docstring.  `customers` plain tuples incl. depot, `vehicles` [(id, cap)].
    Route independent: looks at all pairwise distances, so it is only attempted for small instances."""
    n = len(customers) - 1
    if n > 24:
        return False, "instance too large for the all-pairs exactness test"
    vals = []
    for c in customers:
        vals += [c[1], c[2], c[3], c[4], c[6]]
        if isfinite(c[5]):
            vals.append(c[5])
    for _i, cap in vehicles:
        if isfinite(cap):
            vals.append(cap)
    if any(not isfinite(x) for x in vals):
        return False, "non-finite input"
    den = max([_den(x) for x in vals] + [1])
    maxd = Fraction(0)
    for a in range(n + 1):
        for b in range(a + 1, n + 1):
            dx = Fraction(customers[a][1]) - Fraction(customers[b][1])
            dy = Fraction(customers[a][2]) - Fraction(customers[b][2])
            if Fraction(float(dx)) != dx or Fraction(float(dy)) != dy:
                return False, "coordinate difference is not a binary64 value"
            h = Fraction(hypot(float(dx), float(dy)))
            if h * h != dx * dx + dy * dy:
                return False, "irrational distance"
            den = max(den, h.denominator)
            maxd = max(maxd, h)
    V = max(1, len(vehicles))
    # a route has at most n stops: no clock value exceeds (n+1)*maxd + all service + the latest opening;
    # lateness / spread / distance / load totals are sums of at most n*V such values
    clock = (n + 1) * maxd + sum(Fraction(abs(c[6])) for c in customers) + max(Fraction(abs(c[4])) for c in customers)
    bound = max(1, n) * V * clock + sum(Fraction(abs(c[3])) for c in customers) * V
    bound += sum(Fraction(cap) for _i, cap in vehicles if isfinite(cap))
    if bound * den >= 2 ** 53:
        return False, f"too many significant bits (values up to {float(bound):.3g} in units of 1/{den})"
    return True, f"all values are multiples of 1/{den} and stay below {float(bound):.3g}"

"""Exact bin-packing optimum for instances with FEW DISTINCT SIZES and many copies of each (independent of solvor).

An instance is a multiplicity vector n = (n_1 .. n_d) over d distinct positive integer sizes s_1 .. s_d (grid units) and an
integer capacity.  A *pattern* is a non-zero vector p with sum p_i * s_i <= capacity: the content of one bin.

opt_table(sizes, cap, limits) -> Table with OPT(n) for EVERY n <= limits (componentwise), by dynamic programming over the box:
    OPT(0) = 0;   OPT(n) = 1 + min { OPT(n - p) : p a pattern, p <= n, p_i >= 1 }   where i is the first type with n_i > 0.
  Exact: every packing of n has a bin that holds a copy of type i; the content of that bin is such a pattern and the other
  bins pack n - p; conversely a pattern p <= n plus any packing of n - p is a packing of n.  ALL patterns are tried (no
  dominance argument, no bound), so the only thing to trust is this recursion.  Cost: (number of vectors in the box) x
  (number of patterns) - a few thousand steps for <= 5 sizes with multiplicities up to a dozen.
Table.opt(n)     -> the optimum
Table.packing(n) -> a witness: list of bins, each a list of sizes (by value), using opt(n) bins (what
                    oracles/binpack_cert.upper_bound accepts as a certificate for "OPT <= len(packing)").

The harness cross-checks the table against oracles/binpack_exact (complete subset decomposition) on every vector with at most
9 items and has the witness packings checked by oracles/binpack_cert at the start of every run.
"""
from __future__ import annotations

import itertools


def patterns(sizes, cap, limits):
    """every non-zero p with p_i <= limits_i and sum p_i * sizes_i <= cap"""
    d = len(sizes)
    out = []

    def rec(i, room, cur):
        if i == d:
            if any(cur):
                out.append(tuple(cur))
            return
        for k in range(0, min(limits[i], room // sizes[i]) + 1):
            cur.append(k)
            rec(i + 1, room - k * sizes[i], cur)
            cur.pop()

    rec(0, cap, [])
    return out


class Table:
    def __init__(self, sizes, cap, limits):
        if len(set(sizes)) != len(sizes) or any((not isinstance(s, int)) or s <= 0 or s > cap for s in sizes):
            raise ValueError("sizes must be distinct positive integers within the capacity")
        self.sizes, self.cap, self.limits = tuple(sizes), cap, tuple(limits)
        d = len(sizes)
        stride = [1] * d
        for i in range(d - 2, -1, -1):
            stride[i] = stride[i + 1] * (limits[i + 1] + 1)
        self.stride = stride
        pats = patterns(sizes, cap, limits)
        self.n_patterns = len(pats)
        by_first = [[] for _ in range(d)]  # patterns that use type i (p_i >= 1), with their index offset
        for p in pats:
            off = sum(a * b for a, b in zip(p, stride))
            for i in range(d):
                if p[i]:
                    by_first[i].append((p, off))
        total = stride[0] * (limits[0] + 1)
        optv = [0] * total
        choice = [None] * total
        rng_d = range(d)
        for n in itertools.product(*[range(l + 1) for l in limits]):  # lexicographic = increasing index
            idx = sum(a * b for a, b in zip(n, stride))
            if idx == 0:
                continue
            first = next(i for i in rng_d if n[i])
            best, bp = None, None
            for p, off in by_first[first]:
                ok = True
                for j in rng_d:
                    if p[j] > n[j]:
                        ok = False
                        break
                if ok:
                    c = optv[idx - off]
                    if best is None or c < best:
                        best, bp = c, p
            optv[idx] = best + 1  # best is never None: the pattern "one copy of type first" always applies
            choice[idx] = bp
        self._opt, self._choice = optv, choice

    def _idx(self, n):
        if len(n) != len(self.limits) or any(a < 0 or a > l for a, l in zip(n, self.limits)):
            raise ValueError("multiplicity vector outside the table")
        return sum(a * b for a, b in zip(n, self.stride))

    def opt(self, n):
        return self._opt[self._idx(n)]

    def packing(self, n):
        n = list(n)
        bins = []
        while any(n):
            p = self._choice[self._idx(n)]
            bins.append([s for s, k in zip(self.sizes, p) for _ in range(k)])
            n = [a - b for a, b in zip(n, p)]
        return bins


def opt_table(sizes, cap, limits):
    return Table(sizes, cap, limits)

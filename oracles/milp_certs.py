"""Cheap CERTIFYING oracles for MILP instances beyond the reach of box enumeration (C04, size ladder / long runs).

Nothing here resembles branch and bound or the simplex method; everything is exact (Python ints / Fractions).

  mitm_row(c, w, U, T, kind, minimize)
        exact optimum of   min|max c.x   s.t.  w.x (<= | == | >=) T,  0 <= x_j <= U_j,  x integer
        by meet in the middle: the variables are cut into two halves, every assignment of each half is listed with its
        (weight, value), the right half is sorted by weight and the best value per weight prefix / suffix / exact weight
        is looked up for every left assignment.   ->  None (no integer point)  |  (value, x)
        Cost: prod(U_j+1) over each half (2^9..2^12 for the instances used), so 18..24 binaries are trivial.

  compose(blocks)
        block-diagonal instance from independent blocks (c, A, b, integers): the rows of one block touch only its own
        variables, therefore  optimum = sum of block optima, a point is feasible iff every block part is, and the whole is
        infeasible iff one block is.  The block verdicts come from oracles.milp_exact (box enumeration); the composed
        witness is re-verified here against the composed rows in exact arithmetic.

  check_dual_certificate(c, A, b, x, y)           (sparse rows; minimise c.x, A x <= b, x >= 0)
        LP duality as an optimality certificate for an INTEGER point x:  x feasible, y >= 0,  r := c + A^T y >= 0,
        y_i (b_i - A_i x) = 0,  r_j x_j = 0.   Then for every feasible z:  c.z = r.z - y.(A z) >= -y.b = c.x,  so x is optimal
        for the relaxation and, being integral, for every choice of integer variables.  Returns the optimum value c.x;
        raises AssertionError when the certificate does not check out.

Sparse matrix form used for big instances:  rows[i] = [[j, a_ij], ...]  (only non-zeros).
"""
from __future__ import annotations

from bisect import bisect_left, bisect_right
from fractions import Fraction
from itertools import product

__all__ = ["mitm_row", "compose", "check_dual_certificate", "to_sparse", "to_dense", "sparse_feasible", "sdot"]


# ------------------------------------------------------------------------------------------------ sparse helpers
def to_sparse(A):
    return [[[j, v] for j, v in enumerate(row) if v] for row in A]


def to_dense(rows, n):
    out = []
    for r in rows:
        d = [0] * n
        for j, v in r:
            d[j] = v
        out.append(d)
    return out


def sdot(row, x):
    s = 0
    for j, v in row:
        s += v * x[j]
    return s


def sparse_feasible(x, rows, b, integers) -> bool:
    """Exact: x >= 0, rows.x <= b, integrality on `integers` (x of ints / Fractions)."""
    if any(v < 0 for v in x):
        return False
    if any(Fraction(x[j]).denominator != 1 for j in integers):
        return False
    return all(sdot(rows[i], x) <= b[i] for i in range(len(b)))


# ------------------------------------------------------------------------------------------------ single row, exact
def _half(c, w, U):
    """All assignments of one half: list of (weight, value, assignment)."""
    out = []
    for z in product(*[range(u + 1) for u in U]):
        out.append((sum(a * q for a, q in zip(w, z)), sum(a * q for a, q in zip(c, z)), z))
    return out


def mitm_row(c, w, U, T, kind="eq", minimize=True):
    n = len(c)
    assert kind in ("eq", "le", "ge") and len(w) == n and len(U) == n
    h = n // 2
    L = _half(c[:h], w[:h], U[:h])
    R = _half(c[h:], w[h:], U[h:])
    better = (lambda a, q: a < q) if minimize else (lambda a, q: a > q)
    best = None
    if kind == "eq":
        tab = {}
        for wt, val, z in R:
            cur = tab.get(wt)
            if cur is None or better(val, cur[0]):
                tab[wt] = (val, z)
        for wt, val, z in L:
            hit = tab.get(T - wt)
            if hit is not None and (best is None or better(val + hit[0], best[0])):
                best = (val + hit[0], z + hit[1])
        return None if best is None else (best[0], list(best[1]))
    R.sort(key=lambda t: t[0])
    ws = [t[0] for t in R]
    # pre[k] = best of R[:k]  (kind le: weights <= limit),  suf[k] = best of R[k:]  (kind ge)
    pre = [None]
    for wt, val, z in R:
        p = pre[-1]
        pre.append((val, z) if p is None or better(val, p[0]) else p)
    suf = [None] * (len(R) + 1)
    for k in range(len(R) - 1, -1, -1):
        wt, val, z = R[k]
        s = suf[k + 1]
        suf[k] = (val, z) if s is None or better(val, s[0]) else s
    for wt, val, z in L:
        if kind == "le":
            hit = pre[bisect_right(ws, T - wt)]
        else:
            hit = suf[bisect_left(ws, T - wt)]
        if hit is not None and (best is None or better(val + hit[0], best[0])):
            best = (val + hit[0], z + hit[1])
    return None if best is None else (best[0], list(best[1]))


# ------------------------------------------------------------------------------------------------ block composition
def compose(blocks, perm_cols=None, perm_rows=None):
    """blocks: list of dicts {c, A (dense), b, integers}.  -> (c, rows (sparse), b, integers, offsets).
    perm_cols (a permutation of range(n): new index of old column j) and perm_rows (order of rows) relabel the result."""
    n = sum(len(bl["c"]) for bl in blocks)
    pc = perm_cols or list(range(n))
    c = [0] * n
    rows, b, ints, offs = [], [], [], []
    off = 0
    for bl in blocks:
        k = len(bl["c"])
        offs.append(off)
        for j in range(k):
            c[pc[off + j]] = bl["c"][j]
        for row, r in zip(bl["A"], bl["b"]):
            rows.append(sorted([pc[off + j], v] for j, v in enumerate(row) if v))
            b.append(r)
        ints += [pc[off + j] for j in bl["integers"]]
        off += k
    if perm_rows is not None:
        rows = [rows[i] for i in perm_rows]
        b = [b[i] for i in perm_rows]
    return c, rows, b, sorted(ints), offs


def place(parts, offs, perm_cols, n):
    """Concatenate block points into a point of the composed instance."""
    pc = perm_cols or list(range(n))
    x = [Fraction(0)] * n
    for part, off in zip(parts, offs):
        for j, v in enumerate(part):
            x[pc[off + j]] = Fraction(v)
    return x


# ------------------------------------------------------------------------------------------------ duality certificate
def check_dual_certificate(c, rows, b, x, y):
    n, m = len(c), len(b)
    assert len(x) == n and len(y) == m and len(rows) == m
    assert all(Fraction(v).denominator == 1 and v >= 0 for v in x), "x must be a non-negative integer point"
    assert all(v >= 0 for v in y), "y >= 0"
    r = [Fraction(v) for v in c]
    for i in range(m):
        ax = sdot(rows[i], x)
        assert ax <= b[i], f"row {i} violated by the planted point"
        assert y[i] == 0 or ax == b[i], f"complementary slackness fails on row {i}"
        if y[i]:
            for j, v in rows[i]:
                r[j] += v * y[i]
    for j in range(n):
        assert r[j] >= 0, f"reduced cost of column {j} negative"
        assert r[j] == 0 or x[j] == 0, f"complementary slackness fails on column {j}"
    val = sum(Fraction(cj) * xj for cj, xj in zip(c, x))
    assert val == -sum(Fraction(yi) * bi for yi, bi in zip(y, b)), "primal and dual values differ"
    return val


# ------------------------------------------------------------------------------------------------ self test
def _selftest(trials=600, seed=5):
    import random
    rng = random.Random(seed)
    seen = {"eq": 0, "le": 0, "ge": 0, "none": 0}
    for _ in range(trials):
        n = rng.randint(1, 7)
        c = [rng.randint(-4, 9) for _ in range(n)]
        w = [rng.randint(0, 9) for _ in range(n)]
        U = [rng.randint(1, 2) for _ in range(n)]
        T = rng.randint(0, sum(a * u for a, u in zip(w, U)) + 1)
        for kind in ("eq", "le", "ge"):
            for mn in (True, False):
                vals = []
                for z in product(*[range(u + 1) for u in U]):
                    s = sum(a * q for a, q in zip(w, z))
                    if (kind == "eq" and s == T) or (kind == "le" and s <= T) or (kind == "ge" and s >= T):
                        vals.append(sum(a * q for a, q in zip(c, z)))
                got = mitm_row(c, w, U, T, kind, mn)
                if not vals:
                    assert got is None, (c, w, U, T, kind, mn)
                    seen["none"] += 1
                else:
                    assert got is not None and got[0] == (min(vals) if mn else max(vals)), (c, w, U, T, kind, mn, got)
                    s = sum(a * q for a, q in zip(w, got[1]))
                    assert sum(a * q for a, q in zip(c, got[1])) == got[0]
                    assert (kind == "eq" and s == T) or (kind == "le" and s <= T) or (kind == "ge" and s >= T)
                    assert all(0 <= q <= u for q, u in zip(got[1], U))
                    seen[kind] += 1
    return seen


if __name__ == "__main__":
    print("milp_certs self test:", _selftest())

"""Linear-time oracles and constructions with answers known in advance, for C15 beyond the small scope.

Independent of /repo.  Nothing here is trusted on its own word:

* `lowpoint` (iterative Hopcroft-Tarjan low-points) and `chains` (Schmidt's chain decomposition, which uses no
  low-links at all) are two different linear algorithms for cut vertices / bridges; checks/C15.py compares both
  with the removal-based brute force of oracles/c15_graph.py on EVERY graph of its exhaustive small scope (all
  labelled graphs up to 6 / 7 nodes) and on the seeded structured graphs, compares them with each other and with
  the by-construction answer on every large instance, and spot-checks them against the removal definition on
  sampled vertices / edges of every large instance.  Any disagreement is reported as a checker defect.
* `core_numbers_peel` is the definition (repeated deletion of nodes of degree below k, for k = 1, 2, ...) run
  with a work list instead of repeated scans; compared with the brute force in the same way.

Graphs are adjacency dicts node -> set (simple, symmetric), as produced by c15_graph.closure.
"""
from __future__ import annotations


# ------------------------------------------------------------------ linear-time algorithms
def lowpoint(adj):
    """(cut vertices, bridges as frozensets, number of components) by an explicit-stack low-point DFS."""
    disc = {}
    low = {}
    cut = set()
    br = set()
    comps = 0
    t = 0
    for r in adj:
        if r in disc:
            continue
        comps += 1
        disc[r] = low[r] = t
        t += 1
        root_kids = 0
        stack = [(r, None, iter(adj[r]))]
        while stack:
            v, p, it = stack[-1]
            pushed = False
            for w in it:
                if w not in disc:
                    disc[w] = low[w] = t
                    t += 1
                    stack.append((w, v, iter(adj[w])))
                    pushed = True
                    break
                if w != p and disc[w] < low[v]:
                    low[v] = disc[w]
            if pushed:
                continue
            stack.pop()
            if stack:
                u = stack[-1][0]
                if low[v] < low[u]:
                    low[u] = low[v]
                if low[v] > disc[u]:
                    br.add(frozenset((u, v)))
                if u == r:
                    root_kids += 1
                elif low[v] >= disc[u]:
                    cut.add(u)
        if root_kids >= 2:
            cut.add(r)
    return cut, br, comps


def chains(adj):
    """(cut vertices, bridges) by chain decomposition (J. M. Schmidt, "A simple test on 2-vertex- and
    2-edge-connectivity", 2013): DFS tree + preorder; every back edge, taken in preorder of its upper end, starts a
    chain that climbs tree edges until it meets a vertex already on a chain.  An edge is a bridge iff it lies on no
    chain; a vertex is a cut vertex iff it is an end of a bridge and has degree >= 2, or it is the start of a chain that
    is a cycle and is not the first chain through that vertex's 2-edge-connected component (= the vertex was already on
    a chain when the cycle started)."""
    pre = {}
    parent = {}
    order = []
    for r in adj:
        if r in pre:
            continue
        pre[r] = len(order)
        order.append(r)
        parent[r] = None
        stack = [(r, iter(adj[r]))]
        while stack:
            v, it = stack[-1]
            for w in it:
                if w not in pre:
                    pre[w] = len(order)
                    order.append(w)
                    parent[w] = v
                    stack.append((w, iter(adj[w])))
                    break
            else:
                stack.pop()
    on_chain = set()       # vertices
    covered = set()        # tree edges (child vertex stands for the edge child-parent)
    cut = set()
    for v in order:
        for w in adj[v]:
            if pre[w] > pre[v] and parent[w] != v:  # back edge with upper end v
                was = v in on_chain
                on_chain.add(v)
                x = w
                while x not in on_chain:
                    on_chain.add(x)
                    covered.add(x)
                    x = parent[x]
                if x == v and was:
                    cut.add(v)
    br = set()
    for v in order:
        p = parent[v]
        if p is not None and v not in covered:
            br.add(frozenset((v, p)))
            if len(adj[v]) >= 2:
                cut.add(v)
            if len(adj[p]) >= 2:
                cut.add(p)
    return cut, br


def core_numbers_peel(adj):
    """core[v] = largest k for which v survives repeated deletion of nodes of degree below k (work-list peeling,
    started from the whole graph for every k)."""
    core = {v: 0 for v in adj}
    k = 1
    while True:
        deg = {v: len(adj[v]) for v in adj}
        gone = set()
        work = [v for v in adj if deg[v] < k]
        gone.update(work)
        while work:
            v = work.pop()
            for w in adj[v]:
                if w not in gone:
                    deg[w] -= 1
                    if deg[w] < k:
                        gone.add(w)
                        work.append(w)
        if len(gone) == len(adj):
            return core
        for v in adj:
            if v not in gone:
                core[v] = k
        k += 1


def n_components(adj):
    seen = set()
    c = 0
    for s in adj:
        if s in seen:
            continue
        c += 1
        seen.add(s)
        st = [s]
        while st:
            x = st.pop()
            for y in adj[x]:
                if y not in seen:
                    seen.add(y)
                    st.append(y)
    return c


# ------------------------------------------------------------------ constructions with known answers
class Build:
    """Grows a graph on 0..n-1 out of *blocks* (2-connected gadgets, or single edges) that are either put down as
    a new component or glued to an existing vertex by identifying one of their vertices with it.  By the block-tree
    theorem the cut vertices are exactly the vertices lying in two or more blocks and the bridges are exactly the
    single-edge blocks; the number of components is the number of `new_component` calls plus isolated vertices.
    Core numbers are known by construction only while every component is a single catalogue gadget (`cores_known`)."""

    def __init__(self):
        self.n = 0
        self.edges = set()
        self.blocks_of = []       # number of blocks through each vertex
        self.bridges = set()
        self.comps = 0
        self.core = []            # by-construction core number (valid while cores_known)
        self.cores_known = True

    def _new(self, k, core):
        ids = list(range(self.n, self.n + k))
        self.n += k
        self.blocks_of += [0] * k
        self.core += [core] * k
        return ids

    def _edge(self, a, b):
        assert a != b
        e = (a, b) if a < b else (b, a)
        assert e not in self.edges
        self.edges.add(e)

    def isolated(self, k=1):
        self._new(k, 0)
        self.comps += k

    def block(self, kind, size, at=None):
        """add a block; `at` = existing vertex to glue to (None: new component).  Returns the vertex ids of the block.
        kinds: edge(2), cycle(size>=3), clique(size>=3), theta(size>=4: K_{2,size-2}), wheel(size>=4), ladder(size even >= 4:
        2 x size/2 grid closed into a prism when size >= 6)."""
        base_core = {"edge": 1, "cycle": 2, "clique": size - 1, "theta": 2, "wheel": 3, "ladder": 2 if size < 6 else 3}[kind]
        if at is None:
            ids = self._new(size, base_core)
            self.comps += 1
        else:
            ids = [at] + self._new(size - 1, base_core)
            self.cores_known = False
        for v in ids:
            self.blocks_of[v] += 1
        if kind == "edge":
            assert size == 2
            self._edge(ids[0], ids[1])
            self.bridges.add(frozenset(ids))
        elif kind == "cycle":
            assert size >= 3
            for i in range(size):
                self._edge(ids[i], ids[(i + 1) % size])
        elif kind == "clique":
            assert size >= 3
            for i in range(size):
                for j in range(i + 1, size):
                    self._edge(ids[i], ids[j])
        elif kind == "theta":
            assert size >= 4
            for x in ids[2:]:
                self._edge(ids[0], x)
                self._edge(ids[1], x)
        elif kind == "wheel":
            assert size >= 4
            rim = ids[1:]
            for i, x in enumerate(rim):
                self._edge(ids[0], x)
                self._edge(x, rim[(i + 1) % len(rim)])
        elif kind == "ladder":
            assert size >= 4 and size % 2 == 0
            h = size // 2
            a, b = ids[:h], ids[h:]
            for i in range(h):
                self._edge(a[i], b[i])
            for i in range(h - 1 if h < 3 else h):
                self._edge(a[i], a[(i + 1) % h])
                self._edge(b[i], b[(i + 1) % h])
        else:
            raise ValueError(kind)
        return ids

    # answers
    def cut_vertices(self):
        return {v for v in range(self.n) if self.blocks_of[v] >= 2}

    def result(self):
        return {"n": self.n, "edges": sorted(self.edges), "cut": self.cut_vertices(), "bridges": set(self.bridges),
                "comps": self.comps, "core": list(self.core) if self.cores_known else None}


BLOCK_KINDS = ("edge", "cycle", "cycle", "clique", "theta", "wheel", "ladder")


def random_block(rng, small=False):
    kind = rng.choice(BLOCK_KINDS)
    if kind == "edge":
        return kind, 2
    if kind == "cycle":
        return kind, rng.randint(3, 5 if small else 9)
    if kind == "clique":
        return kind, rng.randint(3, 4 if small else 6)
    if kind == "theta":
        return kind, rng.randint(4, 6)
    if kind == "wheel":
        return kind, rng.randint(4, 7)
    return kind, rng.choice((4, 6, 8))


def family(rng, name, n_target):
    """an instance of a named family with about n_target vertices (never more): dict as Build.result() + 'family'."""
    b = Build()

    def room(k):
        return b.n + k <= n_target

    if name == "bowties":            # disjoint unions of two cycles sharing one vertex (+ leftovers as isolated nodes)
        while True:
            p, q = rng.randint(3, 5), rng.randint(3, 5)
            if not room(p + q - 1):
                break
            ids = b.block("cycle", p)
            b.block("cycle", q, at=rng.choice(ids))
            b.core[-(q - 1):] = [2] * (q - 1)
        b.cores_known = True             # every vertex of a union of two cycles has core number 2
        b.isolated(n_target - b.n)
    elif name == "union":            # disjoint catalogue gadgets: core numbers known too
        while True:
            kind, size = random_block(rng)
            if not room(size):
                break
            b.block(kind, size)
        b.isolated(n_target - b.n)
    elif name == "flowers":          # several cycles through one centre, disjoint copies
        while room(3):
            ids = b.block("cycle", rng.randint(3, 6) if room(6) else 3)
            c = ids[0]
            for _ in range(rng.randint(1, 4)):
                k = rng.randint(3, 6)
                if not room(k - 1):
                    break
                b.block("cycle", k, at=c)
        b.cores_known = True             # cycles through a common centre: every vertex has core number 2
        b.core = [2] * b.n
        b.isolated(n_target - b.n)
    elif name in ("blocktrees", "blocktree", "blockchain", "hub"):
        # blocktrees: many components of <= 60 vertices; blocktree: one component, uniform attachment (shallow);
        # blockchain: one component, always glued to the newest block (as deep as the graph is large);
        # hub: one component, everything glued to / hung off one centre vertex (large but DFS depth <= ~20)
        first = True
        comp_start = 0
        last = []
        centre = None
        while True:
            kind, size = random_block(rng, small=(name == "hub"))
            new_comp = first or (name == "blocktrees" and (b.n - comp_start >= rng.randint(8, 60)))
            need = size if new_comp else size - 1
            if not room(need):
                if room(1) and not first and name != "blocktrees":
                    kind, size, need, new_comp = "edge", 2, 1, False
                else:
                    break
            if new_comp:
                comp_start = b.n
                last = b.block(kind, size)
                if first:
                    centre = last[0]
                first = False
            else:
                if name == "blockchain":
                    at = rng.choice(last[1:] or last)
                elif name == "hub":
                    at = centre if rng.random() < 0.7 else rng.choice(last)
                else:
                    at = rng.randrange(comp_start, b.n)
                last = b.block(kind, size, at=at)
        b.isolated(n_target - b.n)
    elif name == "path":
        ids = b.block("edge", 2)
        while room(1):
            ids = b.block("edge", 2, at=ids[1])
        b.cores_known = True
        b.core = [1] * b.n
    elif name == "cycle":
        b.block("cycle", n_target)
    elif name == "cyclechain":       # cycles in a row, neighbours share one vertex
        ids = b.block("cycle", rng.randint(3, 6))
        while True:
            k = rng.randint(3, 6)
            if not room(k - 1):
                break
            ids = b.block("cycle", k, at=rng.choice(ids[1:]))
        b.cores_known = True
        b.core = [2] * b.n
        b.isolated(n_target - b.n)
    elif name == "caterpillar":      # a long spine with pendant edges and pendant triangles
        ids = b.block("edge", 2)
        spine = ids[1]
        while room(1):
            r = rng.random()
            if r < 0.5:
                spine = b.block("edge", 2, at=spine)[1]
            elif r < 0.8 or not room(2):
                b.block("edge", 2, at=spine)
            else:
                b.block("cycle", 3, at=spine)
    elif name == "tree":             # random recursive tree (depth O(log n)) with pendant cycles
        b.block("edge", 2)
        while room(1):
            at = rng.randrange(b.n)
            if rng.random() < 0.2 and room(3):
                b.block("cycle", rng.randint(3, 4), at=at)
            else:
                b.block("edge", 2, at=at)
    elif name == "star":             # one centre of degree n-1
        ids = b.block("edge", 2)
        while room(1):
            b.block("edge", 2, at=ids[0])
        b.cores_known = True
        b.core = [1] * b.n
    elif name == "bigtheta":         # K_{2,n-2}: two vertices of degree n-2, 2-connected
        b.block("theta", max(4, n_target))
    elif name == "bigwheel":         # hub of degree n-1 on a rim cycle: 2-connected, 3-core
        b.block("wheel", max(4, n_target))
    elif name == "cliques":          # disjoint cliques whose sizes sit around powers of two: core number = size - 1
        while True:
            k = rng.choice((3, 4, 5, 8, 9, 12, 16, 17, 31, 32, 33, 64, 65, 129))
            if not room(k):
                if not room(3):
                    break
                k = min(n_target - b.n, 12)
            b.block("clique", k)
        b.isolated(n_target - b.n)
    elif name == "bigladder":        # prism / ladder: 2-connected, no cut vertex, no bridge
        size = n_target - n_target % 2
        b.block("ladder", size)
        b.isolated(n_target - b.n)
    else:
        raise ValueError(name)
    out = b.result()
    out["family"] = name
    return out


# shallow: the longest simple path (hence any DFS) stays far below 500 vertices whatever the size; deep: it grows with n
FAMILIES_SHALLOW = ("bowties", "union", "flowers", "blocktrees", "blocktree", "hub", "tree", "star", "bigtheta", "cliques")
FAMILIES_DEEP = ("path", "cycle", "cyclechain", "caterpillar", "blockchain", "bigladder", "bigwheel")


def gnp_sparse(rng, n, c):
    """G(n, c/n) by geometric skipping; answers come from the linear oracles only."""
    import math
    edges = []
    p = c / n
    if p <= 0:
        return edges
    lp = math.log(1.0 - p)
    v, w = 1, -1
    while v < n:
        w += 1 + int(math.log(1.0 - rng.random()) / lp)
        while w >= v and v < n:
            w -= v
            v += 1
        if v < n:
            edges.append((w, v))
    return edges


# ------------------------------------------------------------------ PageRank: sparse form of c15_graph.pagerank_residual_bound
def pagerank_residual_bound_sparse(nodes, nbrs, damping, multi):
    """same value as c15_graph.pagerank_residual_bound, without building the dense n x n matrix: row v of M holds
    mult(u,v)/out(u) for the non-dangling in-neighbours u, 1/n for every dangling u and 0 elsewhere; the bound is
    d * max_v (sum of the floor(n/2) largest entries of row v - sum of the floor(n/2) smallest)."""
    from fractions import Fraction
    n = len(nodes)
    ns = set(nodes)
    d = Fraction(damping)
    out = {}
    for v, lst in zip(nodes, nbrs):
        l = [w for w in lst if w in ns]
        if not multi:
            l = list(dict.fromkeys(l))
        out[v] = l
    row = {v: {} for v in nodes}
    n_dang = 0
    for u in nodes:
        if out[u]:
            w = Fraction(1, len(out[u]))
            for x in out[u]:
                row[x][u] = row[x].get(u, Fraction(0)) + w
        else:
            n_dang += 1
    k = n // 2
    best = Fraction(0)
    if k == 0:
        return best
    for v in nodes:
        groups = [(val, 1) for val in row[v].values()]
        if n_dang:
            groups.append((Fraction(1, n), n_dang))
        zeros = n - len(row[v]) - n_dang
        if zeros:
            groups.append((Fraction(0), zeros))
        groups.sort(key=lambda g: g[0], reverse=True)

        def take(gs):
            left, s = k, Fraction(0)
            for val, cnt in gs:
                c = cnt if cnt < left else left
                s += val * c
                left -= c
                if not left:
                    break
            return s

        val = take(groups) - take(reversed(groups))
        if val > best:
            best = val
    return d * best

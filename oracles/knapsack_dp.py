"""Exact 0/1-knapsack optimum for INTEGER weights by dynamic programming over the capacity (independent of solvor).

Used where complete subset enumeration (oracles/knapsack_bf.py) is out of reach: hundreds to thousands of items.
All numbers are non-negative integers (grid units).  Maximisation only; with non-negative values the minimum over
the subsets within capacity is 0 (the empty set) and needs no oracle.

dp_max(values, weights, cap)        -> optimum value.  One row `best[c]` = best value of a subset of the items seen
                                       so far with weight <= c; each item updates the row as a whole
                                       (best[c] = max(best[c], best[c - w] + v)), the old row is read, a new row is written,
                                       so an item can never be used twice.  O(n * cap) time, O(cap) space, no keep
                                       table, no backtracking (the code under test keeps a table and backtracks).
dp_witness(values, weights, cap)    -> (optimum, item indices) by keeping every row; only called to print a witness.
ratio_bound(values, weights, cap)   -> floor of the fractional (LP) optimum: an independent UPPER bound, O(n log n).
certify(values, weights, cap, opt)  -> cross-check used by the harness' self-test: opt <= ratio_bound.

The harness cross-checks dp_max against complete enumeration on random small instances at the start of every run.
"""
from __future__ import annotations

from fractions import Fraction


def dp_max(values, weights, cap):
    if cap < 0:
        raise ValueError("negative capacity")
    free = 0
    best = [0] * (cap + 1)
    for v, w in zip(values, weights):
        if v <= 0 or w > cap:
            continue
        if w == 0:
            free += v
            continue
        # new[c] for c >= w is max(old[c], old[c - w] + v); both iterators read the old row: the right-hand side is
        # materialised completely before the slice is stored
        best[w:] = list(map(max, best[w:], map(v.__add__, best)))
    return best[cap] + free


def dp_witness(values, weights, cap, max_cells=6_000_000):
    n = len(values)
    if n * (cap + 1) > max_cells:
        return dp_max(values, weights, cap), None
    rows = [[0] * (cap + 1)]
    for v, w in zip(values, weights):
        old = rows[-1]
        if v <= 0 or w > cap:
            rows.append(old)
        elif w == 0:
            rows.append([x + v for x in old])
        else:
            rows.append(old[:w] + list(map(max, old[w:], map(v.__add__, old))))
    c, chosen = cap, []
    for i in range(n - 1, -1, -1):
        if rows[i + 1][c] != rows[i][c]:
            chosen.append(i)
            c -= weights[i]
    chosen.reverse()
    assert sum(weights[i] for i in chosen) <= cap and sum(values[i] for i in chosen) == rows[n][cap]
    return rows[n][cap], chosen


def ratio_bound(values, weights, cap):
    """floor(LP relaxation optimum): take items by value/weight, the last one fractionally."""
    total = sum(v for v, w in zip(values, weights) if w == 0 and v > 0)
    items = sorted(((v, w) for v, w in zip(values, weights) if w > 0 and v > 0 and w <= cap), key=lambda t: Fraction(t[0], t[1]), reverse=True)
    room = cap
    bound = Fraction(total)
    for v, w in items:
        if w <= room:
            bound += v
            room -= w
        else:
            bound += Fraction(v * room, w)
            break
    return bound.numerator // bound.denominator


def certify(values, weights, cap, opt):
    return 0 <= opt <= ratio_bound(values, weights, cap)

"""Exact oracles for directed graphs (C14): Boolean transitive closure, nothing else.  Independent of solvor.

A graph is n (nodes 0..n-1) and succ: list of iterables of successors (duplicates allowed, entries >= n or < 0 are
ignored = neighbours outside the node set).

* closure_matrix(n, succ)  - the plain O(n^3) Warshall closure on a Boolean matrix: R[u][v] iff there is a path with
                             at least one edge from u to v.  This is the reference.
* closure_masks(n, masks)  - the same closure on integer bit masks (fast path used in the large enumerations;
                             cross-checked against closure_matrix by self_test()).
* classes / acyclic / condensation derived from the closure by their definitions.
"""
from __future__ import annotations

import itertools


def closure_matrix(n, succ):
    r = [[False] * n for _ in range(n)]
    for u in range(n):
        for v in succ[u]:
            if 0 <= v < n:
                r[u][v] = True
    for k in range(n):
        for i in range(n):
            if r[i][k]:
                for j in range(n):
                    if r[k][j]:
                        r[i][j] = True
    return r


def succ_masks(n, succ):
    out = []
    for u in range(n):
        m = 0
        for v in succ[u]:
            if 0 <= v < n:
                m |= 1 << v
        out.append(m)
    return out


def closure_masks(n, masks):
    r = list(masks)
    for k in range(n):
        bk = 1 << k
        rk = r[k]
        for i in range(n):
            if r[i] & bk:
                r[i] |= rk
    return r


def class_masks(n, reach):
    """cls[u] = bit mask of {v : u == v or (u reaches v and v reaches u)}."""
    cls = []
    for u in range(n):
        m = 1 << u
        ru = reach[u]
        for v in range(n):
            if v != u and (ru >> v) & 1 and (reach[v] >> u) & 1:
                m |= 1 << v
        cls.append(m)
    return cls


def acyclic(n, reach):
    return not any((reach[v] >> v) & 1 for v in range(n))


def condensation_edges(n, masks, cls):
    """set of (class mask A, class mask B), A != B, such that some edge u->w has u in A and w in B."""
    out = set()
    for u in range(n):
        a = cls[u]
        m = masks[u] & ~a
        v = 0
        while m:
            if m & 1:
                out.add((a, cls[v]))
            m >>= 1
            v += 1
    return out


def self_test():
    """closure_masks == closure_matrix on every digraph with <= 3 nodes and on a fixed family of larger ones."""
    import random
    rng = random.Random(12345)
    cases = []
    for n in range(0, 4):
        for bits in itertools.product((0, 1), repeat=n * n):
            cases.append((n, [[v for v in range(n) if bits[u * n + v]] for u in range(n)]))
    for _ in range(300):
        n = rng.randint(4, 14)
        p = rng.choice((0.05, 0.15, 0.3, 0.6))
        cases.append((n, [[v for v in range(n) if rng.random() < p] + [n + 3, -1] for u in range(n)]))
    for n, succ in cases:
        a = closure_matrix(n, succ)
        b = closure_masks(n, succ_masks(n, succ))
        for u in range(n):
            for v in range(n):
                if a[u][v] != bool((b[u] >> v) & 1):
                    raise AssertionError(f"oracle self-test failed on n={n} succ={succ}")
    return len(cases)

"""Linear-time oracles for directed graphs far beyond the small scope (C14, round 2).  Independent of solvor: no
recursion, no Tarjan.

A graph is n (nodes 0..n-1) and succ: list of lists of successors, duplicates allowed; entries >= n or < 0 are
neighbours outside the node set and are ignored.

* kosaraju(n, succ)            - comp[u] (component number) and the number of components, by the two-pass algorithm with
                                 explicit stacks (first pass: finishing order on the graph; second pass: BFS on the
                                 reversed graph in decreasing finishing time).
* reach(n, succ, s)            - set of nodes reachable from s by at least zero edges (BFS).
* spot_check_classes(...)      - the definition, sampled: for a node s the class is reach(s) & reach_reversed(s); must equal
                                 kosaraju's component of s.
* cyclic(n, succ, comp)        - some component has >= 2 nodes or some node has a self loop.
* condensation_edges(...)      - {(comp[u], comp[w]) : edge u -> w, comp[u] != comp[w]}.
* acyclic_by_kahn(nodes, edge set) - own Kahn peel, used on RETURNED condensed graphs.
* self_test()                  - against the Boolean closure of oracles/digraph.py on a fixed family.
"""
from __future__ import annotations

from collections import deque


def in_set(n, adj):
    return [[j for j in a if 0 <= j < n] for a in adj[:n]]


def kosaraju(n, succ):
    seen = [False] * n
    finish = []
    for r in range(n):
        if seen[r]:
            continue
        seen[r] = True
        stack = [(r, 0)]
        while stack:
            v, i = stack[-1]
            sv = succ[v]
            while i < len(sv) and seen[sv[i]]:
                i += 1
            if i < len(sv):
                stack[-1] = (v, i + 1)
                w = sv[i]
                seen[w] = True
                stack.append((w, 0))
            else:
                stack.pop()
                finish.append(v)
    pred = [[] for _ in range(n)]
    for u in range(n):
        for w in succ[u]:
            pred[w].append(u)
    comp = [-1] * n
    c = 0
    for r in reversed(finish):
        if comp[r] >= 0:
            continue
        comp[r] = c
        dq = deque([r])
        while dq:
            x = dq.popleft()
            for y in pred[x]:
                if comp[y] < 0:
                    comp[y] = c
                    dq.append(y)
        c += 1
    return comp, c


def reach(n, succ, s):
    seen = {s}
    dq = deque([s])
    while dq:
        x = dq.popleft()
        for y in succ[x]:
            if y not in seen:
                seen.add(y)
                dq.append(y)
    return seen


def spot_check_classes(n, succ, comp, samples):
    pred = [[] for _ in range(n)]
    for u in range(n):
        for w in succ[u]:
            pred[w].append(u)
    for s in samples:
        cls = reach(n, succ, s) & reach(n, pred, s)
        kos = {u for u in range(n) if comp[u] == comp[s]} if len(cls) * 50 > n else None
        if kos is None:
            ok = all(comp[u] == comp[s] for u in cls) and sum(1 for u in range(n) if comp[u] == comp[s]) == len(cls)
        else:
            ok = kos == cls
        if not ok:
            raise AssertionError(f"digraph_big: kosaraju disagrees with forward/backward reachability at node {s}")


def cyclic(n, succ, comp, ncomp):
    size = [0] * ncomp
    for u in range(n):
        size[comp[u]] += 1
        if u in succ[u]:
            return True
    return any(s > 1 for s in size)


def condensation_edges(n, succ, comp):
    out = set()
    for u in range(n):
        cu = comp[u]
        for w in succ[u]:
            if comp[w] != cu:
                out.add((cu, comp[w]))
    return out


def acyclic_by_kahn(nodes, edges):
    """nodes: iterable of hashables, edges: set of (a, b).  True iff the graph has no cycle (self loops are cycles)."""
    indeg = {a: 0 for a in nodes}
    out = {a: [] for a in indeg}
    for a, b in edges:
        if a == b:
            return False
        out[a].append(b)
        indeg[b] += 1
    dq = deque(a for a, d in indeg.items() if d == 0)
    k = 0
    while dq:
        a = dq.popleft()
        k += 1
        for b in out[a]:
            indeg[b] -= 1
            if indeg[b] == 0:
                dq.append(b)
    return k == len(indeg)


def self_test():
    import itertools
    import random

    from oracles import digraph as D
    rng = random.Random(777)
    cases = []
    for n in range(0, 4):
        for bits in itertools.product((0, 1), repeat=n * n):
            cases.append((n, [[v for v in range(n) if bits[u * n + v]] for u in range(n)]))
    for _ in range(300):
        n = rng.randint(4, 40)
        p = rng.choice((0.02, 0.05, 0.1, 0.3))
        cases.append((n, [[v for v in range(n) if rng.random() < p] * rng.choice((1, 2)) + [n + 3, -1] for u in range(n)]))
    for n, adj in cases:
        succ = in_set(n, adj)
        comp, c = kosaraju(n, succ)
        masks = D.succ_masks(n, succ)
        reachm = D.closure_masks(n, masks)
        cls = D.class_masks(n, reachm)
        for u in range(n):
            m = 0
            for v in range(n):
                if comp[v] == comp[u]:
                    m |= 1 << v
            if m != cls[u]:
                raise AssertionError(f"digraph_big self-test: classes differ on n={n} adj={adj}")
        if len(set(cls)) != c:
            raise AssertionError("digraph_big self-test: component count")
        if cyclic(n, succ, comp, c) == D.acyclic(n, reachm):
            raise AssertionError(f"digraph_big self-test: cyclic() differs on n={n} adj={adj}")
        ce = {(cls[[comp[v] for v in range(n)].index(a)], cls[[comp[v] for v in range(n)].index(b)])
              for a, b in condensation_edges(n, succ, comp)}
        if ce != D.condensation_edges(n, masks, cls):
            raise AssertionError(f"digraph_big self-test: condensation differs on n={n} adj={adj}")
        if not acyclic_by_kahn(range(c), condensation_edges(n, succ, comp)):
            raise AssertionError("digraph_big self-test: condensation not acyclic")
        if n:
            spot_check_classes(n, succ, comp, [rng.randrange(n)])
        # kahn on the graph itself agrees with the closure (multi-edges collapse in the set)
        es = {(u, w) for u in range(n) for w in succ[u]}
        if acyclic_by_kahn(range(n), es) != D.acyclic(n, reachm):
            raise AssertionError("digraph_big self-test: kahn vs closure")
    return len(cases)

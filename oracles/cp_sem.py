"""Reference semantics for CP models described independently of solvor's internal tuples.

A model description is JSON-able:
  {"vars": [[name, lb, ub], ...], "constraints": [c, ...]}
  c = ["rel", "=="|"!=", e1, e2] | ["all_different", [names]] | ["sum_eq"|"sum_le"|"sum_ge", [names], target]
    | ["circuit", [names]] | ["no_overlap", [names], [durations]] | ["cumulative", [names], [durations], [demands], capacity]
  e = ["var", name] | ["const", k] | ["add", e, e] | ["sub", e, e] | ["mul", e, k] | ["rmul", k, e]
The solvor Model is built from the description through the PUBLIC constructors and operators only
(`x + y == 10`), the semantics below is evaluated on the description.
"""
from __future__ import annotations

import itertools


def ev(e, a):
    k = e[0]
    if k == "var":
        return a[e[1]]
    if k == "const":
        return e[1]
    if k == "add":
        return ev(e[1], a) + ev(e[2], a)
    if k == "sub":
        return ev(e[1], a) - ev(e[2], a)
    if k == "mul":
        return ev(e[1], a) * e[2]
    if k == "rmul":
        return e[1] * ev(e[2], a)
    raise ValueError(e)


def holds(c, a):
    k = c[0]
    if k == "rel":
        l, r = ev(c[2], a), ev(c[3], a)
        return (l == r) if c[1] == "==" else (l != r)
    if k == "all_different":
        vals = [a[n] for n in c[1]]
        return len(set(vals)) == len(vals)
    if k in ("sum_eq", "sum_le", "sum_ge"):
        s = sum(a[n] for n in c[1])
        return s == c[2] if k == "sum_eq" else (s <= c[2] if k == "sum_le" else s >= c[2])
    if k == "circuit":
        names = c[1]
        n = len(names)
        succ = [a[x] for x in names]
        if n == 0:
            return True
        if sorted(succ) != list(range(n)):
            return False
        seen, cur = 0, 0
        for _ in range(n):
            cur = succ[cur]
            seen += 1
            if cur == 0:
                break
        return seen == n and cur == 0
    if k == "no_overlap":
        s = [a[x] for x in c[1]]
        d = c[2]
        for i in range(len(s)):
            for j in range(i + 1, len(s)):
                if not (s[i] + d[i] <= s[j] or s[j] + d[j] <= s[i]):
                    return False
        return True
    if k == "cumulative":
        s = [a[x] for x in c[1]]
        d, dem, cap = c[2], c[3], c[4]
        if not s:
            return True
        for t in range(min(s), max(si + di for si, di in zip(s, d)) + 1):
            if sum(dem[i] for i in range(len(s)) if s[i] <= t < s[i] + d[i]) > cap:
                return False
        return True
    raise ValueError(c)


def violated(desc, a):
    """direct (certifying) check of one assignment: [] if `a` gives every declared variable a value inside its
    domain and satisfies every constraint, else a list of what is broken (strings / the constraints themselves)"""
    out = []
    for n, lb, ub in desc["vars"]:
        if n not in a:
            out.append(f"{n} has no value")
        elif not (isinstance(a[n], int) and lb <= a[n] <= ub):
            out.append(f"{n}={a[n]} outside {lb}..{ub}")
    if out:
        return out
    return [c for c in desc["constraints"] if not holds(c, a)]


def max_matching(doms):
    """size of a maximum matching variable -> value (Kuhn's augmenting paths); doms: list of iterables of values.
    all_different(x_0..x_k) with x_i in doms[i] is satisfiable iff the result equals len(doms) (Hall / Konig)."""
    doms = [list(d) for d in doms]
    owner = {}

    def try_(i, seen):
        for v in doms[i]:
            if v in seen:
                continue
            seen.add(v)
            if v not in owner or try_(owner[v], seen):
                owner[v] = i
                return True
        return False

    size = 0
    for i in range(len(doms)):
        if try_(i, set()):
            size += 1
    return size, {i: v for v, i in owner.items()}


def all_solutions(desc, hints=None):
    names = [v[0] for v in desc["vars"]]
    doms = []
    for n, lb, ub in desc["vars"]:
        d = list(range(lb, ub + 1))
        if hints and n in hints and hints[n] in d:
            d = [hints[n]]
        doms.append(d)
    out = []
    for vals in itertools.product(*doms):
        a = dict(zip(names, vals))
        if all(holds(c, a) for c in desc["constraints"]):
            out.append(a)
    return out


# ------------------------------------------------------------------ building the real model
class NotBuildable(Exception):
    pass


def build_expr(e, vars_):
    k = e[0]
    if k == "var":
        return vars_[e[1]]
    if k == "const":
        return e[1]
    if k in ("add", "sub"):
        l, r = build_expr(e[1], vars_), build_expr(e[2], vars_)
        try:
            return l + r if k == "add" else l - r
        except TypeError:
            raise NotBuildable(f"operator not offered by the public API: {e}")
    if k == "mul":
        try:
            return build_expr(e[1], vars_) * e[2]
        except TypeError:
            raise NotBuildable(str(e))
    if k == "rmul":
        try:
            return e[1] * build_expr(e[2], vars_)
        except TypeError:
            raise NotBuildable(str(e))
    raise ValueError(e)


def add_var(m, vs, v):
    """declare one variable [name, lb, ub] on the live model m through the public constructor"""
    n, lb, ub = v
    vs[n] = m.int_var(lb, ub, n)
    return vs[n]


def add_constraint(m, vs, c):
    """add one described constraint to the live model m through the public constructors / operators"""
    k = c[0]
    if k == "rel":
        l, r = build_expr(c[2], vs), build_expr(c[3], vs)
        try:
            con = (l == r) if c[1] == "==" else (l != r)
        except TypeError:
            raise NotBuildable(str(c))
        if isinstance(con, bool) or con is NotImplemented:
            raise NotBuildable(f"comparison does not produce a constraint: {c}")
        m.add(con)
    elif k == "all_different":
        m.add(m.all_different([vs[n] for n in c[1]]))
    elif k in ("sum_eq", "sum_le", "sum_ge"):
        m.add(getattr(m, k)([vs[n] for n in c[1]], c[2]))
    elif k == "circuit":
        m.add(m.circuit([vs[n] for n in c[1]]))
    elif k == "no_overlap":
        m.add(m.no_overlap([vs[n] for n in c[1]], list(c[2])))
    elif k == "cumulative":
        m.add(m.cumulative([vs[n] for n in c[1]], list(c[2]), list(c[3]), c[4]))
    else:
        raise ValueError(c)


def build_model(desc):
    from solvor.cp import Model
    m = Model()
    vs = {}
    for v in desc["vars"]:
        add_var(m, vs, v)
    for c in desc["constraints"]:
        add_constraint(m, vs, c)
    return m, vs

"""Certified bounds on the bin-packing optimum for instances far beyond enumeration (independent of solvor).

Sizes and capacity are non-negative integers (grid units), every size <= capacity.

lower_bound(sizes, cap)        max of three facts that hold for EVERY packing:
                                 - volume: ceil(total / cap) bins are needed;
                                 - big items: two items larger than cap/2 never share a bin;
                                 - a non-empty list needs one bin.
upper_bound(sizes, cap, wit)   `wit` is a planted packing given BY VALUE: a list of bins, each a list of sizes.  It is accepted
                               only after checking that (a) the multiset of its positive entries is the multiset of the positive
                               sizes (so it is a packing of exactly these items, in whatever order they are now listed) and
                               (b) every bin sums to <= cap.  Then OPT <= len(wit).  When the capacity on this call is larger
                               than the one the witness was planted for, whole witness bins are merged first-fit: merging
                               whole bins of a valid packing gives a valid packing (each merged load is checked), still an
                               upper bound.  Returns None when the witness is not a packing of these sizes at this capacity.
opt_range(sizes, cap, wit)     (lo, hi) with lo <= OPT <= hi; lo == hi: the optimum is known.  hi is None without a valid witness.

The generator that plants the witness is NOT trusted: only this checker is.
"""
from __future__ import annotations


def lower_bound(sizes, cap):
    if not sizes:
        return 0
    total = sum(sizes)
    return max(1, -(-total // cap), sum(1 for s in sizes if 2 * s > cap))


def upper_bound(sizes, cap, wit):
    if wit is None:
        return None
    if not sizes:
        return 0
    flat = sorted(s for b in wit for s in b if s > 0)
    if flat != sorted(s for s in sizes if s > 0):
        return None
    loads = [sum(b) for b in wit if any(s > 0 for s in b)]
    if any(l > cap for l in loads):
        return None
    merged = []
    for l in sorted(loads, reverse=True):
        for j, m in enumerate(merged):
            if m + l <= cap:
                merged[j] = m + l
                break
        else:
            merged.append(l)
    assert all(m <= cap for m in merged) and sum(merged) == sum(flat)
    return max(1, len(merged))


def opt_range(sizes, cap, wit=None):
    lo = lower_bound(sizes, cap)
    hi = upper_bound(sizes, cap, wit)
    if hi is not None and hi < lo:
        raise AssertionError("certificate contradiction: a valid packing uses fewer bins than a proven lower bound")
    return lo, hi

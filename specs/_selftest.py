from pyvc.spec import REG
F = "solvor/fake.py"
REG.fn(F, "alias_mut", prop="T", ensures=["result == old(len(a))"], modifies=["a"])
REG.fn(F, "elem_alias", prop="T", requires=["len(m) >= 1", "len(m[0]) >= 1"], ensures=["result == old(m[0][0])"], modifies=["m"])
REG.fn(F, "loop_alias", prop="T", ensures=["result == len(m)"], modifies=["m"])
REG.fn(F, "fine_copy", prop="T", ensures=["result == old(len(a))"])
REG.cls(F, "Acc", fields={"n": "int"})
REG.fn(F, "Acc.__init__", prop="T", ensures=["self.n == 0"], modifies=["self.n"])
REG.fn(F, "Acc.__call__", prop="T", ensures=["self.n == old(self.n) + 1", "result == x"], modifies=["self.n"])
# must NOT be provable: acc.n is k, not 0 (a stale, un-havoced acc.n would make 'result == 0' provable)
REG.fn(F, "loop_calls_object", prop="T", requires=["k >= 0"], ensures=["result == 0"],
       loops={1: __import__("pyvc.spec", fromlist=["LoopSpec"]).LoopSpec(invariants=["acc.n == 0"])})
REG.recfn("lsum_t", [("L", "list[int]"), ("k", "int")], "int", on="k", base="0", step="lsum_t(L, k - 1) + L[k - 1]", group="t")
# must fail: returns the sum plus one
REG.fn(F, "wrong_sum", prop="T", ensures=["result == lsum_t(xs, len(xs))"], lemmas=["t"],
       loops={1: __import__("pyvc.spec", fromlist=["LoopSpec"]).LoopSpec(index="q", invariants=["total == lsum_t(xs, q)"])})
# contract-less straight-line helpers are inlined: the first is proved, the second (helper skips gaps of 1) must fail
REG.fn(F, "smaller_inlined", prop="T", ensures=["result <= x", "result <= y"])
REG.fn(F, "smaller_inlined_wrong", prop="T", ensures=["result <= x", "result <= y"])
# interned string literals (str_literals=True): equal literals are equal, different literals differ - the first is proved,
# the second (a misspelt literal in the code) must be refuted with a counter-model
REG.fn(F, "pick_name", prop="T", types={"req": "opt[opaque]"}, ret="opaque", str_literals=True,
       ensures=["implies(req == 'python', result == 'python')", "implies(req != 'python', result == 'rust')", "result != 'auto'"])
REG.fn(F, "pick_name_wrong", prop="T", types={"req": "opt[opaque]"}, ret="opaque", str_literals=True,
       ensures=["implies(req == 'python', result == 'python')"])

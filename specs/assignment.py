"""Contract for solvor/hungarian.py::solve_hungarian (C10): the optimality certificate of the assignment returned.

Proved for all matrices (A2: entries are finite reals) at the return:
  * `matrix` is the input padded to n x n with zeros (n = max(rows, cols)), costs mirrored through max_val for maximisation;
  * the potentials are DUAL FEASIBLE for the padded matrix: row_potential[r] + col_potential[c] <= matrix[r-1][c-1] for all r, c;
  * every row r in 1..n is matched to a column rm[r] (ghost inverse of col_match) by a TIGHT entry
    (row_potential[r] + col_potential[rm[r]] == matrix[r-1][rm[r]-1]) and no column carries two rows;
  * the returned assignment is that matching restricted to the real rows and columns: entries are -1 or a column index,
    no column is used twice, every real row is assigned when rows <= cols, every real column is used when cols <= rows,
    and the objective is the sum of the chosen entries of the ORIGINAL matrix (spec function `acost`, the one
    `assignment_cost` is proved against).
With the paper lemma 'a perfect matching that is tight for dual feasible potentials is a minimum-cost perfect matching'
(weak duality: every perfect matching costs at least sum(row_potential) + sum(col_potential), a tight one exactly that) and
the padding argument (perfect matchings of the zero-padded square matrix restrict to maximum-cardinality matchings of the
rectangle with the same cost) this is C10's 'the sum is the minimum (maximum) over all such matchings'.  The two paper
lemmas are not machine-checked.  No arithmetic ever involves +-inf (`strict_inf`): in particular the step length `delta`
of the path search is finite, which needs the counting argument 'i-1 matched columns among n leave a free one' (spec
function `nz`, induction lemmas).  Termination of the two `while` loops is not claimed.
"""
from pyvc.spec import REG, LoopSpec
import specs.search  # noqa: Result
import specs.helpers  # noqa: acost

H = "solvor/hungarian.py"
RL = "list[real]"

# nz(A, k): number of indices 1..k with A[index] != 0
REG.recfn("nz", [("A", "map[int,int]"), ("k", "int")], "int", on="k", base="0",
          step="nz(A, k - 1) + (1 if A[k] != 0 else 0)", group="hung")
REG.lemma("nz_store", ["A", "c", "v", "k"],
          "nz(store(A, c, v), k) == nz(A, k) + ((1 if v != 0 else 0) - (1 if A[c] != 0 else 0) if 1 <= c <= k else 0)",
          kind="induction", on="k", group="hung", var_sorts={"A": "map[int,int]"}, trig=["nz(store(A, c, v), k)"])
REG.lemma("nz_free", ["A", "k"], "implies(nz(A, k) < k, exists(c, 1 <= c <= k and A[c] == 0))",
          kind="induction", on="k", group="hung", var_sorts={"A": "map[int,int]"}, trig=["nz(A, k)"])
REG.lemma("nz_range", ["A", "k"], "0 <= nz(A, k) <= k",
          kind="induction", on="k", group="hung", var_sorts={"A": "map[int,int]"}, trig=["nz(A, k)"])
REG.lemma("nz_zero", ["A", "k"], "implies(forall(j, implies(1 <= j <= k, A[j] == 0)), nz(A, k) == 0)",
          kind="induction", on="k", group="hung", var_sorts={"A": "map[int,int]"}, trig=["nz(A, k)"])
REG.lemma("nz_full", ["A", "k"], "implies(nz(A, k) == k, forall(c, implies(1 <= c <= k, A[c] != 0), trig=A[c]))",
          kind="induction", on="k", group="hung", uses=["nz_range"], var_sorts={"A": "map[int,int]"}, trig=["nz(A, k)"])


def fin(x):
    return f"(-inf() < {x} and {x} < inf())"


def red(r, c):  # reduced cost of (row r, column c), 1-based
    return f"(matrix[{r} - 1][{c} - 1] - row_potential[{r}] - col_potential[{c}])"


SHAPE = ["n_rows == len(cost_matrix)", "n_cols == len(cost_matrix[0])", "n_rows >= 1", "n_cols >= 1",
         "n == (n_rows if n_rows >= n_cols else n_cols)", "len(matrix) == n",
         "forall(r, implies(0 <= r < n, len(matrix[r]) == n), trig=matrix[r])"]
PADMIN = "(cost_matrix[{r}][{c}] if ({r} < n_rows and {c} < n_cols) else 0)"
PADMAX = "(max_val - cost_matrix[{r}][{c}] if ({r} < n_rows and {c} < n_cols) else 0)"
MFIN = "forall(r, c, implies(0 <= r < n and 0 <= c < n, " + fin("matrix[r][c]") + "), trig=matrix[r][c])"

VECS = ["len(row_potential) == n + 1", "len(col_potential) == n + 1", "len(col_match) == n + 1", "len(augment_path) == n + 1"]
FEAS = "forall(r, c, implies(1 <= r <= n and 1 <= c <= n and {cond}, row_potential[r] + col_potential[c] <= matrix[r - 1][c - 1]), trig=((row_potential[r], col_potential[c]),))"
FEAS_O = FEAS.format(cond="r < i")                                   # rows already inserted
FEAS_W = FEAS.format(cond="(r < i or (r == i and current_col != 0))")  # the new row becomes feasible with the first step of its search
FEAS_ALL = FEAS.format(cond="True")
FINP = ["forall(r, implies(0 <= r <= n, " + fin("row_potential[r]") + "), trig=row_potential[r])",
        "forall(c, implies(0 <= c <= n, " + fin("col_potential[c]") + "), trig=col_potential[c])"]
APR = "forall(c, implies(0 <= c <= n, 0 <= augment_path[c] <= n), trig=augment_path[c])"
# matching structure.  rm (ghost): column of a row, inverse of col_match
RANGE_O = "forall(c, implies(1 <= c <= n, 0 <= col_match[c] < i), trig=col_match[c])"      # outer head: rows 1..i-1 are matched
INJ = "forall(c, implies(1 <= c <= n and col_match[c] != 0, rm[col_match[c]] == c), trig=col_match[c])"
ROWS = "forall(r, implies(1 <= r <= n, (rm[r] == 0 if r >= i else (1 <= rm[r] <= n and col_match[rm[r]] == r))), trig=rm[r])"
TIGHT = "forall(c, implies(1 <= c <= n and col_match[c] != 0, row_potential[col_match[c]] + col_potential[c] == matrix[col_match[c] - 1][c - 1]), trig=col_match[c])"
COUNT_O = "nz(arr(col_match), n) == i - 1"

OUTER = VECS + [FEAS_O, MFIN] + FINP + [APR, RANGE_O, INJ, ROWS, TIGHT, COUNT_O, "iterations >= 0", "1 <= i", "0 <= col_match[0] <= n"]

TREE_A = "forall(c, implies(1 <= c <= n and (used[c] or c == current_col), used[augment_path[c]] and ordv[augment_path[c]] < ordv[c]), trig=augment_path[c])"
TREE_B = ("forall(c, implies(1 <= c <= n and (used[c] or c == current_col), "
          "row_potential[col_match[augment_path[c]]] + col_potential[c] == matrix[col_match[augment_path[c]] - 1][c - 1]), trig=augment_path[c])")
MSATT = ("forall(c, implies(1 <= c <= n and not used[c], (min_slack[c] == inf() or (used[augment_path[c]] and min_slack[c] == "
         + red("col_match[augment_path[c]]", "c") + "))), trig=min_slack[c])")
MSPOS = "forall(c, implies(1 <= c <= n and not used[c] and {cond}, min_slack[c] >= 0), trig=min_slack[c])"
MSLOW = "forall(c, implies(1 <= c <= n and not used[c], min_slack[c] > -inf()), trig=min_slack[c])"
FIRST = "forall(c, implies(0 <= c <= n and used[c], ordv[0] <= ordv[c]), trig=used[c])"
# ---- the path search (loop 7); col_match is not written in it
W_COMMON = VECS + [FEAS_W] + FINP + [APR, TIGHT, FIRST, "current_col == 0 or used[0]", MSPOS.format(cond="True"), MSLOW, "len(min_slack) == n + 1", "len(used) == n + 1", "iterations >= 0",
    # used columns are matched (column 0 carries row i) and were selected earlier than the current one
    "forall(c, implies(0 <= c <= n and used[c], col_match[c] != 0 and 0 <= ordv[c] < ordv[current_col] and c != current_col), trig=(used[c], col_match[c]))",
    # search tree: a used column c >= 1 was reached from the used column augment_path[c] over a tight entry
    TREE_A, TREE_B,
    # min_slack of an unused column bounds its reduced cost from every used row, is non-negative and attained (if finite) by the row of augment_path
    "forall(u, c, implies(0 <= u <= n and used[u] and 1 <= c <= n and not used[c], min_slack[c] <= " + red("col_match[u]", "c") + "), trig=((used[u], min_slack[c]),))",
    MSATT,
]
FREE = "implies(nz(arr(col_match), n) < n, exists(c, 1 <= c <= n and col_match[c] == 0))"   # i - 1 < n matched columns leave a free one (nz_free)
WHILE7 = W_COMMON + ["0 <= current_col <= n", "ordv[current_col] == iterations", "col_match[0] == i", COUNT_O, FREE]

# ---- loop 8 (scan of the unused columns from the row of current_col, which has just been marked used)
L8 = VECS + [FEAS_W] + FINP + [APR, TIGHT, FIRST, "used[0]", MSPOS.format(cond="current_col != 0"), MSLOW, "-inf() < delta", "len(min_slack) == n + 1", "len(used) == n + 1", "1 <= j",
    "0 <= next_col <= n", "current_col == 0 or delta >= 0", TREE_A, TREE_B,
    "forall(u, c, implies(0 <= u <= n and used[u] and 1 <= c <= n and not used[c] and (u != current_col or c < j), min_slack[c] <= " + red("col_match[u]", "c") + "), trig=((used[u], min_slack[c]),))",
    MSATT,
    "forall(c, implies(1 <= c < j and not used[c], min_slack[c] < inf() and delta <= min_slack[c]), trig=(min_slack[c], col_match[c]))",
    "(next_col == 0 and delta == inf()) or (1 <= next_col < j and not used[next_col] and min_slack[next_col] == delta and delta < inf())",
]

# ---- loop 9 (potential update); rp0, cp0, ms0: snapshots taken before it
L9 = VECS + FINP + ["len(min_slack) == n + 1", "len(used) == n + 1", "0 <= j", "used[0]", "-inf() < delta and delta < inf()",
    "forall(c, implies(1 <= c <= n and not used[c], " + fin("min_slack[c]") + "), trig=min_slack[c])",
    # facts about the snapshots, in the form the feasibility argument uses them (rows instead of columns; constant during the loop)
    "forall(r, c, implies(1 <= r <= i and used[rm[r]] and 1 <= c <= n and not used[c], ms0[c] <= matrix[r - 1][c - 1] - rp0[r] - cp0[c] and delta <= ms0[c]), trig=((rp0[r], cp0[c]),))",
    "forall(r, c, implies(1 <= r <= n and 1 <= c <= n and (r < i or (r == i and current_col != 0)), rp0[r] + cp0[c] <= matrix[r - 1][c - 1]), trig=((rp0[r], cp0[c]),))",
    "current_col != 0 or forall(c, implies(1 <= c <= n, not used[c]), trig=used[c])", "current_col == 0 or delta >= 0",
    # the search tree in terms of the snapshots: edges into used columns are tight, the edge into the column selected next has slack delta
    ("forall(c, implies(1 <= c <= n and (used[c] or c == next_col), used[augment_path[c]] and 1 <= col_match[augment_path[c]] <= i and rm[col_match[augment_path[c]]] == augment_path[c] and "
     "rp0[col_match[augment_path[c]]] + cp0[c] == matrix[col_match[augment_path[c]] - 1][c - 1] - (0 if used[c] else delta)), trig=augment_path[c])"),
    "forall(c, implies(0 <= c <= n, col_potential[c] == cp0[c] - (delta if (used[c] and c < j) else 0)), trig=col_potential[c])",
    "forall(r, implies(0 <= r <= n, row_potential[r] == rp0[r] + (delta if (1 <= r <= i and used[rm[r]] and rm[r] < j) else 0)), trig=row_potential[r])",
    "forall(c, implies(0 <= c <= n, min_slack[c] == ms0[c] - (delta if (not used[c] and c < j) else 0)), trig=min_slack[c])",
]

# ---- loop 10 (augmentation); cm0: col_match before it
L10 = VECS + ["0 <= current_col <= n",
    "forall(c, implies(0 <= c <= n, 0 <= col_match[c] <= i), trig=col_match[c])",
    "col_match[0] == i",
    # columns selected before the current one (and the current one) are untouched so far
    "forall(c, implies(0 <= c <= n and (c == current_col or (used[c] and ordv[c] < ordv[current_col])), col_match[c] == cm0[c]), trig=col_match[c])",
    "current_col == 0 or used[augment_path[current_col]]",
    "current_col == 0 or ordv[augment_path[current_col]] < ordv[current_col]",
    "current_col == 0 or row_potential[cm0[augment_path[current_col]]] + col_potential[current_col] == matrix[cm0[augment_path[current_col]] - 1][current_col - 1]",
    "current_col == 0 or used[current_col] or cm0[current_col] == 0",
    # matching structure, the current column being the one whose row is about to be replaced
    "forall(c, implies(1 <= c <= n and c != current_col and col_match[c] != 0, rm[col_match[c]] == c), trig=col_match[c])",
    "forall(r, implies(1 <= r <= n, (rm[r] == 0 if (r > i or (r == i and current_col != 0)) else (1 <= rm[r] <= n and col_match[rm[r]] == r and rm[r] != current_col))), trig=rm[r])",
    "forall(c, implies(1 <= c <= n and c != current_col and col_match[c] != 0, row_potential[col_match[c]] + col_potential[c] == matrix[col_match[c] - 1][c - 1]), trig=col_match[c])",
    "nz(arr(col_match), n) == (i - 1 if (current_col != 0 and col_match[current_col] == 0) else i)",
]

REG.fn(H, "solve_hungarian", prop="C10", ret="Result[list[int]]", strict_inf=True, shards=14, lemmas=["hung", "acost"],
       types={"cost_matrix": "list[list[real]]", "matrix": "list[list[real]]", "_comp1": "list[list[real]]",
              "row_potential": RL, "col_potential": RL, "col_match": "list[int]", "augment_path": "list[int]",
              "min_slack": RL, "used": "list[bool]", "assignment": "list[int]", "rm": "map[int,int]", "ordv": "map[int,int]",
              "rp0": RL, "cp0": RL, "ms0": RL, "cm0": "list[int]",
              "delta": "real", "reduced_cost": "real", "total_cost": "real", "max_val": "real"},
       requires=[
           # rectangular, finite entries
           "forall(i, implies(0 <= i < len(cost_matrix), len(cost_matrix[i]) == len(cost_matrix[0])), trig=cost_matrix[i])",
           "forall(i, j, implies(0 <= i < len(cost_matrix) and 0 <= j < len(cost_matrix[0]), " + fin("cost_matrix[i][j]") + "), trig=cost_matrix[i][j])",
       ],
       ghost_before=[("row_potential = [0.0]", "rm", "lam(r, 0)"), ("row_potential = [0.0]", "ordv", "lam(r, 0)"),
                     ("for j in range(n + 1):", "rp0", "row_potential"), ("for j in range(n + 1):", "cp0", "col_potential"),
                     ("for j in range(n + 1):", "ms0", "min_slack"),
                     ("while current_col != 0:", "cm0", "col_match")],
       ghost_after=[("current_col = 0", "ordv", "store(ordv, 0, iterations)"),
                    ("current_col = next_col", "ordv", "store(ordv, current_col, iterations)"),
                    ("col_match[current_col] = col_match[prev_col]", "rm", "store(rm, col_match[current_col], current_col)")],
       ensures=[
           "implies(len(cost_matrix) == 0 or len(cost_matrix[0]) == 0, len(result.solution) == 0 and result.objective == 0)",
           # --- the assignment
           "implies(defined('assignment'), len(result.solution) == len(cost_matrix))",
           "implies(defined('assignment'), forall(k, implies(0 <= k < n_rows, result.solution[k] == -1 or 0 <= result.solution[k] < n_cols), trig=result.solution[k]))",
           "implies(defined('assignment'), forall(k, m, implies(0 <= k < n_rows and 0 <= m < n_rows and k != m and result.solution[k] != -1, result.solution[k] != result.solution[m]), trig=((result.solution[k], result.solution[m]),)))",
           "implies(defined('assignment'), implies(n_rows <= n_cols, forall(k, implies(0 <= k < n_rows, result.solution[k] != -1), trig=result.solution[k])))",
           "implies(defined('assignment'), implies(n_cols <= n_rows, forall(c, implies(1 <= c <= n_cols, 1 <= col_match[c] <= n_rows and result.solution[col_match[c] - 1] == c - 1), trig=col_match[c])))",
           "implies(defined('assignment'), result.objective == acost(cost_matrix, result.solution, n_rows))",
           # --- the certificate: padded matrix, dual feasible potentials, a tight row-perfect matching that the assignment restricts
           "implies(defined('assignment'), implies(minimize, forall(r, c, implies(0 <= r < n and 0 <= c < n, matrix[r][c] == " + PADMIN.format(r="r", c="c") + "), trig=matrix[r][c])))",
           "implies(defined('assignment'), implies(not minimize, forall(r, c, implies(0 <= r < n and 0 <= c < n, matrix[r][c] == " + PADMAX.format(r="r", c="c") + "), trig=matrix[r][c])))",
           "implies(defined('assignment'), " + FEAS_ALL + ")",
           "implies(defined('assignment'), forall(r, implies(1 <= r <= n, 1 <= rm[r] <= n and col_match[rm[r]] == r and row_potential[r] + col_potential[rm[r]] == matrix[r - 1][rm[r] - 1]), trig=rm[r]))",
           "implies(defined('assignment'), forall(c, implies(1 <= c <= n and col_match[c] != 0, rm[col_match[c]] == c), trig=col_match[c]))",
           "implies(defined('assignment'), forall(k, implies(0 <= k < n_rows, result.solution[k] == (rm[k + 1] - 1 if rm[k + 1] <= n_cols else -1)), trig=result.solution[k]))",
       ],
       loops={
           1: LoopSpec(invariants=["len(_comp1) == _", "forall(r, implies(0 <= r < _, len(_comp1[r]) == n), trig=_comp1[r])",
                                   "forall(r, c, implies(0 <= r < _ and 0 <= c < n, _comp1[r][c] == 0), trig=_comp1[r][c])"]),
           2: LoopSpec(invariants=SHAPE + [MFIN,
               "forall(r, c, implies(0 <= r < n and 0 <= c < n, matrix[r][c] == (cost_matrix[r][c] if (r < i and c < n_cols) else 0)), trig=matrix[r][c])"]),
           3: LoopSpec(invariants=SHAPE + [MFIN, "0 <= i < n_rows",
               "forall(r, c, implies(0 <= r < n and 0 <= c < n, matrix[r][c] == (cost_matrix[r][c] if ((r < i and c < n_cols) or (r == i and c < j)) else 0)), trig=matrix[r][c])"]),
           4: LoopSpec(invariants=SHAPE + [MFIN, "-inf() < max_val and max_val < inf()",
               "forall(r, c, implies(0 <= r < n and 0 <= c < n, matrix[r][c] == (" + PADMAX.format(r="r", c="c") + " if r < i else " + PADMIN.format(r="r", c="c") + ")), trig=matrix[r][c])"]),
           5: LoopSpec(invariants=SHAPE + [MFIN, "-inf() < max_val and max_val < inf()", "0 <= i < n",
               "forall(r, c, implies(0 <= r < n and 0 <= c < n, matrix[r][c] == (" + PADMAX.format(r="r", c="c") + " if (r < i or (r == i and c < j)) else " + PADMIN.format(r="r", c="c") + ")), trig=matrix[r][c])"]),
           6: LoopSpec(invariants=OUTER),
           7: LoopSpec(invariants=WHILE7),
           8: LoopSpec(invariants=L8),
           9: LoopSpec(invariants=L9),
           10: LoopSpec(invariants=L10),
           11: LoopSpec(invariants=["len(assignment) == n_rows", "1 <= j",
               "forall(k, implies(0 <= k < n_rows, assignment[k] == (rm[k + 1] - 1 if (rm[k + 1] < j and rm[k + 1] <= n_cols) else -1)), trig=assignment[k])"]),
           12: LoopSpec(invariants=["total_cost == acost(cost_matrix, assignment, i)", "-inf() < total_cost and total_cost < inf()"]),
       })

"""Contracts for solvor/utils/data_structures.py (property C20; UnionFind also serves C13)."""
from pyvc.spec import REG, LoopSpec

F = "solvor/utils/data_structures.py"

# ------------------------------------------------------------------ UnionFind
REG.cls(F, "UnionFind", fields={"_parent": "list[int]", "_rank": "list[int]", "_count": "int"},
        ghost={"rep": "map[int,int]", "pot": "map[int,int]"})

# number of roots among the first k elements (recursive spec function) and its point-update lemma
REG.recfn("nroots", [("P", "map[int,int]"), ("k", "int")], "int", on="k", base="0",
          step="nroots(P, k - 1) + (1 if P[k - 1] == k - 1 else 0)", group="uf")
REG.lemma("nroots_store", ["P", "i", "v", "k"],
          "implies(i >= 0, nroots(store(P, i, v), k) == nroots(P, k) - (1 if (i < k and P[i] == i) else 0) + (1 if (i < k and v == i) else 0))",
          kind="induction", on="k", group="uf", var_sorts={"P": "map[int,int]"},
          trig=["nroots(store(P, i, v), k)"])
REG.lemma("nroots_id", ["P", "k"], "implies(forall(j, implies(0 <= j < k, P[j] == j)), nroots(P, k) == k)",
          kind="induction", on="k", group="uf", var_sorts={"P": "map[int,int]"}, trig=["nroots(P, k)"])

# representation invariant; `rep` is the ghost representative map (the abstract view is the partition
# {j ~ k  iff  rep[j] == rep[k]}).  Triggers are restricted to _parent[j] / rep[j] (DESIGN 1.3).
REG.define("uf_inv", ["self"], [
    "len(self._rank) == len(self._parent)",
    # _count is the number of roots, i.e. of classes (each class has exactly one root: its representative)
    "self._count == nroots(arr(self._parent), len(self._parent))",
    "forall(j, implies(0 <= j < len(self._parent), 0 <= self._parent[j] < len(self._parent)), trig=self._parent[j])",
    "forall(j, implies(0 <= j < len(self._parent), 0 <= self.rep[j] < len(self._parent)), trig=self.rep[j])",
    "forall(j, implies(0 <= j < len(self._parent), self._parent[self.rep[j]] == self.rep[j]), trig=self.rep[j])",
    "forall(j, implies(0 <= j < len(self._parent), self.rep[self._parent[j]] == self.rep[j]), trig=self._parent[j])",
    "forall(j, implies(0 <= j < len(self._parent) and self._parent[j] == j, self.rep[j] == j), trig=self._parent[j])",
    # acyclicity by a ghost potential that strictly decreases along parent links (independent of the
    # union-by-rank heuristic: ranks only affect speed, not the partition)
    "forall(j, implies(0 <= j < len(self._parent), self.pot[j] >= 0), trig=self.pot[j])",
    "forall(j, implies(0 <= j < len(self._parent) and self._parent[j] != j, self.pot[self._parent[j]] < self.pot[j]), trig=self._parent[j])",
])

REG.fn(F, "UnionFind.__init__", prop="C20", lemmas=["uf"],
       requires=["n >= 0"],
       ensures=["uf_inv(self)", "len(self._parent) == n", "self._count == n",
                "forall(j, self.rep[j] == j)"],
       modifies=["self._parent", "self._rank", "self._count", "self.rep", "self.pot"],
       ghost_return={"self.rep": "lam(j, j)", "self.pot": "lam(j, 0)"})

REG.fn(F, "UnionFind.find", prop="C20", lemmas=["uf"],
       requires=["0 <= x < len(self._parent)", "uf_inv(self)"],
       ensures=["result == self.rep[x]", "uf_inv(self)", "self.pot[result] <= self.pot[x]",
                "len(self._parent) == old(len(self._parent))",
                "forall(j, implies(0 <= j < len(self._parent), self._parent[j] == old(self._parent[j]) or self._parent[j] == self.rep[j]), trig=self._parent[j])"],
       modifies=["self._parent"],
       decreases="self.pot[x]")

REG.fn(F, "UnionFind.union", prop="C20", lemmas=["uf"],
       requires=["0 <= x < len(self._parent)", "0 <= y < len(self._parent)", "uf_inv(self)"],
       ensures=["result == (old(self.rep[x]) != old(self.rep[y]))",
                "uf_inv(self)",
                "len(self._parent) == old(len(self._parent))",
                # whole-view postcondition: exactly the classes of x and y are merged, nothing else moves
                "self.rep[x] == old(self.rep[x]) or self.rep[x] == old(self.rep[y])",
                "forall(j, implies(0 <= j < len(self._parent), self.rep[j] == (self.rep[x] if (old(self.rep[j]) == old(self.rep[x]) or old(self.rep[j]) == old(self.rep[y])) else old(self.rep[j]))), trig=old(self.rep[j]))",
                "self._count == old(self._count) - (1 if result else 0)"],
       modifies=["self._parent", "self._rank", "self._count", "self.rep", "self.pot"],
       ghost_return={"self.rep": "lam(j, rx if old(self.rep)[j] == ry else old(self.rep)[j])",
                     "self.pot": "lam(j, (old(self.pot)[j] + old(self.pot)[rx] + 1) if (old(self.rep)[j] == ry and rx != ry) else old(self.pot)[j])"})

REG.fn(F, "UnionFind.connected", prop="C20", lemmas=["uf"],
       requires=["0 <= x < len(self._parent)", "0 <= y < len(self._parent)", "uf_inv(self)"],
       ensures=["result == (self.rep[x] == self.rep[y])", "uf_inv(self)",
                "len(self._parent) == old(len(self._parent))"],
       modifies=["self._parent"])

REG.fn(F, "UnionFind.component_count", prop="C20", lemmas=["uf"],
       requires=["uf_inv(self)"],
       ensures=["result == self._count", "result == nroots(arr(self._parent), len(self._parent))"])

REG.fn(F, "UnionFind.__len__", prop="C20", lemmas=["uf"],
       requires=["uf_inv(self)"], ensures=["result == len(self._parent)"])

# ------------------------------------------------------------------ FenwickTree
# up(i) = i | (i+1), lo(i) = i & (i+1) (recognised syntactically by the translator, bridge A9).
# cov(j, x) := lo(j) <= x <= j  ("node j covers position x").  Lemmas are proved at BV64 on every run.
REG.deffn("cov", ["j", "x"], "lo(j) <= x and x <= j", group="fenwick")
REG.lemma("lo_le", ["i"], "0 <= lo(i) and lo(i) <= i", kind="bv64", group="fenwick", trig=["lo(i)"])
REG.lemma("up_gt", ["i"], "up(i) > i", kind="bv64", group="fenwick", trig=["up(i)"])
REG.lemma("between_not_cov", ["i", "j", "x"],
          "implies(cov(i, x) and i < j and j < up(i), not cov(j, x))",
          kind="bv64", group="fenwick", trig=["cov(i, x)", "cov(j, x)"])
REG.lemma("beyond_cov", ["i", "j", "x"],
          "implies(cov(i, x) and j >= up(i), iff(cov(j, x), cov(j, up(i))))",
          kind="bv64", group="fenwick", trig=["cov(i, x)", "cov(j, x)"])

REG.cls(F, "FenwickTree", fields={"_tree": "list[real]", "_n": "int"}, ghost={"S": "map[int,real]"})

# S = ghost prefix sums of the abstract array a[k] = S[k+1] - S[k]
REG.define("ft_inv", ["self"], [
    "0 <= self._n < 4611686018427387904",
    "len(self._tree) == self._n",
    "self.S[0] == 0",
    "forall(j, implies(0 <= j < self._n, self._tree[j] == self.S[j + 1] - self.S[lo(j)]), trig=self._tree[j])",
])

REG.fn(F, "FenwickTree.__init__", prop="C20", variants=[{"values": "int"}],
       requires=["0 <= values < 4611686018427387904"],
       ensures=["ft_inv(self)", "self._n == values", "forall(k, self.S[k] == 0)"],
       modifies=["self._tree", "self._n", "self.S"],
       ghost_return={"self.S": "lam(k, 0.0)"}, lemmas=["fenwick"])

REG.fn(F, "FenwickTree.update", prop="C20", types={"delta": "real"},
       requires=["0 <= i < self._n", "ft_inv(self)"],
       ensures=["ft_inv(self)", "self._n == old(self._n)",
                # the abstract array changes at position i only: S'[k] = S[k] + delta*[k > i]
                "forall(k, self.S[k] == old(self.S[k]) + (delta if k > old(i) else 0))"],
       modifies=["self._tree", "self.S"],
       ghost_return={"self.S": "lam(k, old(self.S)[k] + (delta if k > old(i) else 0))"},
       lemmas=["fenwick"],
       loops={1: LoopSpec(invariants=[
           "i >= old(i)", "len(self._tree) == self._n",
           "i >= self._n or cov(i, old(i))",
           "forall(j, implies(0 <= j < self._n and j < i, self._tree[j] == old(self._tree)[j] + (delta if cov(j, old(i)) else 0)), trig=self._tree[j])",
           "forall(j, implies(0 <= j < self._n and j >= i, self._tree[j] == old(self._tree)[j]), trig=self._tree[j])",
       ], decreases="self._n - i")})

REG.fn(F, "FenwickTree.prefix", prop="C20",
       requires=["-1 <= i < self._n", "ft_inv(self)"],
       ensures=["result == self.S[i + 1]"],
       lemmas=["fenwick"],
       loops={1: LoopSpec(invariants=["-1 <= i <= old(i)", "total == self.S[old(i) + 1] - self.S[i + 1]"],
                          decreases="i + 1")})

REG.fn(F, "FenwickTree.range_sum", prop="C20",
       requires=["0 <= left <= self._n", "-1 <= right < self._n", "ft_inv(self)"],
       ensures=["result == self.S[right + 1] - self.S[left]"],
       lemmas=["fenwick"])

REG.fn(F, "FenwickTree.__len__", prop="C20", requires=["ft_inv(self)"], ensures=["result == self._n"])

"""Contracts for solvor/utils/data_structures.py (property C20; UnionFind also serves C13)."""
from pyvc.spec import REG, LoopSpec

F = "solvor/utils/data_structures.py"

# ------------------------------------------------------------------ UnionFind
REG.cls(F, "UnionFind", fields={"_parent": "list[int]", "_rank": "list[int]", "_count": "int"},
        ghost={"rep": "map[int,int]", "pot": "map[int,int]"})

# representation invariant; `rep` is the ghost representative map (the abstract view is the partition
# {j ~ k  iff  rep[j] == rep[k]}).  Triggers are restricted to _parent[j] / rep[j] (DESIGN 1.3).
REG.define("uf_inv", ["self"], [
    "len(self._rank) == len(self._parent)",
    "forall(j, implies(0 <= j < len(self._parent), 0 <= self._parent[j] < len(self._parent)), trig=self._parent[j])",
    "forall(j, implies(0 <= j < len(self._parent), 0 <= self.rep[j] < len(self._parent)), trig=self.rep[j])",
    "forall(j, implies(0 <= j < len(self._parent), self._parent[self.rep[j]] == self.rep[j]), trig=self.rep[j])",
    "forall(j, implies(0 <= j < len(self._parent), self.rep[self._parent[j]] == self.rep[j]), trig=self._parent[j])",
    "forall(j, implies(0 <= j < len(self._parent) and self._parent[j] == j, self.rep[j] == j), trig=self._parent[j])",
    # acyclicity by a ghost potential that strictly decreases along parent links (independent of the
    # union-by-rank heuristic: ranks only affect speed, not the partition)
    "forall(j, implies(0 <= j < len(self._parent), self.pot[j] >= 0), trig=self.pot[j])",
    "forall(j, implies(0 <= j < len(self._parent) and self._parent[j] != j, self.pot[self._parent[j]] < self.pot[j]), trig=self._parent[j])",
])

REG.fn(F, "UnionFind.__init__", prop="C20",
       requires=["n >= 0"],
       ensures=["uf_inv(self)", "len(self._parent) == n", "self._count == n",
                "forall(j, self.rep[j] == j)"],
       modifies=["self._parent", "self._rank", "self._count", "self.rep", "self.pot"],
       ghost_return={"self.rep": "lam(j, j)", "self.pot": "lam(j, 0)"})

REG.fn(F, "UnionFind.find", prop="C20",
       requires=["0 <= x < len(self._parent)", "uf_inv(self)"],
       ensures=["result == self.rep[x]", "uf_inv(self)", "self.pot[result] <= self.pot[x]",
                "len(self._parent) == old(len(self._parent))",
                "forall(j, implies(0 <= j < len(self._parent), self._parent[j] == old(self._parent[j]) or self._parent[j] == self.rep[j]), trig=self._parent[j])"],
       modifies=["self._parent"],
       decreases="self.pot[x]")

REG.fn(F, "UnionFind.union", prop="C20",
       requires=["0 <= x < len(self._parent)", "0 <= y < len(self._parent)", "uf_inv(self)"],
       ensures=["result == (old(self.rep[x]) != old(self.rep[y]))",
                "uf_inv(self)",
                "len(self._parent) == old(len(self._parent))",
                # whole-view postcondition: exactly the classes of x and y are merged, nothing else moves
                "self.rep[x] == old(self.rep[x]) or self.rep[x] == old(self.rep[y])",
                "forall(j, implies(0 <= j < len(self._parent), self.rep[j] == (self.rep[x] if (old(self.rep[j]) == old(self.rep[x]) or old(self.rep[j]) == old(self.rep[y])) else old(self.rep[j]))), trig=old(self.rep[j]))",
                "self._count == old(self._count) - (1 if result else 0)"],
       modifies=["self._parent", "self._rank", "self._count", "self.rep", "self.pot"],
       ghost_return={"self.rep": "lam(j, rx if old(self.rep)[j] == ry else old(self.rep)[j])",
                     "self.pot": "lam(j, (old(self.pot)[j] + old(self.pot)[rx] + 1) if (old(self.rep)[j] == ry and rx != ry) else old(self.pot)[j])"})

REG.fn(F, "UnionFind.connected", prop="C20",
       requires=["0 <= x < len(self._parent)", "0 <= y < len(self._parent)", "uf_inv(self)"],
       ensures=["result == (self.rep[x] == self.rep[y])", "uf_inv(self)",
                "len(self._parent) == old(len(self._parent))"],
       modifies=["self._parent"])

REG.fn(F, "UnionFind.component_count", prop="C20",
       requires=["uf_inv(self)"], ensures=["result == self._count"])

REG.fn(F, "UnionFind.__len__", prop="C20",
       requires=["uf_inv(self)"], ensures=["result == len(self._parent)"])

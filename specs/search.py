"""Contracts for the book-keeping of the search heuristics (property C19): Evaluator and the main loops.

The user's objective is the uninterpreted deterministic function f (assumption A4), other callbacks
(neighbourhood, cooling schedule, progress callback) return arbitrary values, the seeded Random instance
returns arbitrary values of the documented range: a discharged obligation therefore holds for every
objective, every callback behaviour, every seed and every iteration count.
Ghost field Evaluator.seen = set of solutions the objective was evaluated on.
"""
from pyvc.spec import REG, LoopSpec

H = "solvor/utils/helpers.py"

REG.record("Result", {"solution": "$T", "objective": "real", "iterations": "int", "evaluations": "int", "status": "int"},
           defaults={"iterations": "0", "evaluations": "0", "status": "1"})
REG.callback("f", ["U<T>"], "real", pure=True)       # objective_fn
REG.callback("nbr", ["U<T>"], "U<T>", pure=False)    # neighbors(solution)
REG.callback("sched", ["real", "int", "int"], "real", pure=False)  # cooling schedule

REG.cls(H, "Evaluator", fields={"objective_fn": "fun:f", "sign": "int", "evals": "int"},
        ghost={"seen": "map[U<T>,bool]"})

REG.fn(H, "Evaluator.__init__", prop="C19", types={"objective_fn": "fun:f"},
       ensures=["self.sign == (1 if minimize else -1)", "self.evals == 0",
                "forall(s, not self.seen[s], sorts={'s': 'U<T>'}, trig=self.seen[s])"],
       modifies=["self.objective_fn", "self.sign", "self.evals", "self.seen"],
       ghost_return={"self.seen": "lam(s, False, sort='U<T>')"})

REG.fn(H, "Evaluator.__call__", prop="C19", ret="real",
       requires=["self.sign == 1 or self.sign == -1"],
       ensures=["result == (f(sol) if self.sign == 1 else -f(sol))",
                "self.evals == old(self.evals) + 1",
                "self.seen[sol]",
                "forall(s, implies(s != sol, self.seen[s] == old(self.seen)[s]), sorts={'s': 'U<T>'}, trig=self.seen[s])"],
       modifies=["self.evals", "self.seen"],
       ghost_return={"self.seen": "store(old(self.seen), sol, True)"})

REG.fn(H, "Evaluator.to_user", prop="C19", types={"internal_obj": "real"}, ret="real",
       requires=["self.sign == 1 or self.sign == -1"],
       ensures=["result == (internal_obj if self.sign == 1 else -internal_obj)"])

# progress reporting: the user's callback may do anything to its own world; it cannot reach the solver's
# locals (A4).  Contract assumed, body not verified.
REG.fn(H, "report_progress", prop="C19", trusted=True, ret="bool",
       types={"on_progress": "opaque", "current_obj": "real", "best_obj": "real"},
       note="returns an arbitrary Boolean; no effect on solver state")

A = "solvor/anneal.py"
BOOK = [
    # the reported objective is f at the reported solution, in the user's own sign
    "result.objective == f(result.solution)",
    # ... and at least as good as every candidate that was evaluated (hence as the start point)
    "forall(s, implies(evaluate.seen[s], (result.objective <= f(s)) if minimize else (result.objective >= f(s))), sorts={'s': 'U<T>'}, trig=evaluate.seen[s])",
    "evaluate.seen[initial]",
    "result.evaluations == evaluate.evals",
]
REG.fn(A, "anneal", prop="C19", ret="Result[U<T>]",
       types={"objective_fn": "fun:f", "neighbors": "fun:nbr", "cooling": "real", "on_progress": "opaque",
              "schedule": "fun:sched", "rng": "rng", "temperature": "real", "min_temp": "real"},
       requires=["min_temp > 0"],
       ensures=BOOK,
       loops={1: LoopSpec(invariants=[
           "evaluate.sign == (1 if minimize else -1)",
           "obj == (f(solution) if minimize else -f(solution))",
           "best_obj == (f(best_solution) if minimize else -f(best_solution))",
           "forall(s, implies(evaluate.seen[s], best_obj <= (f(s) if minimize else -f(s))), sorts={'s': 'U<T>'}, trig=evaluate.seen[s])",
           "best_obj <= obj",  # what makes a rejected neighbour (delta >= 0) no better than the best
           "evaluate.seen[initial]", "evaluate.evals >= 1",
       ])})

# ------------------------------------------------------------------ lns / alns
L = "solvor/lns.py"
REG.callback("destroy", ["U<T>", "rng"], "U<T>", pure=False)
REG.callback("repair", ["U<T>", "rng"], "U<T>", pure=False)
REG.callback("acceptfn", ["real", "real", "int", "rng"], "bool", pure=False)

LNS_INV = [
    "evaluate.sign == (1 if minimize else -1)",
    "current_obj == (f(current) if minimize else -f(current))",
    "best_obj == (f(best_solution) if minimize else -f(best_solution))",
    "forall(s, implies(evaluate.seen[s], best_obj <= (f(s) if minimize else -f(s))), sorts={'s': 'U<T>'}, trig=evaluate.seen[s])",
    "evaluate.seen[initial]", "evaluate.evals >= 1",
]
REG.fn(L, "lns", prop="C19", ret="Result[U<T>]",
       types={"objective_fn": "fun:f", "destroy": "fun:destroy", "repair": "fun:repair", "accept": "opaque",
              "accept_fn": "fun:acceptfn", "on_progress": "opaque", "rng": "rng", "start_temp": "real", "cooling_rate": "real"},
       ensures=BOOK, loops={1: LoopSpec(invariants=LNS_INV)})

REG.fn(L, "alns.select_weighted", prop="C19", captures={"rng": "rng"},
       requires=["len(weights) >= 1"], ensures=["0 <= result < len(weights)"])
REG.fn(L, "alns.update_weights", prop="C19", captures={"reaction_factor": "real"},
       requires=["len(scores) == len(weights)", "len(counts) == len(weights)"],
       ensures=["len(weights) == old(len(weights))", "len(scores) == old(len(scores))", "len(counts) == old(len(counts))"],
       modifies=["weights", "scores", "counts"],
       loops={1: LoopSpec(invariants=["len(weights) == old(len(weights))", "len(scores) == old(len(scores))",
                                      "len(counts) == old(len(counts))"])})

REG.fn(L, "alns", prop="C19", ret="Result[U<T>]", raises_ok=True,
       types={"objective_fn": "fun:f", "destroy_ops": "funs:destroy", "repair_ops": "funs:repair", "accept": "opaque",
              "accept_fn": "fun:acceptfn", "on_progress": "opaque", "rng": "rng", "start_temp": "real",
              "cooling_rate": "real", "reaction_factor": "real", "score_best": "real", "score_better": "real",
              "score_accept": "real"},
       requires=["segment_size > 0",
                 # a weight vector, when given, matches its operator list (otherwise an operator index can be out of range)
                 "is_none(destroy_weights) or len(val(destroy_weights)) == 0 or len(val(destroy_weights)) == len(destroy_ops)",
                 "is_none(repair_weights) or len(val(repair_weights)) == 0 or len(val(repair_weights)) == len(repair_ops)"],
       ensures=BOOK,
       loops={1: LoopSpec(invariants=LNS_INV + [
           "n_destroy == len(destroy_ops)", "n_repair == len(repair_ops)", "n_destroy >= 1", "n_repair >= 1",
           "len(d_weights) == n_destroy", "len(d_scores) == n_destroy", "len(d_counts) == n_destroy",
           "len(r_weights) == n_repair", "len(r_scores) == n_repair", "len(r_counts) == n_repair"])})

# ------------------------------------------------------------------ tabu_search
TB = "solvor/tabu.py"
REG.callback("tnbr", ["U<T>"], "list[tuple[U<M>,U<T>]]", pure=False)
SF = "(f({0}) if minimize else -f({0}))"
REG.fn(TB, "tabu_search", prop="C19", ret="Result[U<T>]",
       types={"objective_fn": "fun:f", "neighbors": "fun:tnbr", "on_progress": "opaque", "rng": "rng",
              "tabu_list": "opaque", "tabu_set": "opaque", "best_move": "opt[U<M>]", "best_neighbor": "opt[U<T>]",
              "best_neighbor_obj": "real"},
       # A2: objective values are finite (float('inf') is only used as 'no candidate yet')
       requires=["forall(s, f(s) < inf() and -f(s) < inf(), sorts={'s': 'U<T>'}, trig=f(s))"],
       ensures=BOOK,
       loops={1: LoopSpec(invariants=[
                  "evaluate.sign == (1 if minimize else -1)",
                  "obj == " + SF.format("solution"), "best_obj == " + SF.format("best_solution"),
                  "forall(s, implies(evaluate.seen[s], best_obj <= " + SF.format("s") + "), sorts={'s': 'U<T>'}, trig=evaluate.seen[s])",
                  "evaluate.seen[initial]", "evaluate.evals >= 1"]),
              2: LoopSpec(invariants=[
                  "evaluate.sign == (1 if minimize else -1)",
                  "obj == " + SF.format("solution"), "best_obj == " + SF.format("best_solution"),
                  "forall(s, implies(evaluate.seen[s], best_obj <= " + SF.format("s") + " or best_neighbor_obj <= " + SF.format("s") + "), sorts={'s': 'U<T>'}, trig=evaluate.seen[s])",
                  "implies(is_none(best_neighbor), best_neighbor_obj == inf())",
                  "implies(not is_none(best_neighbor), best_neighbor_obj == " + SF.format("val(best_neighbor)") + ")",
                  "evaluate.seen[initial]", "evaluate.evals >= 1"])})

# ------------------------------------------------------------------ evolve (genetic algorithm)
G = "solvor/genetic.py"
REG.record("Individual", {"solution": "U<T>", "fitness": "real"})
REG.callback("cross", ["U<T>", "U<T>"], "U<T>", pure=False)
REG.callback("mut", ["U<T>"], "U<T>", pure=False)

REG.fn(G, "evolve.tournament", prop="C19", ret="Individual",
       captures={"pop": "list[Individual]", "rng": "rng", "tournament_k": "int"},
       requires=["len(pop) >= 1", "tournament_k >= 1"],
       ensures=["exists(i, 0 <= i < len(pop) and result == pop[i])"])

FIT = "{0}.fitness == (f({0}.solution) if minimize else -f({0}.solution))"
POP_OK = "forall(i, implies(0 <= i < len(pop), " + FIT.format("pop[i]") + "), trig=pop[i])"
SFS = "(f(s) if minimize else -f(s))"
REG.fn(G, "evolve", prop="C19", ret="Result[U<T>]",
       types={"objective_fn": "fun:f", "crossover": "fun:cross", "mutate": "fun:mut", "on_progress": "opaque", "rng": "rng",
              "mutation_rate": "real", "current_mutation_rate": "real", "_comp1": "list[Individual]",
              "pop": "list[Individual]", "new_pop": "list[Individual]", "m1": "real", "m2": "real"},
       requires=["len(population) >= 1", "tournament_k >= 1", "elite_size >= 0",
                 "forall(s, f(s) < inf() and -f(s) < inf(), sorts={'s': 'U<T>'}, trig=f(s))"],
       ensures=["result.objective == f(result.solution)",
                "forall(s, implies(evaluate.seen[s], (result.objective <= f(s)) if minimize else (result.objective >= f(s))), sorts={'s': 'U<T>'}, trig=evaluate.seen[s])",
                # every member of the starting population was evaluated (so the result is at least as good as each of them)
                "forall(i, implies(0 <= i < len(population), evaluate.seen[population[i]]), trig=population[i])",
                "result.evaluations == evaluate.evals"],
       # ghost running minima: m1 over the initial population while it is evaluated, m2 over the children of one generation
       ghost_before=[("pop = [Individual(", "m1", "inf()"), ("while len(new_pop) < pop_size", "m2", "inf()")],
       loops={
           1: LoopSpec(index="q", ghost={"m1": "min(m1, _comp1[len(_comp1) - 1].fitness)"}, invariants=[
               "evaluate.sign == (1 if minimize else -1)", "len(_comp1) == q",
               "forall(i, implies(0 <= i < q, " + FIT.format("_comp1[i]") + " and _comp1[i].solution == population[i] and evaluate.seen[population[i]]), trig=_comp1[i])",
               "forall(s, implies(evaluate.seen[s], m1 <= " + SFS + "), sorts={'s': 'U<T>'}, trig=evaluate.seen[s])",
               "m1 == inf() or exists(i, 0 <= i < q and _comp1[i].fitness == m1)"]),
           2: LoopSpec(invariants=[
               "evaluate.sign == (1 if minimize else -1)", "pop_size == len(population)", "len(pop) >= 1", POP_OK,
               "best_fitness == (f(best_solution) if minimize else -f(best_solution))",
               "forall(s, implies(evaluate.seen[s], best_fitness <= " + SFS + "), sorts={'s': 'U<T>'}, trig=evaluate.seen[s])",
               "forall(i, implies(0 <= i < len(population), evaluate.seen[population[i]]), trig=population[i])"]),
           3: LoopSpec(ghost={"m2": "min(m2, new_pop[len(new_pop) - 1].fitness)"}, invariants=[
               "evaluate.sign == (1 if minimize else -1)", "pop_size == len(population)", "len(pop) >= 1", POP_OK,
               "best_fitness == (f(best_solution) if minimize else -f(best_solution))",
               "forall(i, implies(0 <= i < len(new_pop), " + FIT.format("new_pop[i]") + "), trig=new_pop[i])",
               "forall(s, implies(evaluate.seen[s], best_fitness <= " + SFS + " or m2 <= " + SFS + "), sorts={'s': 'U<T>'}, trig=evaluate.seen[s])",
               "m2 == inf() or exists(i, 0 <= i < len(new_pop) and new_pop[i].fitness == m2)",
               "forall(i, implies(0 <= i < len(population), evaluate.seen[population[i]]), trig=population[i])"]),
       })

"""Contract for solvor/bellman_ford.py::bellman_ford (C11): the distance certificate (DESIGN appendix A.4).

Proved for all inputs and iteration counts (A2: weights are reals): at every non-UNBOUNDED return the distance
labels are dual feasible (no edge can be relaxed), dist[start] <= 0, every finite label is the length of a
walk from start (ghost relation Reach, used only through its closure rules), parent pointers are tight edges;
UNBOUNDED is returned only with an edge that is still relaxable.  With the paper lemmas L3 (feasible labels
bound every walk length from below) and L9 this gives 'exact distances', 'path weights sum to the distance'
and 'UNBOUNDED only with a reachable negative cycle'; L3/L9 themselves are not machine-checked here.
"""
from pyvc.spec import REG, LoopSpec
import specs.search  # noqa: Result
import specs.mst  # noqa: check_positive, check_edge_nodes contracts
import specs.helpers  # noqa: _reconstruct_indexed

V_ = "solvor/utils/validate.py"
REG.fn(V_, "check_in_range", prop="C11", raises_ok=True,
       types={"value": "real", "low": "real", "high": "real", "name": "opaque"},
       ensures=["implies(inclusive, low <= value <= high)", "implies(not inclusive, low < value < high)"])

B = "solvor/bellman_ford.py"
E = "list[tuple[int,int,real]]"
REG.ghostfn("Reach", ["int", "real"], "bool")  # Reach(v, d): there is a walk from start to v of length d
RELAX = "(dist[edges[{0}][0]] != inf() and dist[edges[{0}][0]] + edges[{0}][2] < dist[edges[{0}][1]])"
COMMON = [
    "len(dist) == n_nodes", "len(parent) == n_nodes", "0 <= start < n_nodes",
    "dist[start] <= 0",
    "forall(v, implies(0 <= v < n_nodes, -inf() < dist[v] and dist[v] <= inf()), trig=dist[v])",
    "forall(v, implies(0 <= v < n_nodes and dist[v] != inf(), Reach(v, dist[v])), trig=dist[v])",
    # parent pointers: an edge of the input whose relaxation produced the label (tight once nothing can be relaxed)
    "forall(v, implies(0 <= v < n_nodes, parent[v] == -1 or (0 <= parent[v] < n_nodes and dist[parent[v]] != inf() and dist[v] != inf() and exists(k, 0 <= k < len(edges) and edges[k][0] == parent[v] and edges[k][1] == v and dist[v] >= dist[parent[v]] + edges[k][2]))), trig=parent[v])",
]
REG.fn(B, "bellman_ford", prop="C11", ret="Result[opaque]", raises_ok=True, strict_inf=True,
       types={"edges": E, "dist": "list[real]", "parent": "list[int]", "path": "list[int]"},
       requires=[
           # finite weights: with them no arithmetic operator ever sees +-inf (`strict_inf`: proved, not assumed)
           "forall(k, implies(0 <= k < len(edges), -inf() < edges[k][2] and edges[k][2] < inf()), trig=edges[k])",
           # definition of the ghost relation by its closure rules (the least such relation is 'walk from start of length d')
           "Reach(start, 0.0)",
           "forall(k, d, implies(0 <= k < len(edges) and Reach(edges[k][0], d), Reach(edges[k][1], d + edges[k][2])), sorts={'d': 'real'}, trig=((edges[k], Reach(edges[k][0], d)),))",
       ],
       ensures=[
           "result.status == 1 or result.status == 3 or result.status == 4",
           # UNBOUNDED only with an edge that can still be relaxed after the n-1 rounds
           "implies(result.status == 4, exists(k, 0 <= k < len(edges) and " + RELAX.format("k") + "))",
           # otherwise: the labels are a feasible potential (no edge can be relaxed) ...
           "implies(result.status != 4, forall(k, implies(0 <= k < len(edges) and dist[edges[k][0]] != inf(), dist[edges[k][1]] <= dist[edges[k][0]] + edges[k][2]), trig=edges[k]))",
           "implies(result.status != 4, dist[start] <= 0)",
           # ... every finite label is the length of a walk from start ...
           "implies(result.status != 4, forall(v, implies(0 <= v < n_nodes and dist[v] != inf(), Reach(v, dist[v])), trig=dist[v]))",
           # ... and parent pointers are tight input edges, so a reconstructed path's weights sum to the label
           "implies(result.status != 4, forall(v, implies(0 <= v < n_nodes and parent[v] != -1, exists(k, 0 <= k < len(edges) and edges[k][0] == parent[v] and edges[k][1] == v and dist[v] == dist[parent[v]] + edges[k][2])), trig=parent[v]))",
           # verdicts for a queried target
           "implies(result.status == 3, not is_none(target) and dist[val(target)] == inf())",
           "implies(result.status == 1 and not is_none(target), result.objective == dist[val(target)] and dist[val(target)] != inf())",
       ],
       loops={1: LoopSpec(invariants=COMMON),
              2: LoopSpec(index="q", invariants=COMMON),
              3: LoopSpec(index="q3", invariants=COMMON + [
                  "forall(k, implies(0 <= k < q3, not " + RELAX.format("k") + "), trig=edges[k])"])})

# ------------------------------------------------------------------ dijkstra: real paths AND the optimality certificate
D = "solvor/dijkstra.py"
REG.ghostfn("Edge", ["U<S>", "U<S>", "real"], "bool")  # Edge(u, v, w): neighbors(u) offers (v, w)   (used by astar)
REG.callback("dnbr", ["U<S>"], "list[tuple[U<S>,real]]", pure=False,
             post="forall(i, implies(0 <= i < len(result), Edge(a0, result[i][0], result[i][1]) and result[i][1] >= 0 and result[i][1] < inf()), trig=result[i])")
REG.callback("isgoal", ["U<S>"], "bool", pure=False)
# for the certificate the graph must be a function of the node: N(u) = neighbors(u) (pure), goalp = the goal test (pure)
REG.callback("N", ["U<S>"], "list[tuple[U<S>,real]]", pure=True)
REG.callback("goalp", ["U<S>"], "bool", pure=True)
RELAXED = "forall(i, implies(0 <= i < len(N({u})), has(g, N({u})[i][0]) and get(g, N({u})[i][0]) <= get(g, {u}) + N({u})[i][1]), trig=N({u})[i])"
DJ = [
    "has(g, start)", "get(g, start) == 0", "not has(parent, start)",
    "forall(v, implies(has(g, v), get(g, v) >= 0 and get(g, v) < inf()), sorts={'v': 'U<S>'}, trig=has(g, v))",
    "forall(v, implies(has(g, v) and v != start, has(parent, v)), sorts={'v': 'U<S>'}, trig=has(g, v))",
    # parent pointers: a closed, labelled node one of whose offered edges (ghost index pi[v]) explains the label exactly
    "forall(v, implies(has(parent, v), has(g, v) and has(g, get(parent, v)) and has(closed, get(parent, v)) and 0 <= pi[v] < len(N(get(parent, v))) and N(get(parent, v))[pi[v]][0] == v and get(g, v) == get(g, get(parent, v)) + N(get(parent, v))[pi[v]][1]), sorts={'v': 'U<S>'}, trig=has(parent, v))",
    "forall(v, implies(has(closed, v), has(g, v) and not goalp(v)), sorts={'v': 'U<S>'}, trig=has(closed, v))",
    # heap entries: labelled nodes, never cheaper than the node's current label, never cheaper than a closed node
    "forall(j, implies(0 <= j < len(heap), has(g, heap[j][2]) and heap[j][0] >= get(g, heap[j][2])), trig=heap[j])",
    "forall(u, j, implies(has(closed, u) and 0 <= j < len(heap), get(g, u) <= heap[j][0]), sorts={'u': 'U<S>'}, trig=((has(closed, u), heap[j]),))",
    # every open labelled node has an entry carrying its current label (ghost index map `where`)
    "forall(v, implies(has(g, v) and not has(closed, v), 0 <= where[v] < len(heap) and heap[where[v]][2] == v and heap[where[v]][0] == get(g, v)), sorts={'v': 'U<S>'}, trig=has(g, v))",
]
REG.fn(D, "dijkstra", prop="C11", ret="Result[opt[list[U<S>]]]", strict_inf=True,
       types={"goal": "opaque", "neighbors": "fun:N", "is_goal": "fun:goalp", "max_cost": "opt[real]",
              "pi": "map[U<S>,int]", "where": "map[U<S>,int]", "path": "list[U<S>]"},
       requires=["is_none(max_cost)",  # the certificate below is for searches without a cost limit
                 "forall(u, i, implies(0 <= i < len(N(u)), N(u)[i][1] >= 0 and N(u)[i][1] < inf()), sorts={'u': 'U<S>'}, trig=N(u)[i])"],
       ghost_before=[("g: dict[S, float] = {start: 0.0}", "pi", "lam(v, 0, sort='U<S>')"),
                     ("g: dict[S, float] = {start: 0.0}", "where", "lam(v, 0, sort='U<S>')")],
       ghost_after=[("parent[neighbor] = current", "pi", "store(pi, neighbor, _k2)"),
                    # entries move when the heap is re-arranged by a pop; a push puts the node's new entry last
                    ("cost, _, current = heappop(heap)", "where", "lam(v, _heap_inv[where[v]], sort='U<S>')"),
                    ("heappush(heap, (tentative_g, counter, neighbor))", "where", "store(where, neighbor, len(heap) - 1)")],
       ensures=[
           "implies(result.status != 1, is_none(result.solution))",
           "implies(result.status == 1, not is_none(result.solution) and len(val(result.solution)) >= 1)",
           # (1) real path: starts at the source, ends at a goal, each step is an offered edge, labels grow by the edge weight
           "implies(result.status == 1, val(result.solution)[0] == start and get(g, start) == 0 and goalp(val(result.solution)[len(val(result.solution)) - 1]))",
           "implies(result.status == 1, result.objective == get(g, val(result.solution)[len(val(result.solution)) - 1]))",
           "implies(result.status == 1, forall(i, implies(0 <= i < len(val(result.solution)) - 1, 0 <= pi[val(result.solution)[i + 1]] < len(N(val(result.solution)[i])) and N(val(result.solution)[i])[pi[val(result.solution)[i + 1]]][0] == val(result.solution)[i + 1] and get(g, val(result.solution)[i + 1]) == get(g, val(result.solution)[i]) + N(val(result.solution)[i])[pi[val(result.solution)[i + 1]]][1]), trig=val(result.solution)[i]))",
           # (2) optimality certificate (with paper lemma L3: labels that are relaxed on the closed set and bounded below by c
           #     elsewhere are a feasible potential, so no walk from the source to any goal is shorter than c = objective):
           "implies(result.status == 1, forall(u, implies(has(closed, u) and u != current, " + RELAXED.format(u="u") + " and get(g, u) <= result.objective), sorts={'u': 'U<S>'}, trig=has(closed, u)))",
           "implies(result.status == 1, forall(v, implies(has(g, v) and (not has(closed, v) or v == current), get(g, v) >= result.objective), sorts={'v': 'U<S>'}, trig=has(g, v)))",
           "implies(result.status == 1, forall(u, implies(has(closed, u) and u != current, not goalp(u)), sorts={'u': 'U<S>'}, trig=has(closed, u)))",
           # (3) INFEASIBLE certificate: the labelled set contains the source, is closed under offered edges and holds no goal
           "implies(result.status == 3, has(g, start) and forall(u, implies(has(g, u), has(closed, u) and not goalp(u) and " + RELAXED.format(u="u") + "), sorts={'u': 'U<S>'}, trig=has(g, u)))",
       ],
       loops={1: LoopSpec(invariants=DJ + ["forall(u, implies(has(closed, u), " + RELAXED.format(u="u") + "), sorts={'u': 'U<S>'}, trig=has(closed, u))"]),
              2: LoopSpec(invariants=DJ + [
                  "has(g, current)", "has(closed, current)", "not goalp(current)",
                  "forall(u, implies(has(closed, u) and u != current, " + RELAXED.format(u="u") + "), sorts={'u': 'U<S>'}, trig=has(closed, u))",
                  # the processed prefix of current's edges is relaxed; nothing closed is more expensive than current
                  "forall(i, implies(0 <= i < _k2, has(g, N(current)[i][0]) and get(g, N(current)[i][0]) <= get(g, current) + N(current)[i][1]), trig=N(current)[i])",
                  "forall(u, implies(has(closed, u), get(g, u) <= get(g, current)), sorts={'u': 'U<S>'}, trig=has(closed, u))",
                  "forall(j, implies(0 <= j < len(heap), get(g, current) <= heap[j][0]), trig=heap[j])",
              ])})

# ------------------------------------------------------------------ astar (weight 1, consistent heuristic): real path AND certificate
# Scope of C11 for astar: weight == 1 and an admissible-and-consistent heuristic.  H = the heuristic (pure), N / goalp as for
# dijkstra.  The argument is dijkstra's with f = g + H as the key: pops are monotone in f because a pushed successor has
# f(v) = g(u) + w + H(v) >= g(u) + H(u) (consistency); a closed neighbour that the code skips is relaxed for the same reason.
A = "solvor/a_star.py"
REG.callback("Hh", ["U<S>"], "real", pure=True)
FV = "(get(g, {v}) + Hh({v}))"
AJ = [
    "has(g, start)", "get(g, start) == 0", "not has(parent, start)", "weight == 1",
    "forall(v, implies(has(g, v), get(g, v) >= 0 and get(g, v) < inf()), sorts={'v': 'U<S>'}, trig=has(g, v))",
    "forall(v, implies(has(g, v) and v != start, has(parent, v)), sorts={'v': 'U<S>'}, trig=has(g, v))",
    "forall(v, implies(has(parent, v), has(g, v) and has(g, get(parent, v)) and has(closed, get(parent, v)) and 0 <= pi[v] < len(N(get(parent, v))) and N(get(parent, v))[pi[v]][0] == v and get(g, v) == get(g, get(parent, v)) + N(get(parent, v))[pi[v]][1]), sorts={'v': 'U<S>'}, trig=has(parent, v))",
    "forall(v, implies(has(closed, v), has(g, v) and not goalp(v)), sorts={'v': 'U<S>'}, trig=has(closed, v))",
    # heap entries: labelled nodes, key never below the node's current f, never below the f of a closed node
    "forall(j, implies(0 <= j < len(heap), has(g, heap[j][3]) and heap[j][0] >= " + FV.format(v="heap[j][3]") + " and heap[j][0] < inf()), trig=heap[j])",
    "forall(u, j, implies(has(closed, u) and 0 <= j < len(heap), " + FV.format(v="u") + " <= heap[j][0]), sorts={'u': 'U<S>'}, trig=((has(closed, u), heap[j]),))",
    "forall(v, implies(has(g, v) and not has(closed, v), 0 <= where[v] < len(heap) and heap[where[v]][3] == v and heap[where[v]][0] == " + FV.format(v="v") + "), sorts={'v': 'U<S>'}, trig=has(g, v))",
]
REG.fn(A, "astar", prop="C11", ret="Result[opt[list[U<S>]]]", strict_inf=True,
       types={"goal": "opaque", "neighbors": "fun:N", "heuristic": "fun:Hh", "is_goal": "fun:goalp", "max_cost": "opt[real]",
              "weight": "real", "pi": "map[U<S>,int]", "where": "map[U<S>,int]", "path": "list[U<S>]", "f_start": "real", "f_new": "real"},
       requires=["is_none(max_cost)", "weight == 1",
                 "forall(u, i, implies(0 <= i < len(N(u)), N(u)[i][1] >= 0 and N(u)[i][1] < inf()), sorts={'u': 'U<S>'}, trig=N(u)[i])",
                 # the heuristic: finite, non-negative, zero on goals, consistent along every offered edge
                 "forall(u, Hh(u) >= 0 and Hh(u) < inf() and implies(goalp(u), Hh(u) == 0), sorts={'u': 'U<S>'}, trig=Hh(u))",
                 "forall(u, i, implies(0 <= i < len(N(u)), Hh(u) <= N(u)[i][1] + Hh(N(u)[i][0])), sorts={'u': 'U<S>'}, trig=N(u)[i])"],
       ghost_before=[("g: dict[S, float] = {start: 0.0}", "pi", "lam(v, 0, sort='U<S>')"),
                     ("g: dict[S, float] = {start: 0.0}", "where", "lam(v, 0, sort='U<S>')")],
       ghost_after=[("parent[neighbor] = current", "pi", "store(pi, neighbor, _k2)"),
                    ("_, _, _, current = heappop(heap)", "where", "lam(v, _heap_inv[where[v]], sort='U<S>')"),
                    ("heappush(heap, (f_new, -tentative_g, counter, neighbor))", "where", "store(where, neighbor, len(heap) - 1)")],
       ensures=[
           "implies(result.status != 1, is_none(result.solution))",
           "result.status != 2",
           "implies(result.status == 1, not is_none(result.solution) and len(val(result.solution)) >= 1)",
           # (1) real path
           "implies(result.status == 1, val(result.solution)[0] == start and get(g, start) == 0 and goalp(val(result.solution)[len(val(result.solution)) - 1]))",
           "implies(result.status == 1, result.objective == get(g, val(result.solution)[len(val(result.solution)) - 1]))",
           "implies(result.status == 1, forall(i, implies(0 <= i < len(val(result.solution)) - 1, 0 <= pi[val(result.solution)[i + 1]] < len(N(val(result.solution)[i])) and N(val(result.solution)[i])[pi[val(result.solution)[i + 1]]][0] == val(result.solution)[i + 1] and get(g, val(result.solution)[i + 1]) == get(g, val(result.solution)[i]) + N(val(result.solution)[i])[pi[val(result.solution)[i + 1]]][1]), trig=val(result.solution)[i]))",
           # (2) optimality certificate: the closed set (without the goal just popped) is relaxed and holds no goal, every labelled
           #     node outside it has g + H >= objective.  Paper lemma: a walk from the source to any goal leaves the closed set at a
           #     labelled node v with g(v) <= length so far, and by consistency the rest is >= H(v) - H(goal) = H(v): length >= objective.
           "implies(result.status == 1, forall(u, implies(has(closed, u) and u != current, " + RELAXED.format(u="u") + " and " + FV.format(v="u") + " <= result.objective), sorts={'u': 'U<S>'}, trig=has(closed, u)))",
           "implies(result.status == 1, forall(v, implies(has(g, v) and (not has(closed, v) or v == current), " + FV.format(v="v") + " >= result.objective), sorts={'v': 'U<S>'}, trig=has(g, v)))",
           "implies(result.status == 1, forall(u, implies(has(closed, u) and u != current, not goalp(u)), sorts={'u': 'U<S>'}, trig=has(closed, u)))",
           # (3) INFEASIBLE certificate
           "implies(result.status == 3, has(g, start) and forall(u, implies(has(g, u), has(closed, u) and not goalp(u) and " + RELAXED.format(u="u") + "), sorts={'u': 'U<S>'}, trig=has(g, u)))",
       ],
       loops={1: LoopSpec(invariants=AJ + ["forall(u, implies(has(closed, u), " + RELAXED.format(u="u") + "), sorts={'u': 'U<S>'}, trig=has(closed, u))"]),
              2: LoopSpec(invariants=AJ + [
                  "has(g, current)", "has(closed, current)", "not goalp(current)",
                  "forall(u, implies(has(closed, u) and u != current, " + RELAXED.format(u="u") + "), sorts={'u': 'U<S>'}, trig=has(closed, u))",
                  "forall(i, implies(0 <= i < _k2, has(g, N(current)[i][0]) and get(g, N(current)[i][0]) <= get(g, current) + N(current)[i][1]), trig=N(current)[i])",
                  "forall(u, implies(has(closed, u), " + FV.format(v="u") + " <= " + FV.format(v="current") + "), sorts={'u': 'U<S>'}, trig=has(closed, u))",
                  "forall(j, implies(0 <= j < len(heap), " + FV.format(v="current") + " <= heap[j][0]), trig=heap[j])",
              ])})

# ------------------------------------------------------------------ bfs / dfs: a returned path is a genuine path
BF_ = "solvor/bfs.py"
REG.ghostfn("Nbr", ["U<S>", "U<S>"], "bool")  # Nbr(u, v): neighbors(u) offers v
REG.callback("unbr", ["U<S>"], "list[U<S>]", pure=False,
             post="forall(i, implies(0 <= i < len(result), Nbr(a0, result[i])), trig=result[i])")
TI = [
    "has(visited, start)", "not has(parent, start)",
    "forall(v, implies(has(visited, v) and v != start, has(parent, v)), sorts={'v': 'U<S>'}, trig=has(visited, v))",
    "forall(v, implies(has(parent, v), has(visited, v) and has(visited, get(parent, v)) and Nbr(get(parent, v), v)), sorts={'v': 'U<S>'}, trig=has(parent, v))",
]
PATH_OK = [
    "implies(defined('path'), len(path) >= 1 and path[0] == start and result.objective == len(path) - 1)",
    "implies(defined('path'), forall(i, implies(0 <= i < len(path) - 1, Nbr(path[i], path[i + 1])), trig=path[i]))",
]
# ---- bfs: real path AND the certificate of minimal length (levels)
# lev (ghost): discovery level of a visited node; done (ghost): the node has been dequeued; where (ghost): its index in the queue
REG.callback("Nb", ["U<S>"], "list[U<S>]", pure=True)
REG.lemma("lev_along_path", ["P", "L", "i"],
          "implies(forall(t, implies(0 <= t < i, L[P[t + 1]] == L[P[t]] + 1)), L[P[i]] == L[P[0]] + i)",
          kind="induction", on="i", group="bfslev", var_sorts={"P": "list[U<S>]", "L": "map[U<S>,int]"}, trig=["L[P[i]]"])
NBREL = "forall(i, implies(0 <= i < len(Nb({u})), has(visited, Nb({u})[i]) and lev[Nb({u})[i]] <= lev[{u}] + 1), trig=Nb({u})[i])"
BI = [
    "has(visited, start)", "lev[start] == 0", "not has(parent, start)", "is_set(is_goal)",
    "forall(v, implies(has(visited, v), lev[v] >= 0), sorts={'v': 'U<S>'}, trig=has(visited, v))",
    "forall(v, implies(has(visited, v) and v != start, has(parent, v)), sorts={'v': 'U<S>'}, trig=has(visited, v))",
    "forall(v, implies(has(parent, v), has(visited, v) and has(visited, get(parent, v)) and done[get(parent, v)] and 0 <= pi[v] < len(Nb(get(parent, v))) and Nb(get(parent, v))[pi[v]] == v and lev[v] == lev[get(parent, v)] + 1), sorts={'v': 'U<S>'}, trig=has(parent, v))",
    "forall(v, implies(done[v], has(visited, v) and not goalp(v)), sorts={'v': 'U<S>'}, trig=done[v])",
    # the queue: visited and not yet dequeued nodes, each at its recorded index, levels non-decreasing and within one of the head
    "forall(p, implies(0 <= p < len(queue), has(visited, queue[p]) and not done[queue[p]] and where[queue[p]] == p), trig=queue[p])",
    "forall(v, implies(has(visited, v) and not done[v], 0 <= where[v] < len(queue) and queue[where[v]] == v), sorts={'v': 'U<S>'}, trig=has(visited, v))",
    "forall(p, q, implies(0 <= p < q and q < len(queue), lev[queue[p]] <= lev[queue[q]]), trig=((queue[p], queue[q]),))",
    "forall(p, implies(0 <= p < len(queue), lev[queue[p]] <= lev[queue[0]] + 1), trig=queue[p])",
    "forall(u, p, implies(done[u] and 0 <= p < len(queue), lev[u] <= lev[queue[p]]), sorts={'u': 'U<S>'}, trig=((done[u], queue[p]),))",
]
REG.fn(BF_, "bfs", prop="C11", ret="Result[opaque]", lemmas=["bfslev"], dead_returns_ok=True,  # the traversal-mode return is excluded by the requires
       types={"goal": "opaque", "neighbors": "fun:Nb", "is_goal": "fun:goalp", "path": "list[U<S>]",
              "parent": "dict[U<S>,U<S>]", "visited": "set[U<S>]", "queue": "list[U<S>]",
              "lev": "map[U<S>,int]", "done": "map[U<S>,bool]", "where": "map[U<S>,int]", "pi": "map[U<S>,int]"},
       requires=["is_set(is_goal)"],   # a search with a goal (the traversal mode makes no distance claim)
       ghost_before=[("visited: set[S] = {start}", "lev", "lam(v, 0, sort='U<S>')"),
                     ("visited: set[S] = {start}", "done", "lam(v, False, sort='U<S>')"),
                     ("visited: set[S] = {start}", "where", "lam(v, 0, sort='U<S>')"),
                     ("visited: set[S] = {start}", "pi", "lam(v, 0, sort='U<S>')")],
       ghost_after=[("current = queue.popleft()", "done", "store(done, current, True)"),
                    ("current = queue.popleft()", "where", "lam(v, where[v] - 1, sort='U<S>')"),
                    ("parent[neighbor] = current", "lev", "store(lev, neighbor, lev[current] + 1)"),
                    ("parent[neighbor] = current", "pi", "store(pi, neighbor, _k2)"),
                    ("queue.append(neighbor)", "where", "store(where, neighbor, len(queue) - 1)")],
       ensures=[
           "implies(defined('path'), result.status == 1 and len(path) >= 1 and path[0] == start and goalp(path[len(path) - 1]))",
           "implies(defined('path'), forall(i, implies(0 <= i < len(path) - 1, 0 <= pi[path[i + 1]] < len(Nb(path[i])) and Nb(path[i])[pi[path[i + 1]]] == path[i + 1] and lev[path[i + 1]] == lev[path[i]] + 1), trig=path[i]))",
           # the reported distance is the level of the goal found ...
           "implies(defined('path'), result.objective == len(path) - 1 and result.objective == lev[current])",
           # ... and the certificate: every dequeued node other than that goal is no goal, has all its neighbours visited at most one
           #     level deeper, and lies no deeper than the goal; every other visited node lies at least as deep.  (Paper lemma: levels that
           #     grow by at most one along every edge out of the dequeued set bound the number of edges of every walk from below.)
           "implies(defined('path'), forall(u, implies(done[u] and u != current, not goalp(u) and lev[u] <= lev[current] and " + NBREL.format(u="u") + "), sorts={'u': 'U<S>'}, trig=done[u]))",
           "implies(defined('path'), forall(v, implies(has(visited, v) and (not done[v] or v == current), lev[v] >= lev[current]), sorts={'v': 'U<S>'}, trig=has(visited, v)))",
           # INFEASIBLE: the visited set contains the start, is closed under the edges and holds no goal
           "implies(result.status == 3, has(visited, start) and forall(u, implies(has(visited, u), done[u] and not goalp(u) and " + NBREL.format(u="u") + "), sorts={'u': 'U<S>'}, trig=has(visited, u)))",
       ],
       loops={1: LoopSpec(invariants=BI + ["forall(u, implies(done[u], " + NBREL.format(u="u") + "), sorts={'u': 'U<S>'}, trig=done[u])"]),
              2: LoopSpec(invariants=BI + [
                  "has(visited, current)", "done[current]",
                  "forall(u, implies(done[u] and u != current, " + NBREL.format(u="u") + "), sorts={'u': 'U<S>'}, trig=done[u])",
                  "forall(i, implies(0 <= i < _k2, has(visited, Nb(current)[i]) and lev[Nb(current)[i]] <= lev[current] + 1), trig=Nb(current)[i])",
                  "forall(u, implies(done[u], lev[u] <= lev[current]), sorts={'u': 'U<S>'}, trig=done[u])",
                  "forall(p, implies(0 <= p < len(queue), lev[current] <= lev[queue[p]] and lev[queue[p]] <= lev[current] + 1), trig=queue[p])",
              ])})

# ---- dfs (with a goal): a genuine path, and INFEASIBLE only with a visited set that is closed under the edges and holds no goal
SREL = "forall(i, implies(0 <= i < len(Nb({u})), has(visited, Nb({u})[i])), trig=Nb({u})[i])"
SI = [
    "has(visited, start)", "not has(parent, start)", "is_set(is_goal)",
    "forall(v, implies(has(visited, v) and v != start, has(parent, v)), sorts={'v': 'U<S>'}, trig=has(visited, v))",
    "forall(v, implies(has(parent, v), has(visited, v) and has(visited, get(parent, v)) and done[get(parent, v)] and 0 <= pi[v] < len(Nb(get(parent, v))) and Nb(get(parent, v))[pi[v]] == v), sorts={'v': 'U<S>'}, trig=has(parent, v))",
    "forall(v, implies(done[v], has(visited, v) and not goalp(v)), sorts={'v': 'U<S>'}, trig=done[v])",
    "forall(p, implies(0 <= p < len(stack), has(visited, stack[p]) and not done[stack[p]] and where[stack[p]] == p), trig=stack[p])",
    "forall(v, implies(has(visited, v) and not done[v], 0 <= where[v] < len(stack) and stack[where[v]] == v), sorts={'v': 'U<S>'}, trig=has(visited, v))",
]
REG.fn(BF_, "dfs", prop="C11", ret="Result[opaque]", dead_returns_ok=True,  # the traversal-mode return is excluded by the requires
       types={"goal": "opaque", "neighbors": "fun:Nb", "is_goal": "fun:goalp", "path": "list[U<S>]",
              "parent": "dict[U<S>,U<S>]", "visited": "set[U<S>]", "stack": "list[U<S>]",
              "done": "map[U<S>,bool]", "where": "map[U<S>,int]", "pi": "map[U<S>,int]"},
       requires=["is_set(is_goal)"],
       ghost_before=[("visited: set[S] = {start}", "done", "lam(v, False, sort='U<S>')"),
                     ("visited: set[S] = {start}", "where", "lam(v, 0, sort='U<S>')"),
                     ("visited: set[S] = {start}", "pi", "lam(v, 0, sort='U<S>')")],
       ghost_after=[("current = stack.pop()", "done", "store(done, current, True)"),
                    ("parent[neighbor] = current", "pi", "store(pi, neighbor, _k2)"),
                    ("stack.append(neighbor)", "where", "store(where, neighbor, len(stack) - 1)")],
       ensures=[
           "implies(defined('path'), result.status == 2 and len(path) >= 1 and path[0] == start and goalp(path[len(path) - 1]) and result.objective == len(path) - 1)",
           "implies(defined('path'), forall(i, implies(0 <= i < len(path) - 1, 0 <= pi[path[i + 1]] < len(Nb(path[i])) and Nb(path[i])[pi[path[i + 1]]] == path[i + 1]), trig=path[i]))",
           "implies(result.status == 3, has(visited, start) and forall(u, implies(has(visited, u), done[u] and not goalp(u) and " + SREL.format(u="u") + "), sorts={'u': 'U<S>'}, trig=has(visited, u)))",
       ],
       loops={1: LoopSpec(invariants=SI + ["forall(u, implies(done[u], " + SREL.format(u="u") + "), sorts={'u': 'U<S>'}, trig=done[u])"]),
              2: LoopSpec(invariants=SI + [
                  "has(visited, current)", "done[current]",
                  "forall(u, implies(done[u] and u != current, " + SREL.format(u="u") + "), sorts={'u': 'U<S>'}, trig=done[u])",
                  "forall(i, implies(0 <= i < _k2, has(visited, Nb(current)[i])), trig=Nb(current)[i])"])})

for name, cont, st_ok in ():
    REG.fn(BF_, name, prop="C11", ret="Result[opaque]",
           types={"goal": "opaque", "neighbors": "fun:unbr", "is_goal": "fun:isgoal", "path": "list[U<S>]",
                  "parent": "dict[U<S>,U<S>]", "visited": "set[U<S>]", cont: "list[U<S>]"},
           # `path` is the local holding the reconstructed path at the return that reports one
           ensures=PATH_OK + [f"implies(defined('path'), result.status == {st_ok})"],
           loops={1: LoopSpec(invariants=TI + [f"forall(j, implies(0 <= j < len({cont}), has(visited, {cont}[j])), trig={cont}[j])"]),
                  2: LoopSpec(invariants=TI + [f"forall(j, implies(0 <= j < len({cont}), has(visited, {cont}[j])), trig={cont}[j])",
                                               "has(visited, current)"])})

"""Contracts for solvor/mst.py::kruskal (C13): structural half of the statement, with UnionFind used through
its proved contract only (specs/data_structures.py).  Minimality (cut property) is decided by the bounded back end."""
from pyvc.spec import REG, LoopSpec
import specs.data_structures  # noqa: UnionFind contracts
import specs.search  # noqa: Result record

V_ = "solvor/utils/validate.py"
M = "solvor/mst.py"
E = "list[tuple[int,int,real]]"

REG.fn(V_, "check_positive", prop="C13", types={"value": "real", "name": "opaque"}, raises_ok=True,
       ensures=["value > 0"])
REG.fn(V_, "check_edge_nodes", prop="C13", types={"edges": E, "name": "opaque"}, raises_ok=True,
       ensures=["forall(k, implies(0 <= k < len(edges), 0 <= edges[k][0] < n_nodes and 0 <= edges[k][1] < n_nodes), trig=edges[k])"],
       loops={1: LoopSpec(index="q", invariants=[
           "forall(k, implies(0 <= k < q, 0 <= edges[k][0] < n_nodes and 0 <= edges[k][1] < n_nodes), trig=edges[k])"])})

# sum of the weights of the first k edges of a list
REG.recfn("wsum", [("L", E), ("k", "int")], "real", on="k", base="0.0", step="wsum(L, k - 1) + L[k - 1][2]", group="wsum")
REG.lemma("wsum_frame", ["L", "L2", "k"],
          "implies(forall(i, implies(0 <= i < k, L[i] == L2[i])), wsum(L, k) == wsum(L2, k))",
          kind="induction", on="k", group="wsum", var_sorts={"L": E, "L2": E}, trig=["wsum(L, k)", "wsum(L2, k)"])

INV = [
    "uf_inv(uf)", "len(uf._parent) == n_nodes", "n_nodes >= 1",
    # every accepted edge is an edge of the input
    "forall(k, implies(0 <= k < len(mst_edges), exists(j, 0 <= j < len(edges) and mst_edges[k] == edges[j])), trig=mst_edges[k])",
    "total_weight == wsum(mst_edges, len(mst_edges))",
    # one edge per successful union: #edges + #components == n  (so the accepted edges form a forest)
    "len(mst_edges) + uf._count == n_nodes",
    "len(mst_edges) <= n_nodes - 1",
    "len(mst_edges) < n_nodes - 1 or n_nodes == 1",  # the loop is left as soon as n-1 edges are in
]
REG.fn(M, "kruskal", prop="C13", ret="Result[opt[" + E + "]]", types={"mst_edges": E, "sorted_edges": E, "total_weight": "real"},
       lemmas=["uf", "wsum"],
       ensures=[
           "result.status == 1 or result.status == 2 or result.status == 3",
           "implies(result.status != 3, not is_none(result.solution))",
           "implies(result.status == 3, is_none(result.solution) and not allow_forest)",
           # returned edges are input edges, objective is their total weight
           "implies(result.status != 3, forall(k, implies(0 <= k < len(val(result.solution)), exists(j, 0 <= j < len(edges) and val(result.solution)[k] == edges[j])), trig=val(result.solution)[k]))",
           "implies(result.status != 3, result.objective == wsum(val(result.solution), len(val(result.solution))))",
           # OPTIMAL = spanning tree: n-1 edges and a single component; FEASIBLE = forest with fewer edges, only on request
           "implies(result.status == 1, len(val(result.solution)) == n_nodes - 1 and uf._count == 1)",
           "implies(result.status == 2, allow_forest and len(val(result.solution)) < n_nodes - 1 and len(val(result.solution)) + uf._count == n_nodes)",
       ],
       loops={1: LoopSpec(invariants=INV)})

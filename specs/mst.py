"""Contracts for solvor/mst.py::kruskal (C13): structural half of the statement, with UnionFind used through
its proved contract only (specs/data_structures.py).  Minimality (cut property) is decided by the bounded back end."""
from pyvc.spec import REG, LoopSpec
import specs.data_structures  # noqa: UnionFind contracts
import specs.search  # noqa: Result record

V_ = "solvor/utils/validate.py"
M = "solvor/mst.py"
E = "list[tuple[int,int,real]]"

REG.fn(V_, "check_positive", prop="C13", types={"value": "real", "name": "opaque"}, raises_ok=True,
       ensures=["value > 0"])
REG.fn(V_, "check_edge_nodes", prop="C13", types={"edges": E, "name": "opaque"}, raises_ok=True,
       ensures=["forall(k, implies(0 <= k < len(edges), 0 <= edges[k][0] < n_nodes and 0 <= edges[k][1] < n_nodes), trig=edges[k])"],
       loops={1: LoopSpec(index="q", invariants=[
           "forall(k, implies(0 <= k < q, 0 <= edges[k][0] < n_nodes and 0 <= edges[k][1] < n_nodes), trig=edges[k])"])})

# sum of the weights of the first k edges of a list
REG.recfn("wsum", [("L", E), ("k", "int")], "real", on="k", base="0.0", step="wsum(L, k - 1) + L[k - 1][2]", group="wsum")
REG.lemma("wsum_frame", ["L", "L2", "k"],
          "implies(forall(i, implies(0 <= i < k, L[i] == L2[i])), wsum(L, k) == wsum(L2, k))",
          kind="induction", on="k", group="wsum", var_sorts={"L": E, "L2": E}, trig=["wsum(L, k)", "wsum(L2, k)"])

INV = [
    "uf_inv(uf)", "len(uf._parent) == n_nodes", "n_nodes >= 1",
    # every accepted edge is an edge of the input
    "forall(k, implies(0 <= k < len(mst_edges), exists(j, 0 <= j < len(edges) and mst_edges[k] == edges[j])), trig=mst_edges[k])",
    "total_weight == wsum(mst_edges, len(mst_edges))", "-inf() < total_weight and total_weight < inf()",
    "forall(k, implies(0 <= k < len(sorted_edges), -inf() < sorted_edges[k][2] and sorted_edges[k][2] < inf()), trig=sorted_edges[k])",
    # one edge per successful union: #edges + #components == n  (so the accepted edges form a forest)
    "len(mst_edges) + uf._count == n_nodes",
    "len(mst_edges) <= n_nodes - 1",
    "len(mst_edges) < n_nodes - 1 or n_nodes == 1",  # the loop is left as soon as n-1 edges are in
]
REG.fn(M, "kruskal", prop="C13", ret="Result[opt[" + E + "]]", types={"mst_edges": E, "sorted_edges": E, "total_weight": "real"},
       lemmas=["uf", "wsum"], strict_inf=True,
       # finite weights: no arithmetic operator ever sees +-inf (proved under `strict_inf`)
       requires=["forall(k, implies(0 <= k < len(edges), -inf() < edges[k][2] and edges[k][2] < inf()), trig=edges[k])"],
       ensures=[
           "result.status == 1 or result.status == 2 or result.status == 3",
           "implies(result.status != 3, not is_none(result.solution))",
           "implies(result.status == 3, is_none(result.solution) and not allow_forest)",
           # returned edges are input edges, objective is their total weight
           "implies(result.status != 3, forall(k, implies(0 <= k < len(val(result.solution)), exists(j, 0 <= j < len(edges) and val(result.solution)[k] == edges[j])), trig=val(result.solution)[k]))",
           "implies(result.status != 3, result.objective == wsum(val(result.solution), len(val(result.solution))))",
           # OPTIMAL = spanning tree: n-1 edges and a single component; FEASIBLE = forest with fewer edges, only on request
           "implies(result.status == 1, len(val(result.solution)) == n_nodes - 1 and uf._count == 1)",
           "implies(result.status == 2, allow_forest and len(val(result.solution)) < n_nodes - 1 and len(val(result.solution)) + uf._count == n_nodes)",
       ],
       loops={1: LoopSpec(invariants=INV)})

# ------------------------------------------------------------------ prim: grows one tree from start
PG = "dict[U<Node>,list[tuple[U<Node>,real]]]"
PE = "list[tuple[U<Node>,U<Node>,real]]"
REG.recfn("wsumN", [("L", PE), ("k", "int")], "real", on="k", base="0.0", step="wsumN(L, k - 1) + L[k - 1][2]", group="wsumN")
REG.lemma("wsumN_frame", ["L", "L2", "k"],
          "implies(forall(i, implies(0 <= i < k, L[i] == L2[i])), wsumN(L, k) == wsumN(L2, k))",
          kind="induction", on="k", group="wsumN", var_sorts={"L": PE, "L2": PE}, trig=["wsumN(L, k)", "wsumN(L2, k)"])
OFFERED = "has(graph, {a}) and exists(i, 0 <= i < len(get(graph, {a})) and get(graph, {a})[i][0] == {b} and get(graph, {a})[i][1] == {w})"
PI = [
    "not is_none(start)", "has(in_mst, val(start))", "pos[val(start)] == 0",
    "card(in_mst) == len(mst_edges) + 1",
    "total_weight == wsumN(mst_edges, len(mst_edges))", "-inf() < total_weight and total_weight < inf()",
    "forall(j, implies(0 <= j < len(heap), -inf() < heap[j][0] and heap[j][0] < inf()), trig=heap[j])",
    # ghost order of insertion: the k-th accepted edge attaches a NEW node (position k+1) to an OLD one (position <= k)
    "forall(x, implies(has(in_mst, x), 0 <= pos[x] <= len(mst_edges)), sorts={'x': 'U<Node>'}, trig=has(in_mst, x))",
    "forall(x, y, implies(has(in_mst, x) and has(in_mst, y) and pos[x] == pos[y], x == y), sorts={'x': 'U<Node>', 'y': 'U<Node>'}, trig=((has(in_mst, x), has(in_mst, y)),))",
    "forall(k, implies(0 <= k < len(mst_edges), has(in_mst, mst_edges[k][0]) and has(in_mst, mst_edges[k][1]) and pos[mst_edges[k][1]] == k + 1 and pos[mst_edges[k][0]] <= k), trig=mst_edges[k])",
    # every accepted edge is an edge of the input graph
    "forall(k, implies(0 <= k < len(mst_edges), " + OFFERED.format(a="mst_edges[k][0]", b="mst_edges[k][1]", w="mst_edges[k][2]") + "), trig=mst_edges[k])",
    # heap entries are offered edges leaving the tree
    "forall(j, implies(0 <= j < len(heap), has(in_mst, heap[j][2]) and " + OFFERED.format(a="heap[j][2]", b="heap[j][3]", w="heap[j][0]") + "), trig=heap[j])",
    "forall(x, implies(has(in_mst, x), has(nodes, x)), sorts={'x': 'U<Node>'}, trig=has(in_mst, x))",
]
REG.fn(M, "prim", prop="C13", ret="Result[opt[" + PE + "]]", lemmas=["wsumN"], strict_inf=True, prefer_cvc5=True, shards=4,
       types={"graph": PG, "start": "opt[U<Node>]", "nodes": "set[U<Node>]", "in_mst": "set[U<Node>]", "mst_edges": PE,
              "heap": "list[tuple[real,int,U<Node>,U<Node>]]", "pos": "map[U<Node>,int]", "total_weight": "real"},
       requires=["implies(not is_none(start), has(graph, val(start)))",
                 # finite weights: no arithmetic operator ever sees +-inf (proved under `strict_inf`)
                 "forall(u, i, implies(has(graph, u) and 0 <= i < len(get(graph, u)), -inf() < get(graph, u)[i][1] and get(graph, u)[i][1] < inf()), sorts={'u': 'U<Node>'}, trig=get(graph, u)[i])"],
       ghost_before=[("in_mst: set[Node] = {start}", "pos", "lam(x, 0, sort='U<Node>')")],
       ghost_after=[("in_mst.add(v)", "pos", "store(pos, v, len(mst_edges) + 1)")],
       ensures=[
           "result.status == 1 or result.status == 3",
           "implies(result.status == 3, is_none(result.solution))",
           "implies(result.status == 1, not is_none(result.solution))",
           "implies(defined('in_mst') and result.status == 3, card(in_mst) < card(nodes))",
           # a returned tree: one edge per node other than the start, every node of the graph reached
           "implies(defined('in_mst') and result.status == 1, len(val(result.solution)) + 1 == card(in_mst) and card(in_mst) >= card(nodes))",
           "implies(defined('in_mst') and result.status == 1, result.objective == wsumN(val(result.solution), len(val(result.solution))))",
           "implies(defined('in_mst') and result.status == 1, forall(k, implies(0 <= k < len(val(result.solution)), " + OFFERED.format(a="val(result.solution)[k][0]", b="val(result.solution)[k][1]", w="val(result.solution)[k][2]") + "), trig=val(result.solution)[k]))",
           # acyclic and connected: edge k joins a node first seen at step k+1 to a node seen earlier (ghost positions)
           "implies(defined('in_mst') and result.status == 1, forall(k, implies(0 <= k < len(val(result.solution)), pos[val(result.solution)[k][1]] == k + 1 and 0 <= pos[val(result.solution)[k][0]] <= k), trig=val(result.solution)[k]))",
       ],
       loops={1: LoopSpec(done="dn", invariants=["forall(x, implies(has(graph, x), has(nodes, x)), sorts={'x': 'U<Node>'}, trig=has(graph, x))", "forall(a, i, implies(dn[a] and 0 <= i < len(get(graph, a)), has(nodes, get(graph, a)[i][0])), sorts={'a': 'U<Node>'}, trig=((dn[a], get(graph, a)[i]),))"]),
              2: LoopSpec(index="q2", invariants=["forall(x, implies(has(graph, x), has(nodes, x)), sorts={'x': 'U<Node>'}, trig=has(graph, x))", "forall(a, i, implies(dn[a] and 0 <= i < len(get(graph, a)), has(nodes, get(graph, a)[i][0])), sorts={'a': 'U<Node>'}, trig=((dn[a], get(graph, a)[i]),))",
                                                  "forall(i, implies(0 <= i < q2, has(nodes, neighbors[i][0])), trig=neighbors[i])"]),
              3: LoopSpec(invariants=PI + ["len(mst_edges) == 0"]),
              4: LoopSpec(invariants=PI),
              5: LoopSpec(invariants=PI + ["has(in_mst, v)", "len(mst_edges) >= 1"])})

"""Contracts for the plan-building helpers of solvor/bp.py (C17) and small network-simplex helpers (C09)."""
from pyvc.spec import REG, LoopSpec

B = "solvor/bp.py"
FR = "abs(x_vals[{0}] - pyround(x_vals[{0}]))"
REG.fn(B, "_most_fractional", prop="C17", ret="tuple[opt[int],opt[real]]",
       types={"x_vals": "list[real]", "eps": "real", "best_idx": "opt[int]", "best_frac": "real"},
       requires=["eps >= 0"],
       ensures=[
           # (None, None) exactly when every value above eps is within eps of an integer (the plan is integral)
           "implies(is_none(result[0]), is_none(result[1]) and forall(i, implies(0 <= i < len(x_vals) and x_vals[i] > eps, " + FR.format("i") + " <= eps), trig=x_vals[i]))",
           "implies(not is_none(result[0]), 0 <= val(result[0]) < len(x_vals) and val(result[1]) == x_vals[val(result[0])] and x_vals[val(result[0])] > eps and " + FR.format("val(result[0])") + " > eps)",
           "implies(not is_none(result[0]), forall(i, implies(0 <= i < len(x_vals) and x_vals[i] > eps, " + FR.format("i") + " <= " + FR.format("val(result[0])") + "), trig=x_vals[i]))",
       ],
       loops={1: LoopSpec(index="q", invariants=[
           "best_frac >= 0", "implies(is_none(best_idx), best_frac == 0)",
           "implies(is_none(best_idx), forall(i, implies(0 <= i < q and x_vals[i] > eps, " + FR.format("i") + " <= eps), trig=x_vals[i]))",
           "implies(not is_none(best_idx), 0 <= val(best_idx) < q and x_vals[val(best_idx)] > eps and best_frac == " + FR.format("val(best_idx)") + " and best_frac > eps)",
           "implies(not is_none(best_idx), forall(i, implies(0 <= i < q and x_vals[i] > eps, " + FR.format("i") + " <= best_frac), trig=x_vals[i]))",
       ])})

# patterns (columns) are tuples of arbitrary length: an uninterpreted sort with equality
REG.fn(B, "_build_solution", prop="C17", ret="dict[U<col>,int]",
       types={"x_vals": "list[real]", "columns": "list[U<col>]", "eps": "real", "solution": "dict[U<col>,int]"},
       requires=["len(columns) >= len(x_vals)",
                 "forall(i, j, implies(0 <= i < j and j < len(columns), columns[i] != columns[j]), trig=((columns[i], columns[j]),))"],
       ensures=[
           # every used pattern gets exactly its (rounded) LP count, nothing else is in the plan, counts are positive
           "forall(i, implies(0 <= i < len(x_vals) and x_vals[i] > eps and pyround(x_vals[i]) > 0, has(result, columns[i]) and get(result, columns[i]) == pyround(x_vals[i])), trig=x_vals[i])",
           "forall(c, implies(has(result, c), get(result, c) > 0 and exists(i, 0 <= i < len(x_vals) and columns[i] == c and x_vals[i] > eps and get(result, c) == pyround(x_vals[i]))), sorts={'c': 'U<col>'}, trig=has(result, c))",
       ],
       loops={1: LoopSpec(index="q", invariants=[
           "forall(i, implies(0 <= i < q and x_vals[i] > eps and pyround(x_vals[i]) > 0, has(solution, columns[i]) and get(solution, columns[i]) == pyround(x_vals[i])), trig=x_vals[i])",
           "forall(c, implies(has(solution, c), get(solution, c) > 0 and exists(i, 0 <= i < q and columns[i] == c and x_vals[i] > eps and get(solution, c) == pyround(x_vals[i]))), sorts={'c': 'U<col>'}, trig=has(solution, c))",
       ])})

N = "solvor/network_simplex.py"
REG.fn(N, "_residual", prop="C09", ret="int",
       types={"arc": "int", "node": "int", "source": "list[int]", "flow": "list[int]", "cap": "list[int]"},
       requires=["0 <= arc < len(source)", "len(flow) == len(source)", "len(cap) == len(source)", "0 <= flow[arc] <= cap[arc]"],
       # room to push flow along the cycle through this arc: backwards arcs can give back their flow, forward arcs their slack
       ensures=["result == (flow[arc] if source[arc] == node else cap[arc] - flow[arc])", "result >= 0"])

# _find_join(u, v, depth, parent): the join of the pivot cycle = where the tree paths of the entering arc's end points
# meet.  Tree facts as network_simplex maintains them (lines 96-100 and the rebuild at 218-230): the root is the only
# node of depth 0 and has parent -1, every other node's parent is one level up.  anc(P, x, k) = the k-th ancestor of x.
REG.recfn("anc", [("P", "list[int]"), ("x", "int"), ("k", "int")], "int", on="k", base="x", step="P[anc(P, x, k - 1)]", group="anc")
_TREE = ["len(depth) == len(parent)",
         "forall(x, implies(0 <= x < len(depth), depth[x] >= 0), trig=depth[x])",
         "forall(x, implies(0 <= x < len(depth) and depth[x] > 0, 0 <= parent[x] < len(depth) and depth[parent[x]] == depth[x] - 1), trig=parent[x])",
         "forall(x, y, implies(0 <= x < len(depth) and 0 <= y < len(depth) and depth[x] == 0 and depth[y] == 0, x == y), trig=[[depth[x], depth[y]]])"]
REG.fn(N, "_find_join", prop="C09", ret="int", lemmas=["anc"],
       types={"u": "int", "v": "int", "depth": "list[int]", "parent": "list[int]"},
       requires=_TREE + ["0 <= u < len(depth)", "0 <= v < len(depth)"],
       # the answer is a common ancestor (or the node itself) of both arguments: walking up from either one by the
       # difference of depths arrives at it; and the walk terminates (the sum of the two depths decreases)
       ensures=["0 <= result < len(depth)", "depth[result] <= depth[old(u)]", "depth[result] <= depth[old(v)]",
                "result == anc(parent, old(u), depth[old(u)] - depth[result])",
                "result == anc(parent, old(v), depth[old(v)] - depth[result])"],
       loops={1: LoopSpec(decreases="depth[u] + depth[v]", invariants=[
           "0 <= u < len(depth)", "0 <= v < len(depth)", "depth[u] <= depth[old(u)]", "depth[v] <= depth[old(v)]",
           "u == anc(parent, old(u), depth[old(u)] - depth[u])", "v == anc(parent, old(v), depth[old(v)] - depth[v])"])})

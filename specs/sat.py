"""Contracts for solvor/sat.py helpers within the prover's reach (C01/C02)."""
from pyvc.spec import REG, LoopSpec

F = "solvor/sat.py"

REG.fn(F, "lit_var", prop="C01", ensures=["result >= 0", "result == lit or result == -lit",
                                         "implies(lit != 0, result >= 1)"])
REG.fn(F, "lit_sign", prop="C01", ensures=["result == (1 if lit > 0 else 0)"])
REG.fn(F, "lit_neg", prop="C01", ensures=["result == -lit", "implies(lit != 0, result != lit)"])

# luby(i), i >= 1: terminates and returns a power of two that is >= 1 and <= i (so every restart interval
# luby_factor * luby(idx) is finite and positive).  Termination is the clause C02 depends on: the unfixed
# code looped forever for i == 2.
REG.fn(F, "luby", prop="C02", requires=["i >= 1"],
       ensures=["result >= 1", "result <= i", "exists(e, e >= 0 and result == pow2(e))"],
       lemmas=["pow2"],
       loops={1: LoopSpec(invariants=["i >= 1", "k >= 1", "i >= pow2(k - 1)", "i <= old(i)"],
                          decreases="(i, i - pow2(k - 1))")})

"""Contracts for solvor/sat.py helpers within the prover's reach (C01/C02)."""
from pyvc.spec import REG, LoopSpec

F = "solvor/sat.py"

REG.fn(F, "lit_var", prop="C01", ensures=["result >= 0", "result == lit or result == -lit",
                                         "implies(lit != 0, result >= 1)"])
REG.fn(F, "lit_sign", prop="C01", ensures=["result == (1 if lit > 0 else 0)"])
REG.fn(F, "lit_neg", prop="C01", ensures=["result == -lit", "implies(lit != 0, result != lit)"])

# luby(i), i >= 1: terminates and returns a power of two that is >= 1 and <= i (so every restart interval
# luby_factor * luby(idx) is finite and positive).  Termination is the clause C02 depends on: the unfixed
# code looped forever for i == 2.
REG.fn(F, "luby", prop="C02", requires=["i >= 1"],
       ensures=["result >= 1", "result <= i", "exists(e, e >= 0 and result == pow2(e))"],
       lemmas=["pow2"],
       loops={1: LoopSpec(invariants=["i >= 1", "k >= 1", "i >= pow2(k - 1)", "i <= old(i)"],
                          decreases="(i, i - pow2(k - 1))")})

# ------------------------------------------------------------------ trail bookkeeping closures of solve_sat
REG.consts["UNDEF"] = ("int", 2)
CAP = {"trail": "list[int]", "trail_lim": "list[int]", "vals": "list[int]", "phase": "list[bool]",
       "in_heap": "list[bool]", "activity": "list[real]", "var_heap": "opaque", "prop_head": "int",
       "levels": "list[int]", "reasons": "list[int]", "propagations": "int"}

# trail / level consistency: assigned variables are exactly the (distinct) trail entries, level marks are
# ordered positions in the trail
REG.define("trail_inv", [], [
    "len(phase) == len(vals)", "len(in_heap) == len(vals)", "len(activity) == len(vals)",
    "len(levels) == len(vals)", "len(reasons) == len(vals)",
    "forall(i, implies(0 <= i < len(trail), 1 <= trail[i] < len(vals) and vals[trail[i]] != 2), trig=trail[i])",
    "forall(i, j, implies(0 <= i < j and j < len(trail), trail[i] != trail[j]), trig=((trail[i], trail[j]),))",
    "forall(v, implies(0 <= v < len(vals) and vals[v] != 2, exists(i, 0 <= i < len(trail) and trail[i] == v)), trig=vals[v])",
    "forall(i, implies(0 <= i < len(trail_lim), 0 <= trail_lim[i] <= len(trail)), trig=trail_lim[i])",
    "forall(i, j, implies(0 <= i < j and j < len(trail_lim), trail_lim[i] <= trail_lim[j]), trig=((trail_lim[i], trail_lim[j]),))",
])

F_ = "solvor/sat.py"
REG.fn(F_, "solve_sat.unassign_to", prop="C01,C02", captures=CAP, types={"level": "int"},
       requires=["level >= 0", "trail_inv()", "0 <= prop_head <= len(trail)"],
       ensures=[
           "trail_inv()",
           # backtracking to `level` keeps levels 0..level: the trail is cut at the START of level+1 ...
           "implies(old(len(trail_lim)) > level, len(trail_lim) == level and len(trail) == old(trail_lim)[level])",
           "implies(old(len(trail_lim)) <= level, len(trail_lim) == old(len(trail_lim)) and len(trail) == old(len(trail)))",
           # ... and what stays on the trail keeps its position and its value (level-0 facts survive every restart)
           "forall(i, implies(0 <= i < len(trail), trail[i] == old(trail)[i] and vals[trail[i]] == old(vals)[trail[i]]), trig=trail[i])",
           "forall(i, implies(0 <= i < len(trail_lim), trail_lim[i] == old(trail_lim)[i]), trig=trail_lim[i])",
           "prop_head <= len(trail)", "prop_head <= old(prop_head)",
           "len(vals) == old(len(vals))",
       ],
       modifies=["trail", "trail_lim", "vals", "phase", "in_heap", "var_heap", "prop_head"],
       loops={1: LoopSpec(invariants=[
           "len(phase) == len(vals)", "len(in_heap) == len(vals)", "len(activity) == len(vals)", "len(vals) == old(len(vals))",
           "len(levels) == len(vals)", "len(reasons) == len(vals)",
           "target <= len(trail) <= old(len(trail))", "0 <= target",
           "forall(i, implies(0 <= i < len(trail), trail[i] == old(trail)[i]), trig=trail[i])",
           "forall(i, implies(0 <= i < len(trail), vals[trail[i]] == old(vals)[trail[i]]), trig=trail[i])",
           "forall(v, implies(0 <= v < len(vals) and vals[v] != 2, exists(i, 0 <= i < len(trail) and trail[i] == v)), trig=vals[v])",
           "len(trail_lim) == level",
           "forall(i, implies(0 <= i < len(trail_lim), trail_lim[i] == old(trail_lim)[i]), trig=trail_lim[i])",
           "target == old(trail_lim)[level]",
       ], decreases="len(trail)")})

REG.fn(F_, "solve_sat.assign", prop="C01,C02", captures=CAP, types={"var": "int", "val": "bool", "reason_idx": "int"},
       requires=["trail_inv()", "1 <= var < len(vals)", "vals[var] == 2"],
       ensures=["trail_inv()", "len(trail) == old(len(trail)) + 1", "trail[len(trail) - 1] == var",
                "vals[var] == (1 if val else 0)", "levels[var] == len(trail_lim)", "reasons[var] == reason_idx",
                "forall(i, implies(0 <= i < old(len(trail)), trail[i] == old(trail)[i]), trig=trail[i])",
                "forall(v, implies(0 <= v < len(vals) and v != var, vals[v] == old(vals)[v]), trig=vals[v])",
                "len(vals) == old(len(vals))"],
       modifies=["trail", "vals", "levels", "reasons", "propagations"])

# ------------------------------------------------------------------ clause-database reduction keeps blocking clauses
REG.cls(F_, "BinaryImplications", fields={"pos": "list[list[tuple[int,int]]]", "neg": "list[list[tuple[int,int]]]"})
REG.fn(F_, "BinaryImplications.add", prop="C01", trusted=True, types={"lit_a": "int", "lit_b": "int", "clause_idx": "int"},
       ensures=["len(self.pos) == old(len(self.pos))", "len(self.neg) == old(len(self.neg))"], modifies=["self.pos", "self.neg"],
       note="assumed: only appends to the implication lists")
REG.fn(F_, "BinaryImplications.clear_learned", prop="C01", trusted=True, types={"original_count": "int"},
       ensures=["len(self.pos) == old(len(self.pos))", "len(self.neg) == old(len(self.neg))"], modifies=["self.pos", "self.neg"],
       note="assumed: only filters the implication lists")
WCAP = {"watch_pos": "list[list[int]]", "watch_neg": "list[list[int]]"}
REG.fn(F_, "solve_sat.add_watch", prop="C01", captures=WCAP, types={"lit": "int", "idx": "int"},
       requires=["lit != 0", "-len(watch_pos) < lit < len(watch_pos)", "len(watch_neg) == len(watch_pos)"],
       ensures=["len(watch_pos) == old(len(watch_pos))", "len(watch_neg) == old(len(watch_neg))"],
       modifies=["watch_pos", "watch_neg"])

RCAP = dict(WCAP, learned="list[list[int]]", lbd_scores="list[int]", clauses="list[list[int]]", n_vars="int",
            big="obj<BinaryImplications>")
WF = "forall(i, k, implies(0 <= i < len({L}) and 0 <= k < len({L}[i]), {L}[i][k] != 0 and -n_vars <= {L}[i][k] <= n_vars), trig={L}[i][k])"
REG.fn(F_, "solve_sat.reduce_db", prop="C01", captures=RCAP,
       types={"indexed": "list[tuple[int,list[int]]]", "keep": "list[list[int]]", "keep_lbd": "list[int]",
              "_comp3": "list[int]", "_comp4": "list[int]", "kpos": "map[int,int]", "src": "map[int,int]"},
       requires=["len(lbd_scores) == len(learned)", "n_vars >= 0", "len(watch_pos) == n_vars + 1", "len(watch_neg) == n_vars + 1",
                 WF.format(L="learned")],
       ghost_before=[("keep, keep_lbd = (", "kpos", "lam(p, 0)"),
                     # src[i] = position of the old clause i in the sorted list (the permutation's inverse)
                     ("keep, keep_lbd = (", "src", "_perm_inv")],
       ghost_after=[("keep_lbd.append(", "kpos", "store(kpos, _k1, len(keep) - 1)")],
       ensures=[
           "len(lbd_scores) == len(learned)",
           "implies(old(len(learned)) < 2000, learned == old(learned) and lbd_scores == old(lbd_scores))",
           # every clause whose score is at most 3 survives with its score - in particular every blocking clause
           # (recorded with score 0), however many clauses the database holds
           # (witness form: the old clause i sits at position kpos[src[i]] of the new list; below 2000 clauses nothing changes)
           "implies(defined('kpos'), forall(i, implies(0 <= i < old(len(learned)) and old(lbd_scores)[i] <= 3, 0 <= kpos[src[i]] < len(learned) and learned[kpos[src[i]]] == old(learned)[i] and lbd_scores[kpos[src[i]]] == old(lbd_scores)[i]), trig=src[i]))",
           # nothing is invented: every kept clause is one of the old ones
           "forall(j, implies(0 <= j < len(learned), exists(i, 0 <= i < old(len(learned)) and learned[j] == old(learned)[i])), trig=learned[j])",
       ],
       modifies=["learned", "lbd_scores", "watch_pos", "watch_neg", "big.pos", "big.neg"],
       loops={
           1: LoopSpec(index="_k1", invariants=[
               "len(keep) == len(keep_lbd)", "len(indexed) == old(len(learned))", "learned == old(learned)", "lbd_scores == old(lbd_scores)",
               "forall(i, implies(0 <= i < len(learned), 0 <= src[i] < len(indexed) and indexed[src[i]][0] == i and indexed[src[i]][1] == learned[i]), trig=src[i])",
               "forall(p, implies(0 <= p < _k1 and (p < len(indexed) // 2 or lbd_scores[indexed[p][0]] <= 3), 0 <= kpos[p] < len(keep) and keep[kpos[p]] == indexed[p][1] and keep_lbd[kpos[p]] == lbd_scores[indexed[p][0]]), trig=indexed[p])",
               "forall(j, implies(0 <= j < len(keep), exists(p, 0 <= p < _k1 and keep[j] == indexed[p][1])), trig=keep[j])"]),
           2: LoopSpec(invariants=["len(watch_pos) == n_vars + 1", "len(watch_neg) == n_vars + 1"]),
           3: LoopSpec(invariants=[]), 4: LoopSpec(invariants=[]),
           5: LoopSpec(invariants=["len(watch_pos) == n_vars + 1", "len(watch_neg) == n_vars + 1"]),
       })

"""Contracts for solvor/sat.py helpers within the prover's reach (C01/C02)."""
from pyvc.spec import REG, LoopSpec

F = "solvor/sat.py"

REG.fn(F, "lit_var", prop="C01", ensures=["result >= 0", "result == lit or result == -lit",
                                         "implies(lit != 0, result >= 1)"])
REG.fn(F, "lit_sign", prop="C01", ensures=["result == (1 if lit > 0 else 0)"])
REG.fn(F, "lit_neg", prop="C01", ensures=["result == -lit", "implies(lit != 0, result != lit)"])

# luby(i), i >= 1: terminates and returns a power of two that is >= 1 and <= i (so every restart interval
# luby_factor * luby(idx) is finite and positive).  Termination is the clause C02 depends on: the unfixed
# code looped forever for i == 2.
REG.fn(F, "luby", prop="C02", requires=["i >= 1"],
       ensures=["result >= 1", "result <= i", "exists(e, e >= 0 and result == pow2(e))"],
       lemmas=["pow2"],
       loops={1: LoopSpec(invariants=["i >= 1", "k >= 1", "i >= pow2(k - 1)", "i <= old(i)"],
                          decreases="(i, i - pow2(k - 1))")})

# ------------------------------------------------------------------ trail bookkeeping closures of solve_sat
REG.consts["UNDEF"] = ("int", 2)
CAP = {"trail": "list[int]", "trail_lim": "list[int]", "vals": "list[int]", "phase": "list[bool]",
       "in_heap": "list[bool]", "activity": "list[real]", "var_heap": "opaque", "prop_head": "int",
       "levels": "list[int]", "reasons": "list[int]", "propagations": "int"}

# trail / level consistency: assigned variables are exactly the (distinct) trail entries, level marks are
# ordered positions in the trail
REG.define("trail_inv", [], [
    "len(phase) == len(vals)", "len(in_heap) == len(vals)", "len(activity) == len(vals)",
    "len(levels) == len(vals)", "len(reasons) == len(vals)",
    "forall(i, implies(0 <= i < len(trail), 1 <= trail[i] < len(vals) and vals[trail[i]] != 2), trig=trail[i])",
    "forall(i, j, implies(0 <= i < j and j < len(trail), trail[i] != trail[j]), trig=((trail[i], trail[j]),))",
    "forall(v, implies(0 <= v < len(vals) and vals[v] != 2, exists(i, 0 <= i < len(trail) and trail[i] == v)), trig=vals[v])",
    "forall(i, implies(0 <= i < len(trail_lim), 0 <= trail_lim[i] <= len(trail)), trig=trail_lim[i])",
    "forall(i, j, implies(0 <= i < j and j < len(trail_lim), trail_lim[i] <= trail_lim[j]), trig=((trail_lim[i], trail_lim[j]),))",
])

F_ = "solvor/sat.py"
REG.fn(F_, "solve_sat.unassign_to", prop="C01,C02", captures=CAP, types={"level": "int"},
       requires=["level >= 0", "trail_inv()", "0 <= prop_head <= len(trail)"],
       ensures=[
           "trail_inv()",
           # backtracking to `level` keeps levels 0..level: the trail is cut at the START of level+1 ...
           "implies(old(len(trail_lim)) > level, len(trail_lim) == level and len(trail) == old(trail_lim)[level])",
           "implies(old(len(trail_lim)) <= level, len(trail_lim) == old(len(trail_lim)) and len(trail) == old(len(trail)))",
           # ... and what stays on the trail keeps its position and its value (level-0 facts survive every restart)
           "forall(i, implies(0 <= i < len(trail), trail[i] == old(trail)[i] and vals[trail[i]] == old(vals)[trail[i]]), trig=trail[i])",
           "forall(i, implies(0 <= i < len(trail_lim), trail_lim[i] == old(trail_lim)[i]), trig=trail_lim[i])",
           "prop_head <= len(trail)", "prop_head <= old(prop_head)",
           "len(vals) == old(len(vals))",
       ],
       modifies=["trail", "trail_lim", "vals", "phase", "in_heap", "var_heap", "prop_head"],
       loops={1: LoopSpec(invariants=[
           "len(phase) == len(vals)", "len(in_heap) == len(vals)", "len(activity) == len(vals)", "len(vals) == old(len(vals))",
           "len(levels) == len(vals)", "len(reasons) == len(vals)",
           "target <= len(trail) <= old(len(trail))", "0 <= target",
           "forall(i, implies(0 <= i < len(trail), trail[i] == old(trail)[i]), trig=trail[i])",
           "forall(i, implies(0 <= i < len(trail), vals[trail[i]] == old(vals)[trail[i]]), trig=trail[i])",
           "forall(v, implies(0 <= v < len(vals) and vals[v] != 2, exists(i, 0 <= i < len(trail) and trail[i] == v)), trig=vals[v])",
           "len(trail_lim) == level",
           "forall(i, implies(0 <= i < len(trail_lim), trail_lim[i] == old(trail_lim)[i]), trig=trail_lim[i])",
           "target == old(trail_lim)[level]",
       ], decreases="len(trail)")})

REG.fn(F_, "solve_sat.assign", prop="C01,C02", captures=CAP, types={"var": "int", "val": "bool", "reason_idx": "int"},
       requires=["trail_inv()", "1 <= var < len(vals)", "vals[var] == 2"],
       ensures=["trail_inv()", "len(trail) == old(len(trail)) + 1", "trail[len(trail) - 1] == var",
                "vals[var] == (1 if val else 0)", "levels[var] == len(trail_lim)", "reasons[var] == reason_idx",
                "forall(i, implies(0 <= i < old(len(trail)), trail[i] == old(trail)[i]), trig=trail[i])",
                "forall(v, implies(0 <= v < len(vals) and v != var, vals[v] == old(vals)[v]), trig=vals[v])",
                "len(vals) == old(len(vals))"],
       modifies=["trail", "vals", "levels", "reasons", "propagations"])

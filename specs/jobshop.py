"""Contract for solvor/job_shop.py::_dispatch (C18): the schedule builder behind every solve_job_shop answer.

Proved for all instances (machines in range, durations >= 0), every dispatching rule and every seed (the rule string is not
interpreted: each branch is taken arbitrarily; `rng.choice` returns an arbitrary element):
  * the schedule holds exactly the operations (j, o) with o < len(jobs[j])  (completeness: counting argument with `isum`),
  * end - start == duration and start >= 0 for each,
  * operations of a job are in order without overlap (start of o >= end of o - 1),
  * no two operations on one machine overlap.
"""
from pyvc.spec import REG, LoopSpec

J = "solvor/job_shop.py"
JOBS = "list[list[tuple[int,int]]]"
SCHED = "dict[tuple[int,int],tuple[int,int]]"

# sum of the first k entries of an int list / of the lengths of the first k jobs
REG.recfn("isum", [("A", "map[int,int]"), ("k", "int")], "int", on="k", base="0", step="isum(A, k - 1) + A[k - 1]", group="js")
REG.recfn("lsumlen", [("L", JOBS), ("k", "int")], "int", on="k", base="0", step="lsumlen(L, k - 1) + len(L[k - 1])", group="js")
REG.lemma("isum_store", ["A", "p", "v", "k"], "isum(store(A, p, v), k) == isum(A, k) + ((v - A[p]) if 0 <= p < k else 0)",
          kind="induction", on="k", group="js", var_sorts={"A": "map[int,int]"}, trig=["isum(store(A, p, v), k)"])
REG.lemma("isum_zero", ["A", "k"], "implies(forall(t, implies(0 <= t < k, A[t] == 0)), isum(A, k) == 0)",
          kind="induction", on="k", group="js", var_sorts={"A": "map[int,int]"}, trig=["isum(A, k)"])
# componentwise bounded with equal sums: equal everywhere
REG.lemma("isum_tight", ["A", "L", "k"],
          "implies(forall(t, implies(0 <= t < k, A[t] <= len(L[t]))), isum(A, k) <= lsumlen(L, k) and implies(isum(A, k) == lsumlen(L, k), forall(t, implies(0 <= t < k, A[t] == len(L[t])), trig=A[t])))",
          kind="induction", on="k", group="js", var_sorts={"A": "map[int,int]", "L": JOBS}, trig=["isum(A, k)", "lsumlen(L, k)"])


def S(j, o):
    return f"get(schedule, ({j}, {o}))"


VALID = [
    "len(next_op) == n_jobs", "len(job_free) == n_jobs", "len(machine_free) == n_machines", "n_jobs == len(jobs)",
    "forall(j, implies(0 <= j < n_jobs, 0 <= next_op[j] <= len(jobs[j])), trig=next_op[j])",
    # exactly the dispatched operations are in the schedule
    "forall(k, iff(has(schedule, k), 0 <= k[0] < n_jobs and 0 <= k[1] < next_op[k[0]]), sorts={'k': 'tuple[int,int]'}, trig=has(schedule, k))",
    # shape of each entry
    "forall(j, o, implies(0 <= j < n_jobs and 0 <= o < next_op[j], " + S("j", "o") + "[1] - " + S("j", "o") + "[0] == jobs[j][o][1] and " + S("j", "o") + "[0] >= 0), trig=" + S("j", "o") + ")",
    # job order, and job_free / machine_free dominate what is scheduled
    "forall(j, o, implies(0 <= j < n_jobs and 1 <= o < next_op[j], " + S("j", "o") + "[0] >= " + S("j", "o - 1") + "[1]), trig=" + S("j", "o") + ")",
    "forall(j, o, implies(0 <= j < n_jobs and 0 <= o < next_op[j], " + S("j", "o") + "[1] <= job_free[j] and " + S("j", "o") + "[1] <= machine_free[jobs[j][o][0]]), trig=" + S("j", "o") + ")",
    "forall(j, implies(0 <= j < n_jobs, job_free[j] >= 0), trig=job_free[j])",
    "forall(m, implies(0 <= m < n_machines, machine_free[m] >= 0), trig=machine_free[m])",
    # machine capacity
    "forall(j, o, j2, o2, implies(0 <= j < n_jobs and 0 <= o < next_op[j] and 0 <= j2 < n_jobs and 0 <= o2 < next_op[j2] and (j != j2 or o != o2) and jobs[j][o][0] == jobs[j2][o2][0], "
    + S("j", "o") + "[1] <= " + S("j2", "o2") + "[0] or " + S("j2", "o2") + "[1] <= " + S("j", "o") + "[0]), trig=((" + S("j", "o") + ", " + S("j2", "o2") + "),))",
]
READY = ("forall(p, implies(0 <= p < len(ready), 0 <= ready[p][0] < n_jobs and ready[p][1] == next_op[ready[p][0]] and ready[p][1] < len(jobs[ready[p][0]]) and "
         "ready[p][2] == jobs[ready[p][0]][ready[p][1]][0] and ready[p][3] == jobs[ready[p][0]][ready[p][1]][1]), trig=ready[p])")

REG.fn(J, "_dispatch", prop="C18", ret=SCHED, raises_ok=True, lemmas=["js"], shards=8,
       types={"jobs": JOBS, "rule": "opaque", "rule_lower": "opaque", "rng": "rng", "schedule": SCHED, "next_op": "list[int]", "machine_free": "list[int]",
              "job_free": "list[int]", "remaining_work": "list[int]", "_comp1": "list[int]", "_sum2": "int", "_sum3": "int",
              "ready": "list[tuple[int,int,int,int]]", "selected": "tuple[int,int,int,int]"},
       requires=["n_machines >= 0",
                 "forall(j, o, implies(0 <= j < len(jobs) and 0 <= o < len(jobs[j]), 0 <= jobs[j][o][0] < n_machines and jobs[j][o][1] >= 0), trig=jobs[j][o])"],
       ensures=[
           "forall(k, iff(has(result, k), 0 <= k[0] < len(jobs) and 0 <= k[1] < len(jobs[k[0]])), sorts={'k': 'tuple[int,int]'}, trig=has(result, k))",
           "forall(j, o, implies(0 <= j < len(jobs) and 0 <= o < len(jobs[j]), get(result, (j, o))[1] - get(result, (j, o))[0] == jobs[j][o][1] and get(result, (j, o))[0] >= 0), trig=get(result, (j, o)))",
           "forall(j, o, implies(0 <= j < len(jobs) and 1 <= o < len(jobs[j]), get(result, (j, o))[0] >= get(result, (j, o - 1))[1]), trig=get(result, (j, o)))",
           "forall(j, o, j2, o2, implies(0 <= j < len(jobs) and 0 <= o < len(jobs[j]) and 0 <= j2 < len(jobs) and 0 <= o2 < len(jobs[j2]) and (j != j2 or o != o2) and jobs[j][o][0] == jobs[j2][o2][0], "
           "get(result, (j, o))[1] <= get(result, (j2, o2))[0] or get(result, (j2, o2))[1] <= get(result, (j, o))[0]), trig=((get(result, (j, o)), get(result, (j2, o2))),))",
       ],
       loops={
           1: LoopSpec(index="q", invariants=["len(_comp1) == q"]),
           2: LoopSpec(index="q2", invariants=[]),
           3: LoopSpec(index="q3", invariants=["_sum3 == lsumlen(jobs, q3)"]),
           4: LoopSpec(invariants=VALID + ["len(remaining_work) == n_jobs", "total_ops == lsumlen(jobs, n_jobs)", "isum(arr(next_op), n_jobs) == _", "_ >= 0"]),
           5: LoopSpec(invariants=VALID + ["len(remaining_work) == n_jobs", "0 <= j", READY,
                                           # completeness of `ready`: every job that still has an operation and was scanned is in it
                                           "forall(t, implies(0 <= t < j and next_op[t] < len(jobs[t]), len(ready) > 0), trig=next_op[t])"]),
       })

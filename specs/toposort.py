"""Contract for solvor/scc.py::topological_sort (C14, Kahn's algorithm)  -  see the ensures for what is proved.

The counting argument: in_degree[w] is at all times the number of edge occurrences u -> w whose source has not been output
(spec functions cnt / pend over a ghost copy AD of the adjacency lists and the ghost 'processed' map P).
"""
from pyvc.spec import REG, LoopSpec
import specs.search  # noqa: Result
import specs.paths  # noqa: Nb

F = "solvor/scc.py"
LS = "list[U<S>]"
AM = "map[U<S>,list[U<S>]]"
PM = "map[U<S>,bool]"
REG.ghostfn("posf", ["U<S>"], "int")  # posf(nodes[t]) == t: the nodes are pairwise distinct
# occurrences of x among the first k entries of an element array
REG.recfn("cnt", [("A", "map[int,U<S>]"), ("x", "U<S>"), ("k", "int")], "int", on="k", base="0",
          step="cnt(A, x, k - 1) + (1 if A[k - 1] == x else 0)", group="topo")
# edge occurrences into x from the not yet processed nodes among the first k nodes
REG.recfn("pend", [("N", LS), ("AD", AM), ("P", PM), ("x", "U<S>"), ("k", "int")], "int", on="k", base="0",
          step="pend(N, AD, P, x, k - 1) + (0 if P[N[k - 1]] else cnt(arr(AD[N[k - 1]]), x, len(AD[N[k - 1]])))", group="topo")
VS = {"A": "map[int,U<S>]", "x": "U<S>", "v": "U<S>", "N": LS, "AD": AM, "P": PM, "Ln": LS, "e": "U<S>"}
REG.lemma("cnt_frame", ["A", "x", "k", "p", "e"], "implies(p >= k, cnt(store(A, p, e), x, k) == cnt(A, x, k))",
          kind="induction", on="k", group="topo", var_sorts=VS, trig=["cnt(store(A, p, e), x, k)"])
REG.lemma("cnt_range", ["A", "x", "k"], "0 <= cnt(A, x, k) <= k",
          kind="induction", on="k", group="topo", var_sorts=VS, trig=["cnt(A, x, k)"])
# occurrences of x among the last d of the first n entries (what a scan that has reached index n - d still has to visit)
REG.recfn("cntr", [("A", "map[int,U<S>]"), ("x", "U<S>"), ("n", "int"), ("d", "int")], "int", on="d", base="0",
          step="cntr(A, x, n, d - 1) + (1 if A[n - d] == x else 0)", group="topo")
REG.lemma("cntr_def", ["A", "x", "n", "d"], "implies(d <= n, cntr(A, x, n, d) == cnt(A, x, n) - cnt(A, x, n - d))",
          kind="induction", on="d", group="topo", var_sorts=VS, trig=["cntr(A, x, n, d)"])
REG.lemma("cntr_hit", ["A", "x", "n", "d"], "cntr(A, x, n, d) >= 0 and forall(i, implies(n - d <= i < n and A[i] == x, cntr(A, x, n, d) >= 1), trig=A[i])",
          kind="induction", on="d", group="topo", var_sorts=VS, trig=["cntr(A, x, n, d)"])
REG.lemma("cnt_zero", ["A", "x", "k"], "implies(cnt(A, x, k) == 0, forall(t, implies(0 <= t < k, A[t] != x), trig=A[t]))",
          kind="induction", on="k", group="topo", uses=["cnt_range"], var_sorts=VS, trig=["cnt(A, x, k)"])
REG.lemma("cnt_pos", ["A", "x", "k"], "implies(cnt(A, x, k) > 0, exists(t, 0 <= t < k and A[t] == x))",
          kind="induction", on="k", group="topo", uses=["cnt_range"], var_sorts=VS, trig=["cnt(A, x, k)"])
REG.lemma("pend_range", ["N", "AD", "P", "x", "k"], "pend(N, AD, P, x, k) >= 0",
          kind="induction", on="k", group="topo", uses=["cnt_range"], var_sorts=VS, trig=["pend(N, AD, P, x, k)"])
DIST = "forall(t, implies(0 <= t < k, posf(N[t]) == t), trig=N[t])"
REG.lemma("pend_storeA", ["N", "AD", "P", "x", "k", "v", "Ln"],
          "implies(" + DIST + ", pend(N, store(AD, v, Ln), P, x, k) == pend(N, AD, P, x, k) + "
          "((cnt(arr(Ln), x, len(Ln)) - cnt(arr(AD[v]), x, len(AD[v]))) if (0 <= posf(v) < k and N[posf(v)] == v and not P[v]) else 0))",
          kind="induction", on="k", group="topo", var_sorts=VS, trig=["pend(N, store(AD, v, Ln), P, x, k)"])
REG.lemma("pend_markP", ["N", "AD", "P", "x", "k", "v"],
          "implies(" + DIST + ", pend(N, AD, store(P, v, True), x, k) == pend(N, AD, P, x, k) - "
          "(cnt(arr(AD[v]), x, len(AD[v])) if (0 <= posf(v) < k and N[posf(v)] == v and not P[v]) else 0))",
          kind="induction", on="k", group="topo", var_sorts=VS, trig=["pend(N, AD, store(P, v, True), x, k)"])
REG.lemma("pend_zero", ["N", "AD", "P", "x", "k"],
          "implies(pend(N, AD, P, x, k) == 0, forall(t, implies(0 <= t < k and not P[N[t]], cnt(arr(AD[N[t]]), x, len(AD[N[t]])) == 0), trig=N[t]))",
          kind="induction", on="k", group="topo", uses=["cnt_range", "pend_range"], var_sorts=VS, trig=["pend(N, AD, P, x, k)"])
REG.lemma("pend_pos", ["N", "AD", "P", "x", "k"],
          "implies(pend(N, AD, P, x, k) > 0, exists(t, 0 <= t < k and not P[N[t]] and cnt(arr(AD[N[t]]), x, len(AD[N[t]])) > 0))",
          kind="induction", on="k", group="topo", uses=["cnt_range", "pend_range"], var_sorts=VS, trig=["pend(N, AD, P, x, k)"])

# processed nodes among the first k
REG.recfn("pcount", [("N", LS), ("P", PM), ("k", "int")], "int", on="k", base="0",
          step="pcount(N, P, k - 1) + (1 if P[N[k - 1]] else 0)", group="topo")
REG.lemma("pcount_mark", ["N", "P", "k", "v"],
          "implies(" + DIST + ", pcount(N, store(P, v, True), k) == pcount(N, P, k) + (1 if (0 <= posf(v) < k and N[posf(v)] == v and not P[v]) else 0))",
          kind="induction", on="k", group="topo", var_sorts=VS, trig=["pcount(N, store(P, v, True), k)"])
REG.lemma("pcount_free", ["N", "P", "k"], "0 <= pcount(N, P, k) <= k and implies(pcount(N, P, k) < k, exists(t, 0 <= t < k and not P[N[t]]))",
          kind="induction", on="k", group="topo", var_sorts=VS, trig=["pcount(N, P, k)"])
REG.lemma("pcount_full", ["N", "P", "k"], "implies(pcount(N, P, k) >= k, forall(t, implies(0 <= t < k, P[N[t]]), trig=N[t]))",
          kind="induction", on="k", group="topo", uses=["pcount_free"], var_sorts=VS, trig=["pcount(N, P, k)"])
REG.lemma("pcount_none", ["N", "P", "k"], "implies(forall(t, implies(0 <= t < k, not P[N[t]])), pcount(N, P, k) == 0)",
          kind="induction", on="k", group="topo", var_sorts=VS, trig=["pcount(N, P, k)"])
REG.lemma("pend_empty", ["N", "AD", "P", "x", "k"], "implies(forall(t, implies(0 <= t < k, len(AD[N[t]]) == 0)), pend(N, AD, P, x, k) == 0)",
          kind="induction", on="k", group="topo", var_sorts=VS, trig=["pend(N, AD, P, x, k)"])

NODE = "(0 <= posf({x}) < len(node_list) and node_list[posf({x})] == {x})"
BASE = [
    "len(node_list) == len(nodes)",
    "forall(t, implies(0 <= t < len(node_list), posf(node_list[t]) == t), trig=node_list[t])",
    "forall(x, has(node_set, x) == " + NODE.format(x="x") + ", sorts={'x': 'U<S>'}, trig=has(node_set, x))",
    "forall(x, has(in_degree, x) == has(node_set, x), sorts={'x': 'U<S>'}, trig=has(in_degree, x))",
    "forall(x, has(adjacency, x) == has(node_set, x), sorts={'x': 'U<S>'}, trig=has(adjacency, x))",
    # the ghost copy of the adjacency lists; its entries are nodes
    "forall(x, implies(has(node_set, x), get(adjacency, x) == AD[x]), sorts={'x': 'U<S>'}, trig=AD[x])",
    "forall(x, i, implies(has(node_set, x) and 0 <= i < len(AD[x]), has(node_set, AD[x][i])), sorts={'x': 'U<S>'}, trig=AD[x][i])",
    "forall(x, implies(has(node_set, x), len(AD[x]) >= 0), sorts={'x': 'U<S>'}, trig=AD[x])",
    # every recorded edge is one the neighbour function offered (ghost src: its index there)
    "forall(x, i, implies(has(node_set, x) and 0 <= i < len(AD[x]), 0 <= src[(x, i)] < len(Nb(x)) and Nb(x)[src[(x, i)]] == AD[x][i]), sorts={'x': 'U<S>'}, trig=AD[x][i])",
]
COUNT = "forall(x, implies(has(node_set, x), get(in_degree, x) == pend(node_list, AD, P, x, len(node_list)){corr}), sorts={{'x': 'U<S>'}}, trig={trig})"
T1 = "get(in_degree, x)"
T2 = "(get(in_degree, x), has(node_set, x))"
# every offered neighbour that is a node is recorded (for the first `hi` nodes completely)
RECORDED = ("forall(t, i, implies(0 <= t < {hi} and 0 <= i < len(Nb(node_list[t])) and has(node_set, Nb(node_list[t])[i]), "
            "0 <= rp[(node_list[t], i)] < len(AD[node_list[t]]) and AD[node_list[t]][rp[(node_list[t], i)]] == Nb(node_list[t])[i]), trig=Nb(node_list[t])[i])")
NOTP = "forall(x, not P[x], sorts={'x': 'U<S>'}, trig=P[x])"
# the queue: unprocessed nodes without pending predecessors, pairwise distinct; every such node is in it
QUEUE = [
    "forall(p, implies(0 <= p < len(queue), has(node_set, queue[p]) and not P[queue[p]] and get(in_degree, queue[p]) == 0), trig=queue[p])",
    "forall(p, implies(0 <= p < len(queue), qpos[queue[p]] == p), trig=queue[p])",
]
QCOMPLETE = "forall(x, implies(has(node_set, x) and not P[x] and get(in_degree, x) == 0{extra}, 0 <= qpos[x] < len(queue) and queue[qpos[x]] == x), sorts={{'x': 'U<S>'}}, trig={trig})"
RESULT = [
    "len(result) == pcount(node_list, P, len(node_list))",
    "forall(p, implies(0 <= p < len(result), has(node_set, result[p]) and P[result[p]] and rank[result[p]] == p), trig=result[p])",
    "forall(x, implies(has(node_set, x) and P[x], 0 <= rank[x] < len(result) and result[rank[x]] == x), sorts={'x': 'U<S>'}, trig=rank[x])",
    "forall(x, implies(P[x], has(node_set, x)), sorts={'x': 'U<S>'}, trig=P[x])",
]
# an edge into a processed node comes from a node processed earlier
FORWARD = ("forall(t, i, implies(0 <= t < len(node_list) and 0 <= i < len(AD[node_list[t]]) and P[AD[node_list[t]][i]], "
           "P[node_list[t]] and rank[node_list[t]] < rank[AD[node_list[t]][i]]), trig=AD[node_list[t]][i])")

REG.fn(F, "topological_sort", prop="C14", ret="Result[opt[" + LS + "]]", lemmas=["topo"], shards=10,
       types={"nodes": LS, "neighbors": "fun:Nb", "node_list": LS, "node_set": "set[U<S>]", "in_degree": "dict[U<S>,int]",
              "adjacency": "dict[U<S>,list[U<S>]]", "queue": LS, "result": LS, "_comp3": LS,
              "AD": AM, "P": PM, "rank": "map[U<S>,int]", "qpos": "map[U<S>,int]", "rp": "map[tuple[U<S>,int],int]", "src": "map[tuple[U<S>,int],int]"},
       requires=["forall(t, implies(0 <= t < len(nodes), posf(nodes[t]) == t), trig=nodes[t])"],
       ghost_after=[("adjacency: dict[S, list[S]] = ", "AD", "lam(x, get(adjacency, x), sort='U<S>')"),
                    ("adjacency: dict[S, list[S]] = ", "P", "lam(x, False, sort='U<S>')"),
                    ("adjacency: dict[S, list[S]] = ", "rank", "lam(x, 0, sort='U<S>')"),
                    ("adjacency: dict[S, list[S]] = ", "qpos", "lam(x, 0, sort='U<S>')"),
                    ("adjacency: dict[S, list[S]] = ", "rp", "lam(e, 0, sort='tuple[U<S>,int]')"),
                    ("adjacency: dict[S, list[S]] = ", "src", "lam(e, 0, sort='tuple[U<S>,int]')"),
                    ("adjacency[v].append(w)", "AD", "store(AD, v, get(adjacency, v))"),
                    ("adjacency[v].append(w)", "rp", "store(rp, (v, q2), len(AD[v]) - 1)"),
                    ("adjacency[v].append(w)", "src", "store(src, (v, len(AD[v]) - 1), q2)"),
                    ("v = queue.popleft()", "P", "store(P, v, True)"),
                    ("v = queue.popleft()", "qpos", "lam(x, qpos[x] - 1, sort='U<S>')"),
                    ("queue.append(w)", "qpos", "store(qpos, w, len(queue) - 1)"),
                    ("result.append(v)", "rank", "store(rank, v, len(result) - 1)")],
       ensures=[
           "result.status == 1 or result.status == 3",
           # OPTIMAL: the answer lists every node exactly once (rank is its inverse) ...
           "implies(result.status == 1, not is_none(result.solution) and len(val(result.solution)) == len(nodes))",
           "implies(result.status == 1, forall(p, implies(0 <= p < len(val(result.solution)), has(node_set, val(result.solution)[p]) and rank[val(result.solution)[p]] == p), trig=val(result.solution)[p]))",
           "implies(result.status == 1, forall(t, implies(0 <= t < len(nodes), 0 <= rank[nodes[t]] < len(nodes) and val(result.solution)[rank[nodes[t]]] == nodes[t]), trig=nodes[t]))",
           # ... and every offered edge between two nodes points forward (so the graph has no cycle)
           "implies(result.status == 1, forall(t, i, implies(0 <= t < len(nodes) and 0 <= i < len(Nb(nodes[t])) and has(node_set, Nb(nodes[t])[i]), "
           "rank[nodes[t]] < rank[Nb(nodes[t])[i]]), trig=Nb(nodes[t])[i]))",
           # INFEASIBLE: no answer; a non-empty set of nodes (those never output) each of which has an offered edge from another of them (so the graph has a cycle)
           "implies(result.status == 3, is_none(result.solution) and exists(t, 0 <= t < len(nodes) and not P[nodes[t]]))",
           "implies(result.status == 3, forall(x, implies(has(node_set, x) and not P[x], exists(t, j, 0 <= t < len(nodes) and not P[nodes[t]] and 0 <= j < len(Nb(nodes[t])) and Nb(nodes[t])[j] == x)), sorts={'x': 'U<S>'}, trig=has(node_set, x)))",
           "forall(x, implies(P[x], has(node_set, x)), sorts={'x': 'U<S>'}, trig=P[x])",
           "forall(x, has(node_set, x) == (0 <= posf(x) < len(nodes) and nodes[posf(x)] == x), sorts={'x': 'U<S>'}, trig=has(node_set, x))",
       ],
       loops={
           1: LoopSpec(index="q1", invariants=BASE + [NOTP, COUNT.format(corr="", trig=T1), RECORDED.format(hi="q1"),
                                                      "forall(t, implies(q1 <= t < len(node_list), len(AD[node_list[t]]) == 0), trig=node_list[t])"]),
           2: LoopSpec(index="q2", invariants=BASE + [NOTP, COUNT.format(corr="", trig=T1), RECORDED.format(hi="q1"), "0 <= q1 < len(node_list)", "v == node_list[q1]",
                                                      "forall(t, implies(q1 < t < len(node_list), len(AD[node_list[t]]) == 0), trig=node_list[t])",
                                                      "forall(i, implies(0 <= i < q2 and has(node_set, Nb(v)[i]), 0 <= rp[(v, i)] < len(AD[v]) and AD[v][rp[(v, i)]] == Nb(v)[i]), trig=Nb(v)[i])"]),
           3: LoopSpec(index="q3", invariants=BASE + [NOTP, COUNT.format(corr="", trig=T1), RECORDED.format(hi="len(node_list)"),
               "forall(p, implies(0 <= p < len(_comp3), has(node_set, _comp3[p]) and get(in_degree, _comp3[p]) == 0 and 0 <= posf(_comp3[p]) < q3), trig=_comp3[p])",
               "forall(p, implies(0 <= p < len(_comp3), qpos[_comp3[p]] == p), trig=_comp3[p])",
               "forall(x, implies(has(node_set, x) and posf(x) < q3 and get(in_degree, x) == 0, 0 <= qpos[x] < len(_comp3) and _comp3[qpos[x]] == x), sorts={'x': 'U<S>'}, trig=get(in_degree, x))"],
               ghost={"qpos": "store(qpos, node_list[q3 - 1], len(_comp3) - 1) if get(in_degree, node_list[q3 - 1]) == 0 else qpos"}),
           4: LoopSpec(invariants=BASE + QUEUE + RESULT + [COUNT.format(corr="", trig=T2), RECORDED.format(hi="len(node_list)"), FORWARD, QCOMPLETE.format(extra="", trig=T1)]),
           5: LoopSpec(index="q5", invariants=BASE + QUEUE + RESULT + [RECORDED.format(hi="len(node_list)"), FORWARD,
               "has(node_set, v)", "P[v]", "0 <= q5 <= len(AD[v])",
               COUNT.format(corr=" + cntr(arr(AD[v]), x, len(AD[v]), len(AD[v]) - q5)", trig=T1),
               # the neighbours of v not yet visited still have a pending edge
               "forall(i, implies(q5 <= i < len(AD[v]), get(in_degree, AD[v][i]) >= 1), trig=AD[v][i])",
               # v has no edge into an already processed node (it would have had to be processed before it)
               "forall(i, implies(0 <= i < len(AD[v]), not P[AD[v][i]]), trig=AD[v][i])",
               QCOMPLETE.format(extra=" and cntr(arr(AD[v]), x, len(AD[v]), len(AD[v]) - q5) == 0", trig=T1)]),
       })

"""Contracts for the auxiliary-free encoders of solvor/cp_encoder.py (property C06).

sigma is an ARBITRARY Boolean assignment (uninterpreted), so every discharged postcondition holds for all
assignments: 'the clauses appended by this call are all true under sigma  <=>  the constraint holds for the
values sigma decodes to'.  decodes(var, x): sigma makes exactly the literal of value x true among var's literals.
"""
from pyvc.spec import REG, LoopSpec

E = "solvor/cp_encoder.py"
REG.ghostfn("sigma", ["int"], "bool")
REG.deffn("lit", ["l"], "(sigma(l) if l > 0 else (not sigma(-l)))", group="enc")
# clause c is true under sigma
REG.define("csat", ["c"], ["exists(k, 0 <= k < len(c) and lit(c[k]))"])
# the clauses appended since entry are all true under sigma
REG.define("newsat", ["self"], [
    "forall(i, implies(old(len(self._clauses)) <= i < len(self._clauses), csat(self._clauses[i])), trig=self._clauses[i])"])
REG.define("prefix_kept", ["self"], [
    "len(self._clauses) >= old(len(self._clauses))",
    "forall(i, implies(0 <= i < old(len(self._clauses)), self._clauses[i] == old(self._clauses)[i]), trig=self._clauses[i])"])
# variable numbering established by IntVar.__init__ / _new_bool_var: positive, pairwise distinct per variable
REG.define("wf", ["v"], [
    "forall(a, implies(has(v.bool_vars, a), get(v.bool_vars, a) >= 1), trig=get(v.bool_vars, a))",
    "forall(a, b, implies(has(v.bool_vars, a) and has(v.bool_vars, b) and a != b, get(v.bool_vars, a) != get(v.bool_vars, b)), trig=((get(v.bool_vars, a), get(v.bool_vars, b)),))"])
REG.define("decodes", ["v", "x"], [
    "has(v.bool_vars, x)", "sigma(get(v.bool_vars, x))",
    "forall(a, implies(has(v.bool_vars, a) and a != x, not sigma(get(v.bool_vars, a))), trig=get(v.bool_vars, a))"])

REG.cls(E, "SATEncoder", fields={"_clauses": "list[list[int]]", "_next_bool": "int"})
REG.cls("solvor/cp.py", "IntVar", fields={"bool_vars": "dict[int,int]", "lb": "int", "ub": "int"})

REG.fn(E, "SATEncoder._encode_eq_const", prop="C06", types={"var": "obj<IntVar>", "val": "int"}, lemmas=["enc"],
       requires=["wf(var)"],
       ensures=["prefix_kept(self)",
                "iff(newsat(self), has(var.bool_vars, val) and sigma(get(var.bool_vars, val)))",
                "forall(x, implies(decodes(var, x), iff(newsat(self), x == val)))"],
       modifies=["self._clauses"])

REG.fn(E, "SATEncoder._encode_ne_const", prop="C06", types={"var": "obj<IntVar>", "val": "int"}, lemmas=["enc"],
       requires=["wf(var)"],
       ensures=["prefix_kept(self)",
                "iff(newsat(self), not (has(var.bool_vars, val) and sigma(get(var.bool_vars, val))))",
                "forall(x, implies(decodes(var, x), iff(newsat(self), x != val)))"],
       modifies=["self._clauses"])

REG.fn(E, "SATEncoder._encode_ne_var", prop="C06", types={"var1": "obj<IntVar>", "var2": "obj<IntVar>", "common": "set[int]"},
       lemmas=["enc"], requires=["wf(var1)", "wf(var2)"],
       ensures=["prefix_kept(self)",
                "forall(x, y, implies(decodes(var1, x) and decodes(var2, y), iff(newsat(self), x != y)))"],
       modifies=["self._clauses"],
       loops={1: LoopSpec(done="seen", invariants=[
           "prefix_kept(self)",
           "forall(a, iff(has(common, a), has(var1.bool_vars, a) and has(var2.bool_vars, a)), trig=has(common, a))",
           "iff(newsat(self), forall(a, implies(seen[a], not (sigma(get(var1.bool_vars, a)) and sigma(get(var2.bool_vars, a)))), trig=seen[a]))",
       ])})

REG.fn(E, "SATEncoder._encode_at_most_one", prop="C06", types={"lits": "list[int]"}, lemmas=["enc"],
       requires=["forall(k, implies(0 <= k < len(lits), lits[k] != 0), trig=lits[k])"],
       ensures=["prefix_kept(self)",
                "iff(newsat(self), forall(p, q, implies(0 <= p < q and q < len(lits), not (lit(lits[p]) and lit(lits[q]))), trig=((lits[p], lits[q]),)))"],
       modifies=["self._clauses"],
       loops={1: LoopSpec(done="seen", index="pq", invariants=[
           "prefix_kept(self)",
           "iff(newsat(self), forall(p, q, implies(seen[(p, q)], not (lit(lits[p]) and lit(lits[q]))), trig=seen[(p, q)]))",
       ])})

AMO = "forall(p, q, implies(0 <= p < q and q < len(lits), not (lit(lits[p]) and lit(lits[q]))), trig=((lits[p], lits[q]),))"
REG.fn(E, "SATEncoder._encode_exactly_one", prop="C06", types={"lits": "list[int]"}, lemmas=["enc"],
       requires=["forall(k, implies(0 <= k < len(lits), lits[k] != 0), trig=lits[k])"],
       ensures=["prefix_kept(self)",
                # nothing is emitted for an empty literal list; otherwise: at least one and at most one literal true
                "iff(newsat(self), len(lits) == 0 or (csat(lits) and " + AMO + "))"],
       modifies=["self._clauses"],
       loops={1: LoopSpec(done="seen", index="pq", invariants=[
           "prefix_kept(self)", "len(lits) >= 1",
           "iff(newsat(self), csat(lits) and forall(p, q, implies(seen[(p, q)], not (lit(lits[p]) and lit(lits[q]))), trig=seen[(p, q)]))",
       ])})

# _encode_eq_var (three consecutive loops over set expressions) was attempted with the same ghost technique and
# ghost snapshots between the loops; z3 needed 18-34 s on three of its obligations and timed out at the quick
# budget, so it is NOT claimed (rule of DESIGN 3.5: an obligation that is not stably fast is not accepted) and
# stays with the bounded back end.  Likewise the encoders taking tuples/lists of IntVar objects (all_different,
# sum_*, circuit, cumulative, no_overlap's outer loop) are outside the subset (objects inside sequences).

# _encode_disjunctive_le (two nested range loops) was proved with per-row ghost snapshots, but its inner
# preservation obligation needed 3-12 s depending on machine load: not stably fast, so not claimed (bounded only).

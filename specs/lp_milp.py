"""Contracts for small helpers of the LP / MILP code (C03: check_matrix_dims; C04: _most_fractional, _compute_gap)."""
from pyvc.spec import REG, LoopSpec

V_ = "solvor/utils/validate.py"
REG.fn(V_, "check_matrix_dims", prop="C03,C04", raises_ok=True,
       types={"c": "list[real]", "A": "list[list[real]]", "b": "list[real]", "name_c": "opaque", "name_A": "opaque", "name_b": "opaque"},
       # returning normally means: at least one row, one right-hand side per row, one coefficient per variable in every row
       ensures=["len(A) >= 1", "len(A) == len(b)",
                "forall(i, implies(0 <= i < len(A), len(A[i]) == len(c)), trig=A[i])"],
       loops={1: LoopSpec(index="q", invariants=["n == len(c)", "forall(i, implies(0 <= i < q, len(A[i]) == len(c)), trig=A[i])"])})

M = "solvor/milp.py"
FRAC = "abs(solution[{0}] - pyround(solution[{0}]))"
REG.fn(M, "_most_fractional", prop="C04", ret="opt[int]",
       types={"solution": "list[real]", "int_set": "set[int]", "eps": "real", "best_var": "opt[int]", "best_frac": "real"},
       requires=["forall(j, implies(has(int_set, j), 0 <= j < len(solution)), trig=has(int_set, j))", "eps >= 0"],
       ensures=[
           # None exactly when every designated entry is within eps of an integer ...
           "implies(is_none(result), forall(j, implies(has(int_set, j), " + FRAC.format("j") + " <= eps), trig=has(int_set, j)))",
           # ... otherwise a designated index whose fractional part exceeds eps and is maximal
           "implies(not is_none(result), has(int_set, val(result)) and " + FRAC.format("val(result)") + " > eps)",
           "implies(not is_none(result), forall(j, implies(has(int_set, j), " + FRAC.format("j") + " <= " + FRAC.format("val(result)") + "), trig=has(int_set, j)))",
       ],
       loops={1: LoopSpec(done="seen", invariants=[
           "best_frac >= 0",
           "implies(is_none(best_var), best_frac == 0)",
           "implies(is_none(best_var), forall(j, implies(seen[j], " + FRAC.format("j") + " <= eps), trig=seen[j]))",
           "implies(not is_none(best_var), has(int_set, val(best_var)) and best_frac == " + FRAC.format("val(best_var)") + " and best_frac > eps)",
           "implies(not is_none(best_var), forall(j, implies(seen[j], " + FRAC.format("j") + " <= best_frac), trig=seen[j]))",
       ])})

REG.fn(M, "_compute_gap", prop="C04", types={"best_obj": "real", "bound": "real"}, ret="real",
       ensures=["result >= 0", "implies(best_obj == bound, result == 0)",
                "implies(abs(best_obj) >= 0.0000000001, result * abs(best_obj) == abs(best_obj - bound))"])

S = "solvor/simplex.py"
import specs.search  # noqa: Result record
REG.fn(S, "_extract", prop="C03", ret="Result[list[real]]",
       types={"matrix": "list[list[real]]", "basis": "list[int]", "m": "int", "n": "int", "status": "int", "iters": "int",
              "minimize": "bool", "solution": "list[real]"},
       requires=["0 <= m", "m + 1 <= len(matrix)", "m <= len(basis)", "n >= 0",
                 "forall(i, implies(0 <= i < len(matrix), len(matrix[i]) >= 1), trig=matrix[i])",
                 "forall(i, implies(0 <= i < m, basis[i] >= 0), trig=basis[i])",
                 # a basis names each variable at most once
                 "forall(i, j, implies(0 <= i < j and j < m, basis[i] != basis[j]), trig=((basis[i], basis[j]),))"],
       ensures=[
           "len(result.solution) == n",
           # basic variables take the right-hand side of their row, non-basic ones are zero
           "forall(i, implies(0 <= i < m and basis[i] < n, result.solution[basis[i]] == matrix[i][len(matrix[i]) - 1]), trig=basis[i])",
           "forall(j, implies(0 <= j < n and forall(i, implies(0 <= i < m, basis[i] != j)), result.solution[j] == 0), trig=result.solution[j])",
           # the objective cell, with the sign flipped back for maximisation
           "result.objective == (-matrix[len(matrix) - 1][len(matrix[len(matrix) - 1]) - 1] if minimize else matrix[len(matrix) - 1][len(matrix[len(matrix) - 1]) - 1])",
           "result.status == status", "result.iterations == iters"],
       loops={1: LoopSpec(invariants=[
           "len(solution) == n",
           "forall(q, implies(0 <= q < i and basis[q] < n, solution[basis[q]] == matrix[q][len(matrix[q]) - 1]), trig=basis[q])",
           "forall(j, implies(0 <= j < n and forall(q, implies(0 <= q < i, basis[q] != j)), solution[j] == 0), trig=solution[j])"])})

# ---- milp._is_feasible: the acceptance test of every heuristic incumbent (rounding, LNS, warm start)
REG.recfn("dotp", [("R", "list[real]"), ("X", "list[real]"), ("k", "int")], "real", on="k", base="0.0",
          step="dotp(R, X, k - 1) + R[k - 1] * X[k - 1]", group="dotp")
REG.fn(M, "_is_feasible", prop="C04", ret="bool", lemmas=["dotp"],
       types={"x": "list[real]", "A": "list[list[real]]", "b": "list[real]", "int_set": "set[int]", "eps": "real", "lhs": "real", "_sum3": "real"},
       requires=["forall(j, implies(has(int_set, j), 0 <= j < len(x)), trig=has(int_set, j))", "len(b) >= len(A)",
                 "forall(i, implies(0 <= i < len(A), len(A[i]) >= len(x)), trig=A[i])"],
       ensures=[
           # True is answered only for a point that is non-negative, integral on the designated entries and satisfies every row, all within eps
           "implies(result, forall(j, implies(0 <= j < len(x), x[j] >= -eps), trig=x[j]))",
           "implies(result, forall(j, implies(has(int_set, j), abs(x[j] - pyround(x[j])) <= eps), trig=has(int_set, j)))",
           "implies(result, forall(i, implies(0 <= i < len(A), dotp(A[i], x, len(x)) <= b[i] + eps), trig=A[i]))",
           # ... and False only when one of the three fails
           "implies(not result, exists(j, 0 <= j < len(x) and x[j] < -eps) or exists(j, has(int_set, j) and abs(x[j] - pyround(x[j])) > eps) or exists(i, 0 <= i < len(A) and dotp(A[i], x, len(x)) > b[i] + eps))",
       ],
       loops={1: LoopSpec(done="seen", invariants=["n == len(x)", "forall(j, implies(0 <= j < len(x), x[j] >= -eps), trig=x[j])",
                                                   "forall(j, implies(seen[j], abs(x[j] - pyround(x[j])) <= eps), trig=seen[j])"]),
              2: LoopSpec(index="q", invariants=["n == len(x)", "forall(j, implies(0 <= j < len(x), x[j] >= -eps), trig=x[j])",
                                                 "forall(j, implies(has(int_set, j), abs(x[j] - pyround(x[j])) <= eps), trig=has(int_set, j))",
                                                 "forall(i, implies(0 <= i < q, dotp(A[i], x, len(x)) <= b[i] + eps), trig=A[i])"]),
              3: LoopSpec(invariants=["_sum3 == dotp(row, x, j)", "n == len(x)"])})

"""Contracts for small helpers of the LP / MILP code (C03: check_matrix_dims; C04: _most_fractional, _compute_gap)."""
from pyvc.spec import REG, LoopSpec

V_ = "solvor/utils/validate.py"
REG.fn(V_, "check_matrix_dims", prop="C03,C04", raises_ok=True,
       types={"c": "list[real]", "A": "list[list[real]]", "b": "list[real]", "name_c": "opaque", "name_A": "opaque", "name_b": "opaque"},
       # returning normally means: at least one row, one right-hand side per row, one coefficient per variable in every row
       ensures=["len(A) >= 1", "len(A) == len(b)",
                "forall(i, implies(0 <= i < len(A), len(A[i]) == len(c)), trig=A[i])"],
       loops={1: LoopSpec(index="q", invariants=["n == len(c)", "forall(i, implies(0 <= i < q, len(A[i]) == len(c)), trig=A[i])"])})

M = "solvor/milp.py"
FRAC = "abs(solution[{0}] - pyround(solution[{0}]))"
REG.fn(M, "_most_fractional", prop="C04", ret="opt[int]",
       types={"solution": "list[real]", "int_set": "set[int]", "eps": "real", "best_var": "opt[int]", "best_frac": "real"},
       requires=["forall(j, implies(has(int_set, j), 0 <= j < len(solution)), trig=has(int_set, j))", "eps >= 0"],
       ensures=[
           # None exactly when every designated entry is within eps of an integer ...
           "implies(is_none(result), forall(j, implies(has(int_set, j), " + FRAC.format("j") + " <= eps), trig=has(int_set, j)))",
           # ... otherwise a designated index whose fractional part exceeds eps and is maximal
           "implies(not is_none(result), has(int_set, val(result)) and " + FRAC.format("val(result)") + " > eps)",
           "implies(not is_none(result), forall(j, implies(has(int_set, j), " + FRAC.format("j") + " <= " + FRAC.format("val(result)") + "), trig=has(int_set, j)))",
       ],
       loops={1: LoopSpec(done="seen", invariants=[
           "best_frac >= 0",
           "implies(is_none(best_var), best_frac == 0)",
           "implies(is_none(best_var), forall(j, implies(seen[j], " + FRAC.format("j") + " <= eps), trig=seen[j]))",
           "implies(not is_none(best_var), has(int_set, val(best_var)) and best_frac == " + FRAC.format("val(best_var)") + " and best_frac > eps)",
           "implies(not is_none(best_var), forall(j, implies(seen[j], " + FRAC.format("j") + " <= best_frac), trig=seen[j]))",
       ])})

REG.fn(M, "_compute_gap", prop="C04", types={"best_obj": "real", "bound": "real"}, ret="real",
       ensures=["result >= 0", "implies(best_obj == bound, result == 0)",
                "implies(abs(best_obj) >= 0.0000000001, result * abs(best_obj) == abs(best_obj - bound))"])

"""Contracts for the back-end dispatch of solvor/rust/__init__.py (C12: which back-end runs is decided by
`get_backend` alone, and an explicit request is honoured or refused, never silently replaced)."""
from pyvc.spec import REG

R = "solvor/rust/__init__.py"

# availability of the extension in this process (what rust_available() answers; it caches its first answer in a
# module global, so within one process it is one fixed boolean)
REG.ghostfn("rust_ok", ["int"], "bool")
REG.fn(R, "rust_available", prop="C12", trusted=True, ret="bool", ensures=["result == rust_ok(0)"],
       note="assumed: imports solvor._solvor_rust once and caches the outcome (try/except ImportError and a module "
            "global are outside the subset); modelled as one fixed boolean per process")
REG.fn(R, "_warn_fallback", prop="C12", trusted=True, ret="none",
       note="assumed: logs one warning, changes only the module flag _warned")
REG.fn(R, "get_backend", prop="C12", types={"requested": "opt[opaque]"}, ret="opaque", raises_ok=True, str_literals=True,
       ensures=[
           # the wrapper runs the adapter or the Python body, nothing else: the answer is one of the two names
           "result == 'rust' or result == 'python'",
           # whatever was requested (None, 'auto', 'rust', anything else), 'rust' is only ever answered when the
           # extension is there - otherwise the default call would fail with ImportError inside the adapter on an
           # installation without the extension while backend='python' answers (an observable difference; the
           # bounded no-extension family of checks/C12.py observes it for the request values it tries)
           "implies(result == 'rust', rust_ok(0))",
       ])
# Deliberately NOT obligations (the property does not demand them; a maintainer may change them without breaking C12):
# 'rust' requested and unavailable raises rather than falling back; 'auto'/None prefers the extension when present;
# 'python' is answered with 'python' (if it were not, every call would run the same back end and the statement
# "the three calls agree" would still hold).

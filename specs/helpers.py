"""Contracts for small helpers of solvor/utils/helpers.py (C10 assignment_cost, C11 reconstruct_path)."""
from pyvc.spec import REG, LoopSpec

H = "solvor/utils/helpers.py"

# acost(M, A, k) = sum over i < k of M[i][A[i]] for the entries that are assigned (A[i] != -1) and in range
REG.recfn("acost", [("M", "list[list[real]]"), ("A", "list[int]"), ("k", "int")], "real", on="k", base="0.0",
          step="acost(M, A, k - 1) + (M[k - 1][A[k - 1]] if (A[k - 1] != -1 and k - 1 < len(M) and 0 <= A[k - 1] < len(M[k - 1])) else 0.0)",
          group="acost")
REG.fn(H, "assignment_cost", prop="C10", types={"matrix": "list[list[real]]", "assignment": "list[int]"}, ret="real",
       ensures=["result == acost(matrix, assignment, len(assignment))"],
       lemmas=["acost"],
       loops={1: LoopSpec(index="k", invariants=["total == acost(matrix, assignment, k)"])})

# reconstruct_path(parent, current): follows parent pointers from `current` to the node without parent and
# reverses.  Contract (partial correctness: termination needs an acyclic parent map, which is the caller's
# invariant): the path ends at the queried node, starts at a node without parent, and every step is a
# parent link.
REG.fn(H, "reconstruct_path", prop="C11", types={"parent": "dict[U<S>,U<S>]", "current": "U<S>", "path": "list[U<S>]"},
       ret="list[U<S>]",
       ensures=["len(result) >= 1", "result[len(result) - 1] == old(current)",
                "not has(parent, result[0])",
                "forall(i, implies(0 <= i < len(result) - 1, has(parent, result[i + 1]) and get(parent, result[i + 1]) == result[i]), trig=result[i])"],
       loops={1: LoopSpec(invariants=[
           "len(path) >= 1", "path[0] == old(current)", "path[len(path) - 1] == current",
           "forall(i, implies(0 <= i < len(path) - 1, has(parent, path[i]) and get(parent, path[i]) == path[i + 1]), trig=path[i])"])})

BF = "solvor/bellman_ford.py"
REG.fn(BF, "_reconstruct_indexed", prop="C11", types={"parent": "list[int]", "target": "int", "path": "list[int]"},
       ret="list[int]",
       requires=["0 <= target < len(parent)",
                 "forall(j, implies(0 <= j < len(parent), parent[j] == -1 or 0 <= parent[j] < len(parent)), trig=parent[j])"],
       ensures=["len(result) >= 1", "result[len(result) - 1] == target", "parent[result[0]] == -1",
                "forall(i, implies(0 <= i < len(result), 0 <= result[i] < len(parent)), trig=result[i])",
                "forall(i, implies(0 <= i < len(result) - 1, parent[result[i + 1]] == result[i]), trig=result[i])"],
       loops={1: LoopSpec(invariants=[
           "len(path) >= 1", "path[0] == target",
           "forall(i, implies(0 <= i < len(path), 0 <= path[i] < len(parent)), trig=path[i])",
           "forall(i, implies(0 <= i < len(path) - 1, parent[path[i]] == path[i + 1]), trig=path[i])"])})

"""Small contracts: job_shop._compute_makespan (C18), kcore (C15)."""
from pyvc.spec import REG, LoopSpec
import specs.search  # noqa: Result record

J = "solvor/job_shop.py"
REG.fn(J, "_compute_makespan", prop="C18", ret="int",
       types={"jobs": "opaque", "schedule": "dict[tuple[int,int],tuple[int,int]]"},
       ensures=["implies(card(schedule) == 0, result == 0)",
                # the makespan dominates every end time and is attained by one operation
                "implies(card(schedule) > 0, forall(k, implies(has(schedule, k), get(schedule, k)[1] <= result), sorts={'k': 'tuple[int,int]'}, trig=has(schedule, k)))",
                "implies(card(schedule) > 0, exists(k, has(schedule, k) and get(schedule, k)[1] == result, sorts={'k': 'tuple[int,int]'}))"])

K = "solvor/kcore.py"
# kcore_decomposition is used through an assumed contract here (its definition is decided by the bounded back end)
REG.fn(K, "kcore_decomposition", prop="C15", trusted=True, ret="Result[dict[U<S>,int]]",
       types={"nodes": "list[U<S>]", "neighbors": "opaque"},
       note="assumed: returns a Result whose solution maps nodes to core numbers")
REG.fn(K, "kcore", prop="C15", ret="Result[set[U<S>]]",
       types={"nodes": "list[U<S>]", "neighbors": "opaque", "decomp": "Result[dict[U<S>,int]]", "core_nodes": "set[U<S>]"},
       # kcore(k) is exactly the set of nodes whose core number (as computed by kcore_decomposition) is at least k
       # (`decomp` is the local that holds the callee's result)
       ensures=["forall(v, iff(has(result.solution, v), has(decomp.solution, v) and get(decomp.solution, v) >= k), sorts={'v': 'U<S>'}, trig=has(result.solution, v))",
                "result.iterations == decomp.iterations"])

"""Contracts for solvor/knapsack.py (C16): the dynamic programme of solve_knapsack.

Proved for all inputs (A2: values / weights are finite reals; weights >= 0, which the code does not check):
  * the returned indices are strictly increasing (so distinct) and in range;
  * the objective is the sum of the ORIGINAL values over the returned indices (spec sum `Rr`);
  * an answer labelled OPTIMAL (status 1, non-empty input) passed the weight test: sum of weights <= capacity + 1e-9;
  * DP optimality: with vals = sign * values and the integer weights iw the code works on, the selection's value sum equals
    K(vals, iw, n, cap) and its integer weight sum is <= cap, where K is the textbook recursion
        K(i, c) = K(i-1, c)  or  K(i-1, c - iw[i-1]) + vals[i-1]  (taken when it fits and is strictly better);
  * integer data (capacity and every positive weight integral): scale == 1, cap == capacity and iw == weights, so the DP runs on
    the problem as given.
Paper lemma (not machine-checked): K(i, c) is the maximum of sum(vals[S]) over S <= {0..i-1} with sum(iw[S]) <= c (Bellman);
with it the clauses above are C16's 'no subset within capacity has a better value (exact for integer weights and capacity)'.
`_greedy_fallback` (sorting by ratio) is used through an ASSUMED contract (status FEASIBLE only); `check_sequence_lengths`
is a trusted table entry.
"""
from pyvc.spec import REG, LoopSpec
import specs.search  # noqa: Result
import specs.mst  # noqa: check_positive

K_ = "solvor/knapsack.py"
V_ = "solvor/utils/validate.py"

REG.fn(V_, "check_non_negative", prop="C16", raises_ok=True, types={"value": "real", "name": "opaque"},
       ensures=["value >= 0"])

# sums over a selection held in an int-indexed map (the element array of the list `selected`)
REG.recfn("Rr", [("X", "list[real]"), ("S", "map[int,int]"), ("k", "int")], "real", on="k", base="0.0",
          step="Rr(X, S, k - 1) + X[S[k - 1]]", group="knap")
REG.recfn("Ri", [("X", "list[int]"), ("S", "map[int,int]"), ("k", "int")], "int", on="k", base="0",
          step="Ri(X, S, k - 1) + X[S[k - 1]]", group="knap")
REG.lemma("Rr_frame", ["X", "S", "p", "v", "k"], "implies(p >= k, Rr(X, store(S, p, v), k) == Rr(X, S, k))",
          kind="induction", on="k", group="knap", var_sorts={"X": "list[real]", "S": "map[int,int]"}, trig=["Rr(X, store(S, p, v), k)"])
REG.lemma("Ri_frame", ["X", "S", "p", "v", "k"], "implies(p >= k, Ri(X, store(S, p, v), k) == Ri(X, S, k))",
          kind="induction", on="k", group="knap", var_sorts={"X": "list[int]", "S": "map[int,int]"}, trig=["Ri(X, store(S, p, v), k)"])
# the knapsack recursion (value of the best choice among the first i items within integer capacity c)
TAKE = "(W[i - 1] <= c and KN(V, W, i - 1, c - W[i - 1]) + V[i - 1] > KN(V, W, i - 1, c))"
REG.recfn("KN", [("V", "list[real]"), ("W", "list[int]"), ("i", "int"), ("c", "int")], "real", on="i", base="0.0",
          step="(KN(V, W, i - 1, c - W[i - 1]) + V[i - 1]) if " + TAKE + " else KN(V, W, i - 1, c)", group="knap")


def take(i, c):  # item i (0-based) is taken at capacity c
    return (f"(int_weights[{i}] <= {c} and KN(vals, int_weights, {i}, {c} - int_weights[{i}]) + vals[{i}] > KN(vals, int_weights, {i}, {c}))")


# integer data = the type variant in which capacity and weights are Python ints (`int_typed` is decided statically per variant);
# integral floats are covered by the real-typed variant without the bridge clause
INTEGRAL = "(int_typed(capacity) and int_typed(weights))"
INTV = [{}, {"capacity": "int", "weights": "list[int]", "all_vals": "list[int]", "_comp1": "list[int]", "_dead_returns_ok": True}]

REG.fn(K_, "_to_int_capacity", prop="C16", ret="tuple[int,real]", variants=INTV,
       types={"capacity": "real", "weights": "list[real]", "all_vals": "list[real]", "_comp1": "list[real]", "scale": "real", "max_capacity": "int"},
       requires=["capacity >= 0", "capacity < inf()"],
       ensures=["result[0] >= 0", "result[1] > 0",
                "implies(" + INTEGRAL + ", result[0] == capacity and result[1] == 1)"],
       loops={1: LoopSpec(index="q", invariants=[
           "forall(p, implies(0 <= p < len(_comp1), exists(t, 0 <= t < q and _comp1[p] == weights[t] and weights[t] > 0)), trig=_comp1[p])"])})

REG.fn(K_, "_greedy_fallback", prop="C16", ret="Result[list[int]]", trusted=True,
       note="(greedy by value/weight ratio; assumed: returns status FEASIBLE)",
       types={"values": "opaque", "weights": "opaque", "capacity": "opaque"},
       ensures=["result.status == 2"])

SHAPE = ["n == len(values)", "n == len(weights)", "n >= 1", "int_capacity >= 0", "len(vals) == n", "len(int_weights) == n",
         "forall(t, implies(0 <= t < n, int_weights[t] >= 0), trig=int_weights[t])",
         "len(dp) == int_capacity + 1", "len(keep) == n",
         "forall(t, implies(0 <= t < n, len(keep[t]) == int_capacity + 1), trig=keep[t])"]
KEEPDONE = "forall(t, c, implies(0 <= t < {hi} and 0 <= c <= int_capacity, keep[t][c] == " + take("t", "c") + "), trig=keep[t][c])"
KEEPNOT = "forall(t, c, implies({lo} <= t < n and 0 <= c <= int_capacity, not keep[t][c]), trig=keep[t][c])"

REG.fn(K_, "solve_knapsack", prop="C16", ret="Result[list[int]]", raises_ok=True, lemmas=["knap"], shards=6,
       variants=[{}, {"capacity": "int", "weights": "list[int]", "_sum8": "int", "total_weight": "int"}],
       types={"values": "list[real]", "weights": "list[real]", "capacity": "real", "vals": "list[real]", "int_weights": "list[int]",
              "dp": "list[real]", "keep": "list[list[bool]]", "selected": "list[int]", "sel0": "list[int]", "scale": "real",
              "_comp1": "list[real]", "_comp2": "list[int]", "_comp3": "list[list[bool]]", "_sum7": "real", "_sum8": "real",
              "objective": "real", "total_weight": "real", "v_i": "real"},
       requires=["forall(t, implies(0 <= t < len(weights), weights[t] >= 0 and weights[t] < inf()), trig=weights[t])",
                 "capacity < inf()"],
       ghost_before=[("selected.reverse()", "sel0", "selected")],
       ensures=[
           "implies(len(values) == 0, len(result.solution) == 0 and result.objective == 0 and result.status == 1)",
           # ---- an OPTIMAL answer for a non-empty instance comes from the DP
           "implies(defined('sel0') and result.status == 1, len(result.solution) == len(sel0) and forall(t, implies(0 <= t < len(sel0), result.solution[t] == sel0[len(sel0) - 1 - t]), trig=result.solution[t]))",
           "implies(defined('sel0') and result.status == 1, forall(t, implies(0 <= t < len(result.solution), 0 <= result.solution[t] < len(values)), trig=result.solution[t]))",
           "implies(defined('sel0') and result.status == 1, forall(a, b, implies(0 <= a < b and b < len(result.solution), result.solution[a] < result.solution[b]), trig=((result.solution[a], result.solution[b]),)))",
           "implies(defined('sel0') and result.status == 1, result.objective == Rr(values, arr(sel0), len(sel0)))",
           "implies(defined('sel0') and result.status == 1, implies(not int_typed(weights), Rr(weights, arr(sel0), len(sel0)) <= capacity + 0.000000001))",
           "implies(defined('sel0') and result.status == 1, implies(int_typed(weights), Ri(weights, arr(sel0), len(sel0)) <= capacity))",
           # ---- DP optimality on the scaled integer problem
           "implies(defined('sel0') and result.status == 1, Ri(int_weights, arr(sel0), len(sel0)) <= int_capacity)",
           "implies(defined('sel0') and result.status == 1, Rr(vals, arr(sel0), len(sel0)) == KN(vals, int_weights, n, int_capacity))",
           "implies(defined('sel0') and result.status == 1, forall(t, implies(0 <= t < n, vals[t] == (-values[t] if minimize else values[t])), trig=vals[t]))",
           # ---- integer data: the DP problem is the problem as given
           "implies(defined('sel0') and result.status == 1, implies(" + INTEGRAL + ", int_capacity == capacity and forall(t, implies(0 <= t < n, int_weights[t] == weights[t]), trig=int_weights[t])))",
       ],
       loops={
           1: LoopSpec(index="q", invariants=["len(_comp1) == q", "forall(t, implies(0 <= t < q, _comp1[t] == sign * values[t]), trig=_comp1[t])"]),
           2: LoopSpec(index="q", invariants=["len(_comp2) == q", "scale > 0",
                                              "forall(t, implies(0 <= t < q, _comp2[t] == int(weights[t] * scale + 0.000000001) and _comp2[t] >= 0), trig=_comp2[t])",
                                              # unscaled integral weights are taken as they are
                                              "implies(int_typed(weights) and scale == 1, forall(t, implies(0 <= t < q, _comp2[t] == weights[t]), trig=_comp2[t]))"]),
           3: LoopSpec(invariants=["len(_comp3) == _", "forall(t, implies(0 <= t < _, len(_comp3[t]) == int_capacity + 1), trig=_comp3[t])",
                                   "forall(t, c, implies(0 <= t < _ and 0 <= c <= int_capacity, not _comp3[t][c]), trig=_comp3[t][c])"]),
           4: LoopSpec(invariants=SHAPE + [
               "forall(c, implies(0 <= c <= int_capacity, dp[c] == KN(vals, int_weights, i, c)), trig=dp[c])",
               KEEPDONE.format(hi="i"), KEEPNOT.format(lo="i")]),
           5: LoopSpec(invariants=SHAPE + ["0 <= i < n", "w_i == int_weights[i]", "v_i == vals[i]", "w <= int_capacity",
               "forall(c, implies(0 <= c <= int_capacity, dp[c] == (KN(vals, int_weights, i + 1, c) if c > w else KN(vals, int_weights, i, c))), trig=dp[c])",
               KEEPDONE.format(hi="i"), KEEPNOT.format(lo="i + 1"),
               "forall(c, implies(0 <= c <= int_capacity, keep[i][c] == (c > w and " + take("i", "c") + ")), trig=keep[i][c])"]),
           6: LoopSpec(invariants=SHAPE + [KEEPDONE.format(hi="n"), "0 <= w <= int_capacity", "-1 <= i",
               "forall(t, implies(0 <= t < len(selected), i < selected[t] < n), trig=selected[t])",
               "forall(a, b, implies(0 <= a < b and b < len(selected), selected[a] > selected[b]), trig=((selected[a], selected[b]),))",
               "Rr(vals, arr(selected), len(selected)) + KN(vals, int_weights, i + 1, w) == KN(vals, int_weights, n, int_capacity)",
               "Ri(int_weights, arr(selected), len(selected)) + w == int_capacity"]),
           7: LoopSpec(index="q", invariants=["_sum7 == Rr(values, arr(sel0), len(sel0)) - Rr(values, arr(sel0), len(sel0) - q)"]),
           8: LoopSpec(index="q", invariants=["implies(not int_typed(weights), _sum8 == Rr(weights, arr(sel0), len(sel0)) - Rr(weights, arr(sel0), len(sel0) - q))",
                                              "implies(int_typed(weights), _sum8 == Ri(weights, arr(sel0), len(sel0)) - Ri(weights, arr(sel0), len(sel0) - q))"]),
       })

# ------------------------------------------------------------------ solve_bin_pack: the structural clauses of C16
# Proved for every algorithm string (not interpreted: every branch is explored) and all inputs the function accepts:
#   * every item gets a bin index in 0..k-1, k = number of bins opened = the objective;
#   * no bin is ever overfull beyond the library's absolute slack: its remaining capacity stays >= -_EPS;
#   * remaining capacity == capacity - (sum of the sizes placed into the bin), as a recursive spec sum over the processing order.
# Not proved: the 11/9 bound and 'OPTIMAL only when minimal' (bounded back end).
B_ = "solvor/bin_pack.py"
BINS = "list[tuple[real,list[int]]]"
# load of bin b after the first k items of the processing order `O` have been placed; Bn[t] (ghost) = the bin the t-th processed item went to
REG.recfn("binload", [("S", "list[real]"), ("Bn", "map[int,int]"), ("O", "list[int]"), ("b", "int"), ("k", "int")], "real", on="k", base="0.0",
          step="binload(S, Bn, O, b, k - 1) + (S[O[k - 1]] if Bn[k - 1] == b else 0.0)", group="binp")
REG.lemma("binload_frame", ["S", "Bn", "O", "b", "k", "p", "v"],
          "implies(p >= k, binload(S, store(Bn, p, v), O, b, k) == binload(S, Bn, O, b, k))",
          kind="induction", on="k", group="binp", var_sorts={"S": "list[real]", "Bn": "map[int,int]", "O": "list[int]"},
          trig=["binload(S, store(Bn, p, v), O, b, k)"])
BPI = [
    "n == len(item_sizes)", "n >= 1", "len(assignments) == n", "len(indices) == n", "bin_capacity > 0",
    "forall(t, implies(0 <= t < n, 0 <= indices[t] < n), trig=indices[t])",
    "forall(s, t, implies(0 <= s < t and t < n, indices[s] != indices[t]), trig=((indices[s], indices[t]),))",
    "forall(i, implies(0 <= i < n, 0 <= item_sizes[i] <= bin_capacity), trig=item_sizes[i])",
    # processed items sit in an opened bin
    "forall(t, implies(0 <= t < q, 0 <= assignments[indices[t]] < len(bins) and assignments[indices[t]] == Bn[t]), trig=indices[t])",
    # every entry of the answer is a bin index or still the initial 0 (which is a bin index as soon as one bin exists)
    "forall(i, implies(0 <= i < n, 0 <= assignments[i] and (assignments[i] < len(bins) or assignments[i] == 0)), trig=assignments[i])",
    # bins that are not opened yet hold nothing
    "forall(b, implies(b >= len(bins), binload(item_sizes, Bn, indices, b, q) == 0), trig=binload(item_sizes, Bn, indices, b, q))",
    # each bin: never overfull beyond the slack, and its remaining capacity is what its items leave
    "forall(b, implies(0 <= b < len(bins), bins[b][0] < inf() and bins[b][0] >= -0.000000001 and bins[b][0] == bin_capacity - binload(item_sizes, Bn, indices, b, q)), trig=bins[b])",
]
REG.fn(B_, "solve_bin_pack", prop="C16", ret="Result[list[int]]", raises_ok=True, lemmas=["binp"], shards=6,
       types={"item_sizes": "list[real]", "bin_capacity": "real", "algorithm": "opaque", "algo": "opaque", "bins": BINS,
              "assignments": "list[int]", "indices": "list[int]", "items": "list[int]", "remaining": "real", "best_remaining": "real", "Bn": "map[int,int]"},
       ghost_before=[("assignments = [0] * n", "Bn", "lam(t, 0)")],
       ghost_after=[("assignments[item_idx] = ", "Bn", "store(Bn, q, assignments[item_idx])")],
       requires=["bin_capacity < inf()", "forall(i, implies(0 <= i < len(item_sizes), -inf() < item_sizes[i] and item_sizes[i] < inf()), trig=item_sizes[i])"],
       ensures=[
           "implies(len(item_sizes) == 0, len(result.solution) == 0 and result.objective == 0)",
           "implies(defined('bins'), len(result.solution) == len(item_sizes) and result.objective == len(bins))",
           "implies(defined('bins'), forall(i, implies(0 <= i < len(item_sizes), 0 <= result.solution[i] < len(bins)), trig=result.solution[i]))",
           "implies(defined('bins'), forall(b, implies(0 <= b < len(bins), binload(item_sizes, Bn, indices, b, len(item_sizes)) <= bin_capacity + 0.000000001), trig=bins[b]))",
           "implies(defined('bins'), forall(t, implies(0 <= t < len(item_sizes), 0 <= indices[t] < len(item_sizes) and result.solution[indices[t]] == Bn[t]), trig=indices[t]))",
           "implies(defined('bins'), forall(s, t, implies(0 <= s < t and t < len(item_sizes), indices[s] != indices[t]), trig=((indices[s], indices[t]),)))",
           "implies(defined('bins'), result.status == (2 if len(bins) > 1 else 1))",
       ],
       loops={1: LoopSpec(index="q0", invariants=["n == len(item_sizes)", "bin_capacity > 0",
                                                   "forall(i, implies(0 <= i < q0, 0 <= item_sizes[i] <= bin_capacity), trig=item_sizes[i])"]),
              2: LoopSpec(index="q", invariants=BPI),
              3: LoopSpec(index="qb", invariants=BPI + ["size == item_sizes[item_idx]", "item_idx == indices[q]", "0 <= q < n", "size > 0", "-1 <= best_bin < len(bins)",
                                                        "implies(best_bin >= 0, size <= bins[best_bin][0] + 0.000000001)"]),
              4: LoopSpec(index="qb", invariants=BPI + ["size == item_sizes[item_idx]", "item_idx == indices[q]", "0 <= q < n", "size > 0", "-1 <= best_bin < len(bins)",
                                                        "implies(best_bin >= 0, size <= bins[best_bin][0] + 0.000000001)"]),
              })

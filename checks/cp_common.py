"""Shared bounded back end for C05 (Model.solve respects constraints) and C06 (CNF has exactly the CP models)."""
from __future__ import annotations

import itertools
import random
import signal

from oracles import cp_sem
from vf.core import use_repo


class Hang(Exception):
    pass


def _alarm(s, f):
    raise Hang()


V = lambda n: ["var", n]
K = lambda k: ["const", k]


# ------------------------------------------------------------------ model generators
DOMS = [(0, 2), (1, 3), (-1, 1), (0, 3), (2, 4), (0, 1), (-2, 0), (0, 4)]


def rel_templates(names, consts=(-1, 0, 1, 2, 3, 5)):
    """expression shapes the public operators can produce, over 1..3 variables"""
    x = V(names[0])
    y = V(names[1]) if len(names) > 1 else None
    z = V(names[2]) if len(names) > 2 else None
    out = []
    for op in ("==", "!="):
        for c in consts:
            out += [["rel", op, x, K(c)], ["rel", op, K(c), x],
                    ["rel", op, ["add", x, K(c)], K(2)], ["rel", op, ["add", K(c), x], K(2)],
                    ["rel", op, ["sub", x, K(c)], K(1)], ["rel", op, ["sub", K(c), x], K(1)],
                    ["rel", op, ["mul", x, 2], K(c)], ["rel", op, ["rmul", 2, x], K(c)],
                    ["rel", op, ["rmul", -1, x], K(c)], ["rel", op, ["mul", x, 0], K(c)]]
            if y:
                out += [["rel", op, ["add", x, y], K(c)], ["rel", op, ["sub", x, y], K(c)],
                        ["rel", op, K(c), ["add", x, y]], ["rel", op, ["sub", y, x], K(c)],
                        ["rel", op, ["add", x, K(c)], y], ["rel", op, x, ["add", y, K(c)]],
                        ["rel", op, ["add", x, K(c)], ["add", y, K(1)]], ["rel", op, ["sub", x, K(c)], y],
                        ["rel", op, ["rmul", 2, x], ["add", y, K(c)]], ["rel", op, ["mul", x, 2], y],
                        ["rel", op, ["sub", K(c), x], y], ["rel", op, ["add", ["rmul", 2, x], y], K(c)],
                        ["rel", op, ["sub", x, ["add", y, K(1)]], K(c)], ["rel", op, ["add", x, ["mul", y, 2]], K(c)],
                        ["rel", op, ["add", x, x], ["add", y, K(c)]], ["rel", op, ["sub", ["add", x, K(c)], y], K(0)]]
            if z:
                out += [["rel", op, ["add", ["add", x, y], z], K(c)], ["rel", op, ["add", x, y], ["add", z, K(c)]],
                        ["rel", op, x, ["add", y, z]], ["rel", op, ["sub", x, y], z],
                        ["rel", op, ["sub", ["add", x, y], z], K(c)], ["rel", op, ["add", x, ["sub", y, z]], K(c)]]
        if y:
            out += [["rel", op, x, y], ["rel", op, y, x]]
    return out


def global_templates(names, rng):
    out = []
    n = len(names)
    if n >= 2:
        out.append(["all_different", names])
        out.append(["all_different", names[:2]])
    for k in range(1, n + 1):
        for t in (0, 1, 2, 3, 4, 6):
            out += [["sum_eq", names[:k], t], ["sum_le", names[:k], t], ["sum_ge", names[:k], t]]
    if n >= 2:  # whether one node with a self loop is a circuit is not pinned down by the statement
        out.append(["circuit", names])
    for durs in ([1] * n, [2] * n, [1, 2, 1, 2][:n], [0, 2, 1, 1][:n]):
        out.append(["no_overlap", names, durs])
        for dem in ([1] * n, [2, 1, 1, 2][:n]):
            for cap in (1, 2):
                out.append(["cumulative", names, durs, dem, cap])
    return out


def gen_models(seed, quick):
    rng = random.Random(seed)
    models = []
    # (a) one relational constraint over 1..3 variables, several domain choices (exhaustive over templates)
    for nv in (1, 2, 3):
        names = ["x", "y", "z"][:nv]
        dom_choices = [DOMS[:nv], [DOMS[3]] * nv, [DOMS[2], DOMS[1], DOMS[4]][:nv]]
        if not quick:
            dom_choices += [[rng.choice(DOMS) for _ in range(nv)] for _ in range(12)]
        for doms in dom_choices:
            vars_ = [[n, d[0], d[1]] for n, d in zip(names, doms)]
            for c in rel_templates(names):
                models.append({"vars": vars_, "constraints": [c], "family": "rel"})
    # (b) one global constraint
    for nv in (1, 2, 3, 4):
        names = ["x", "y", "z", "w"][:nv]
        for doms in ([DOMS[3]] * nv, [DOMS[0]] * nv, [(0, nv - 1)] * nv, [(0, nv)] * nv, [(1, 3)] * nv):
            vars_ = [[n, d[0], d[1]] for n, d in zip(names, doms)]
            for c in global_templates(names, rng):
                models.append({"vars": vars_, "constraints": [c], "family": "global"})
    # (c) two constraints (relational + all_different / relational + relational), incl. the docstring example
    models.append({"vars": [["x", 0, 9], ["y", 0, 9]], "constraints": [["all_different", ["x", "y"]], ["rel", "==", ["add", V("x"), V("y")], K(10)]], "family": "docstring"})
    pool2 = rel_templates(["x", "y"], consts=(0, 1, 2))
    pool3 = rel_templates(["x", "y", "z"], consts=(1, 3))
    for _ in range(250 if quick else 60000):
        nv = rng.choice([2, 3])
        names = ["x", "y", "z"][:nv]
        vars_ = [[n, *rng.choice(DOMS)] for n in names]
        pool = pool2 if nv == 2 else pool3
        cs = [rng.choice(pool)]
        k = rng.random()
        if k < 0.4:
            cs.append(["all_different", names])
        elif k < 0.8:
            cs.append(rng.choice(pool))
        else:
            cs.append(rng.choice(global_templates(names, rng)))
        models.append({"vars": vars_, "constraints": cs, "family": "pair"})
    # (d) circuits with arbitrary successor domains, sums with 1..5 terms, cumulative with many active literals
    for n in (2, 3, 4, 5):
        names = [f"s{i}" for i in range(n)]
        for _ in range(3 if quick else 120):
            vars_ = []
            for nm in names:
                lb = rng.choice([0, 0, 0, 1])
                ub = rng.choice([n - 1, n - 1, n, n - 2 if n > 2 else n - 1])
                vars_.append([nm, lb, max(lb, ub)])
            models.append({"vars": vars_, "constraints": [["circuit", names]], "family": "circuit"})
        models.append({"vars": [[nm, 0, n - 1] for nm in names], "constraints": [["circuit", names]], "family": "circuit"})
    for n in (1, 2, 3, 4, 5):
        names = [f"t{i}" for i in range(n)]
        for _ in range(4 if quick else 200):
            vars_ = [[nm, *rng.choice([(0, 2), (1, 3), (-1, 1), (0, 1)])] for nm in names]
            for kind in ("sum_eq", "sum_le", "sum_ge"):
                models.append({"vars": vars_, "constraints": [[kind, names, rng.randint(-1, 2 * n)]], "family": "sum"})
    for n in (3, 4, 6):
        names = [f"c{i}" for i in range(n)]
        hi = 2 if n == 6 else 3
        vars_ = [[nm, 0, hi] for nm in names]
        models.append({"vars": vars_, "constraints": [["cumulative", names, [3] * n, [1] * n, n - 1]], "family": "cumulative-wide"})
        models.append({"vars": vars_, "constraints": [["cumulative", names, [2] * n, [1] * n, 2]], "family": "cumulative-wide"})
    # cumulative with heterogeneous demands: minimal overloads of different sizes ({3,3} and {3,2,1} for capacity 5)
    for dem, cap in (([3, 3, 2, 1], 5), ([2, 2, 1, 1], 3), ([4, 2, 2, 1], 5), ([1, 2, 3, 4], 6)):
        names = [f"h{i}" for i in range(4)]
        for hi, durs in ((2, [2, 2, 2, 2]), (1, [2, 1, 2, 1]), (2, [1, 3, 2, 2])):
            models.append({"vars": [[nm, 0, hi] for nm in names], "constraints": [["cumulative", names, durs, dem, cap]],
                           "family": "cumulative-mixed-demands"})
    for _ in range(10 if quick else 1500):
        n = rng.choice([3, 4, 5])
        names = [f"r{i}" for i in range(n)]
        dem = [rng.randint(1, 4) for _ in range(n)]
        models.append({"vars": [[nm, 0, rng.choice([1, 2])] for nm in names],
                       "constraints": [["cumulative", names, [rng.randint(1, 3) for _ in range(n)], dem, rng.randint(max(dem), sum(dem))]],
                       "family": "cumulative-mixed-demands"})
    # (e) NESTED shapes: the operators compose, so a reversed-operand / multiplied / subtracted sub-expression can sit under another
    # multiplier or on the right of a subtraction (`2*(5 - x)`, `y - (3 - x)`, `(4 - x) * -1`); the multiplier in force at an inner node
    # is the product of everything above it.  Deterministic core over the reversed-operand term c - x, then seeded random trees of depth <= 3.
    x, y, z = V("x"), V("y"), V("z")
    for doms in ([(0, 3), (0, 4)], [(1, 3), (-2, 2)], [(1, 4), (1, 4)]):
        vars_ = [["x", *doms[0]], ["y", *doms[1]]]
        for op in ("==", "!="):
            for c in (1, 3, 5):
                inner = ["sub", K(c), x]
                for k in (2, -1, 3, 0):
                    for lhs, rhs in ((["mul", inner, k], ["add", y, K(1)]), (["rmul", k, inner], y), (["add", y, ["mul", inner, k]], K(2)),
                                     (["mul", ["add", inner, y], k], K(c)), (["mul", ["mul", inner, k], -1], y)):
                        models.append({"vars": vars_, "constraints": [["rel", op, lhs, rhs]], "family": "nested"})
                for lhs, rhs in ((["sub", y, inner], K(2)), (["sub", inner, y], K(0)), (["sub", y, ["mul", inner, 2]], K(1)),
                                 (["sub", K(c), ["sub", y, x]], K(1)), (y, ["sub", x, inner]), (["sub", ["add", y, K(1)], inner], x)):
                    models.append({"vars": vars_, "constraints": [["rel", op, lhs, rhs]], "family": "nested"})

    def tree(d, names):
        r = rng.random()
        if d == 0 or r < 0.2:
            return V(rng.choice(names))
        t = tree(d - 1, names)
        if r < 0.4:
            return [rng.choice(["add", "sub"]), t, K(rng.choice([-1, 1, 2, 3]))]
        if r < 0.55:
            return [rng.choice(["add", "sub"]), K(rng.choice([0, 1, 2, 4])), t]
        if r < 0.75:
            return ["mul", t, rng.choice([2, -1, 3, -2, 0])] if rng.random() < 0.5 else ["rmul", rng.choice([2, -1, 3, -2]), t]
        return [rng.choice(["add", "sub"]), t, tree(d - 1, names)]

    for _ in range(400 if quick else 40000):
        nv = rng.choice([2, 2, 3])
        names = ["x", "y", "z"][:nv]
        vars_ = [[n, *rng.choice(DOMS)] for n in names]
        cs = [["rel", rng.choice(["==", "!="]), tree(rng.choice([2, 3]), names), tree(rng.choice([0, 1, 2]), names) if rng.random() < 0.7 else K(rng.randint(-2, 4))]]
        if rng.random() < 0.3:
            cs.append(["all_different", names])
        models.append({"vars": vars_, "constraints": cs, "family": "nested"})
    # the unsatisfiable cumulative instance quoted in C02
    models.append({"vars": [[f"c{i}", 0, 3] for i in range(3)], "constraints": [["cumulative", ["c0", "c1", "c2"], [3, 3, 3], [1, 1, 1], 1]], "family": "cumulative-unsat"})
    return models


# ------------------------------------------------------------------ C05 contract
def eval_c05(case, timeout_s=20):
    """case = {'desc':..., 'solver':..., 'solution_limit':..., 'hints':...}"""
    use_repo()
    from solvor.types import Status
    desc, solver, sl, hints = case["desc"], case["solver"], case["solution_limit"], case.get("hints")
    viol = []
    info = {}
    try:
        m, vs = cp_sem.build_model(desc)
    except cp_sem.NotBuildable as e:
        return viol, {"skipped": str(e)}
    signal.signal(signal.SIGALRM, _alarm)
    signal.alarm(timeout_s)
    try:
        res = m.solve(solver=solver, solution_limit=sl, hints=dict(hints) if hints else None)
    except Hang:
        viol.append((f"C05/Model.solve[{solver}]/ensures:returns", f"no return within {timeout_s}s"))
        return viol, {"hang": True}
    except (ValueError, NotImplementedError, TypeError) as e:
        signal.alarm(0)
        # explicit rejection of an unsupported shape is allowed by the statement (nothing is returned)
        return viol, {"rejected": repr(e)[:120]}
    except Exception as e:  # noqa
        signal.alarm(0)
        viol.append((f"C05/Model.solve[{solver}]/ensures:returns", f"raised {e!r}"))
        return viol, {"raised": True}
    finally:
        signal.alarm(0)
    ref = cp_sem.all_solutions(desc, hints)
    info["n_ref"] = len(ref)
    info["status"] = res.status.name
    viol += judge_c05(desc, solver, res, ref[0] if ref else None, exact=True)
    info["feasible_claim"] = None if res.status == Status.MAX_ITER else (res.status != Status.INFEASIBLE)
    return viol, info


def judge_c05(desc, solver, res, witness, exact):
    """the C05 contract on one Result: every returned assignment is checked directly against the reference semantics;
    INFEASIBLE is refuted by `witness` (an assignment that satisfies everything and agrees with the hints), found by
    brute force (exact=True) or planted / certified by the generator (exact=False: no witness = no judgement)."""
    from solvor.types import Status
    viol = []
    sols = []
    if res.solution is not None:
        sols.append(("solution", res.solution))
    for i, s in enumerate(res.solutions or ()):
        sols.append((f"solutions[{i}]", s))
    names = [v[0] for v in desc["vars"]]
    dom = {v[0]: (v[1], v[2]) for v in desc["vars"]}
    for nm, s in sols:
        miss = [n for n in names if n not in s]
        if miss:
            viol.append((f"C05/Model.solve[{solver}]/ensures:every-named-variable-has-a-value", f"{nm}={_short(s)} lacks {miss[:6]}"))
            continue
        out = [n for n in names if not (dom[n][0] <= s[n] <= dom[n][1])]
        if out:
            viol.append((f"C05/Model.solve[{solver}]/ensures:value-inside-domain", f"{nm}={_short(s)}: {out[:6]} outside the declared domain"))
            continue
        for c in desc["constraints"]:
            if not cp_sem.holds(c, s):
                viol.append((f"C05/Model.solve[{solver}]/ensures:satisfies-every-added-constraint[{c[0]}]", f"{nm}={_short(s)} breaks {_short(c)}"))
                break
    if res.status == Status.INFEASIBLE and witness is not None:
        viol.append((f"C05/Model.solve[{solver}]/ensures:INFEASIBLE-only-if-none-exists", f"INFEASIBLE but e.g. {_short(witness)} satisfies everything"))
    if res.status == Status.OPTIMAL and res.solution is None:
        viol.append((f"C05/Model.solve[{solver}]/ensures:returns", "OPTIMAL without a solution"))
    return viol


def _short(x, n=400):
    s = str(x)
    return s if len(s) <= n else s[:n] + "..."


def eval_c05_chunk(cases):
    out = []
    for c in cases:
        v, info = eval_c05(c)
        out.append((c, v, info))
    return out


# ------------------------------------------------------------------ C06 contract
def all_sat(clauses, n_bool, limit=200000):
    """independent all-SAT: plain DPLL-free enumeration by unit propagation + splitting (no learning)"""
    clauses = [list(dict.fromkeys(c)) for c in clauses]
    if any(len(c) == 0 for c in clauses):
        return []
    out = []

    def rec(assign, cls):
        # unit propagation
        while True:
            unit = None
            new = []
            for c in cls:
                sat = False
                rem = []
                for l in c:
                    v = assign.get(abs(l))
                    if v is None:
                        rem.append(l)
                    elif v == (l > 0):
                        sat = True
                        break
                if sat:
                    continue
                if not rem:
                    return
                if len(rem) == 1 and unit is None:
                    unit = rem[0]
                new.append(rem)
            cls = new
            if unit is None:
                break
            assign = dict(assign)
            assign[abs(unit)] = unit > 0
        free = [v for v in range(1, n_bool + 1) if v not in assign]
        if not cls:
            # every remaining variable is free: expand
            for bits in itertools.product([False, True], repeat=len(free)):
                a = dict(assign)
                a.update(zip(free, bits))
                out.append(a)
                if len(out) > limit:
                    raise OverflowError
            return
        v = abs(cls[0][0])
        for val in (True, False):
            a = dict(assign)
            a[v] = val
            rec(a, cls)

    rec({}, clauses)
    return out


def eval_c06(case):
    use_repo()
    import solvor.cp_encoder as enc
    from solvor.types import Result, Status
    desc = case["desc"]
    viol = []
    try:
        m, vs = cp_sem.build_model(desc)
    except cp_sem.NotBuildable as e:
        return viol, {"skipped": str(e)}
    captured = {}

    def fake_solve_sat(clauses, **kw):
        captured["clauses"] = [list(c) for c in clauses]
        return Result(None, 0, 0, 0, Status.INFEASIBLE)

    orig = enc.solve_sat
    enc.solve_sat = fake_solve_sat
    try:
        try:
            res = m.solve(solver="sat", solution_limit=1)
        except (ValueError, NotImplementedError, TypeError) as e:
            return viol, {"rejected": repr(e)[:120]}
        except Exception as e:  # noqa
            viol.append(("C06/SATEncoder/ensures:encodes-without-crashing", f"raised {e!r}"))
            return viol, {"raised": True}
    finally:
        enc.solve_sat = orig
    ref = cp_sem.all_solutions(desc)
    refset = {tuple(sorted(a.items())) for a in ref}
    if "clauses" not in captured:
        # the encoder answered without calling the SAT solver (empty clause found): must mean no CP solution
        if ref:
            viol.append(("C06/SATEncoder/ensures:cnf-satisfiable-iff-cp-satisfiable", f"encoder declared INFEASIBLE without solving, but {ref[0]} is a CP solution"))
        return viol, {"n_ref": len(ref), "short_circuit": True}
    clauses = captured["clauses"]
    n_bool = max([abs(l) for c in clauses for l in c] + [max(max(v.bool_vars.values()) for v in vs.values())])
    if n_bool > 26:
        # beyond the all-SAT bound: project the CNF on the named variables with z3, one box point at a time
        from checks import cp_round2 as R
        acc, eo = R.accepted_set(desc, vs, clauses)
        if acc is None:
            return viol, {"skipped": f"{n_bool} booleans: beyond the all-SAT bound, box beyond the projection bound", "n_ref": len(ref)}
        v2, _ = R.judge_c06_projection(desc, acc, eo)
        if bool(acc) != bool(ref) and not v2:
            v2.append(("C06/SATEncoder/ensures:cnf-satisfiable-iff-cp-satisfiable", f"CNF accepts {len(acc)} assignments, CP solutions {len(ref)}"))
        return viol + v2, {"n_ref": len(ref), "n_models": len(acc), "n_bool": n_bool, "n_clauses": len(clauses), "projected_with_z3": True}
    try:
        models = all_sat(clauses, n_bool)
    except OverflowError:
        return viol, {"skipped": "too many models"}
    decoded = set()
    for sm in models:
        a = {}
        bad = None
        for name, var in vs.items():
            trues = [val for val, b in var.bool_vars.items() if sm.get(b, False)]
            if len(trues) != 1:
                bad = (name, trues)
                break
            a[name] = trues[0]
        if bad:
            viol.append(("C06/SATEncoder/ensures:each-variable-decodes-to-exactly-one-value", f"a CNF model gives {bad[0]} the values {bad[1]}"))
            break
        decoded.add(tuple(sorted(a.items())))
    extra = decoded - refset
    missing = refset - decoded
    if extra:
        viol.append(("C06/SATEncoder/ensures:nothing-extra[" + "+".join(sorted({c[0] for c in desc["constraints"]})) + "]",
                     f"CNF model decodes to {dict(sorted(extra)[0])}, which breaks the CP constraints ({len(extra)} such)"))
    if missing:
        viol.append(("C06/SATEncoder/ensures:nothing-missing[" + "+".join(sorted({c[0] for c in desc["constraints"]})) + "]",
                     f"CP solution {dict(sorted(missing)[0])} has no CNF model ({len(missing)} such)"))
    if bool(models) != bool(ref) and not extra and not missing:
        viol.append(("C06/SATEncoder/ensures:cnf-satisfiable-iff-cp-satisfiable", f"CNF models {len(models)}, CP solutions {len(ref)}"))
    return viol, {"n_ref": len(ref), "n_models": len(models), "n_bool": n_bool, "n_clauses": len(clauses)}


def eval_c06_chunk(cases):
    out = []
    for c in cases:
        v, info = eval_c06(c)
        out.append((c, v, info))
    return out

"""C14 round 2: families beyond the small scope (used by checks/C14.py; same contract, same obligation names).

* size ladder  - digraphs with 10 .. 50000 nodes: directed cycles and paths (DFS depth = n), lassos, two-way paths, chains
                 of small cycles, planted SCC structure (blocks = Hamiltonian cycle + chords, joined by forward edges of a
                 hidden order, duplicates, self loops, outside neighbours), deep / layered DAGs with or without one back
                 edge, G(n, c/n) around the giant-component threshold, complete digraphs, tournaments, trees, two long
                 cycles sharing a node.  Verdict by linear certificates: 'every edge goes forward in the order', 'u, v in
                 one component iff same class of an independent iterative Kosaraju' (oracles/digraph_big.py; cross-checked
                 with the planted classes, with forward/backward reachability of sampled nodes and, up to 700 nodes, with
                 the Boolean closure of oracles/digraph.py), 'no edge from an earlier to a later component', condensed
                 edge set == {(class u, class w)}.
* history mode - ONE node list, ONE adjacency dict and ONE neighbour function object used for a sequence of calls with
                 in-place edits between the calls; every answer judged against the oracle for the graph as it is at that
                 call; every call made twice; last answers repeated in a fresh process.
The interpreter recursion limit is raised to n + 1000 around each call, as the module docstring of solvor.scc advises.
"""
from __future__ import annotations

import json
import os
import random
import subprocess
import sys
from collections import Counter

from oracles import digraph as D
from oracles import digraph_big as DB
from vf.core import use_repo

CLOSURE_LIMIT = 700   # Boolean-closure cross-check of the Kosaraju classes up to this many nodes
EMBED_LIMIT = 12000   # reported violations carry the concrete adjacency when it has at most this many entries


def base():
    from checks import C14
    return C14


def short(x, k=260):
    s = repr(x)
    return s if len(s) <= k else s[:k] + f"... ({len(s)} chars)"


class deep_recursion:
    def __init__(self, n):
        self.want = n + 1000

    def __enter__(self):
        self.old = sys.getrecursionlimit()
        if self.want > self.old:
            sys.setrecursionlimit(self.want)

    def __exit__(self, *a):
        sys.setrecursionlimit(self.old)
        return False


# =========================================================================================== oracle data of a big graph
class BigG:
    __slots__ = ("n", "succ", "has_out", "comp", "ncomp", "csize", "acyclic", "cedges", "nontrivial", "m")

    def __init__(self, n, adj, planted=None):
        self.n = n
        self.succ = DB.in_set(n, adj)
        self.has_out = any(j >= n for a in adj for j in a)
        self.comp, self.ncomp = DB.kosaraju(n, self.succ)
        self.csize = [0] * self.ncomp
        for u in range(n):
            self.csize[self.comp[u]] += 1
        self.acyclic = not DB.cyclic(n, self.succ, self.comp, self.ncomp)
        self.cedges = DB.condensation_edges(n, self.succ, self.comp)
        self.m = sum(len(a) for a in self.succ)
        self.nontrivial = any(w != u for u in range(n) for w in self.succ[u])
        if planted is not None:  # classes known by construction: planted[u] = block number
            pairs = {(planted[u], self.comp[u]) for u in range(n)}
            if len(pairs) != self.ncomp or len({p for p, _ in pairs}) != len(pairs):
                raise AssertionError("oracles disagree: planted classes vs kosaraju")
        if n and n <= CLOSURE_LIMIT:
            masks = D.succ_masks(n, self.succ)
            cls = D.class_masks(n, D.closure_masks(n, masks))
            kmask = [0] * self.ncomp
            for u in range(n):
                kmask[self.comp[u]] |= 1 << u
            if any(cls[u] != kmask[self.comp[u]] for u in range(n)):
                raise AssertionError("oracles disagree: closure classes vs kosaraju")
        elif n:
            r = random.Random(n * 31 + self.m)
            DB.spot_check_classes(n, self.succ, self.comp, [0, n - 1] + [r.randrange(n) for _ in range(4)])


# =========================================================================================== linear-time contracts
def index_of(idx, x, n):
    try:
        i = idx.get(x, -1)
    except TypeError:
        return -1
    return i if isinstance(i, int) and 0 <= i < n else -1


def chk_scc_big(res, g, idx):
    C = base()
    n = g.n
    sol = res.solution
    if not isinstance(sol, (list, tuple)):
        return [("ensures:partition-of-the-node-set", f"solution is {short(sol)}")]
    out = []
    pos = [-1] * n
    foreign = []
    bad_class = None
    for ci, comp in enumerate(sol):
        members = []
        cnt = 0
        for x in comp:
            cnt += 1
            i = index_of(idx, x, n)
            if i < 0:
                foreign.append(x)
                continue
            if pos[i] >= 0:
                out.append(("ensures:partition-of-the-node-set", f"node {x!r} is listed more than once (components #{pos[i]} and #{ci})"))
            pos[i] = ci
            members.append(i)
        if cnt == 0:
            out.append(("ensures:partition-of-the-node-set", f"empty component #{ci}"))
        if members and bad_class is None:
            k = g.comp[members[0]]
            if any(g.comp[i] != k for i in members) or len(set(members)) != g.csize[k]:
                bad_class = (ci, members)
    if foreign:
        out.append(("ensures:components-contain-only-nodes-of-the-node-set" + C.OUT_TAG,
                    f"{short(foreign, 120)} not in the node set"))
    missing = [i for i in range(n) if pos[i] < 0]
    if missing:
        out.append(("ensures:partition-of-the-node-set", f"{len(missing)} nodes are in no component (indices {short(missing, 80)})"))
    if bad_class is not None:
        ci, members = bad_class
        k = g.comp[members[0]]
        out.append(("ensures:components==classes-of-mutual-reachability",
                    f"component #{ci} has {len(members)} nodes (indices {short(sorted(members), 80)}) but the class of node "
                    f"index {members[0]} has {g.csize[k]} nodes; {len(sol)} components returned, there are {g.ncomp} classes"))
    for u in range(n):
        pu = pos[u]
        if pu < 0:
            continue
        for w in g.succ[u]:
            if pos[w] > pu:
                out.append(("ensures:sinks-first", f"edge index {u}->{w} goes from component #{pu} to the later component #{pos[w]}"))
                return out
    return out


def chk_topo_big(res, g, idx):
    from solvor.types import Status
    n = g.n
    if not g.acyclic:
        if res.status != Status.INFEASIBLE:
            return [("ensures:cyclic=>INFEASIBLE", f"graph has a cycle, status {res.status!r}, solution {short(res.solution)}")]
        return []
    sol = res.solution
    if res.status == Status.INFEASIBLE or not isinstance(sol, (list, tuple)):
        return [("ensures:acyclic=>ordering", f"graph is acyclic, status {res.status!r}, solution {short(sol)}")]
    pos = [-1] * n
    for p, x in enumerate(sol):
        i = index_of(idx, x, n)
        if i < 0 or pos[i] >= 0:
            return [("ensures:ordering-is-a-permutation-of-the-nodes", f"{x!r} (position {p}) is not a node or repeated")]
        pos[i] = p
    if len(sol) != n:
        return [("ensures:ordering-is-a-permutation-of-the-nodes", f"{len(sol)} entries for {n} nodes")]
    for u in range(n):
        for w in g.succ[u]:
            if pos[u] >= pos[w]:
                return [("ensures:every-edge-points-forward", f"edge index {u}->{w} but {u} is at position {pos[u]}, {w} at {pos[w]}")]
    return []


def chk_condense_big(res, g, idx):
    C = base()
    n = g.n
    sol = res.solution
    try:
        cn, adjd = sol
        cn = list(cn)
        items = list(adjd.items())
    except Exception:  # noqa: BLE001
        return [("ensures:condensed-nodes==components", f"solution is {short(sol)}")]
    out = []
    foreign = []
    cid = {}  # frozenset -> class number (or -1)
    seen_classes = Counter()
    for fs in cn:
        if not isinstance(fs, frozenset):
            out.append(("ensures:condensed-nodes==components", f"condensed node {short(fs, 80)} is not a frozenset"))
            continue
        members = []
        for x in fs:
            i = index_of(idx, x, n)
            if i < 0:
                foreign.append(x)
            else:
                members.append(i)
        k = -1
        if members:
            k = g.comp[members[0]]
            if any(g.comp[i] != k for i in members) or len(members) != g.csize[k]:
                if not any(o[0] == "ensures:condensed-nodes==components" for o in out):  # first one only
                    out.append(("ensures:condensed-nodes==components",
                                f"condensed node with {len(members)} nodes (indices {short(sorted(members), 80)}) is not a "
                                f"class of mutual reachability (the class of index {members[0]} has {g.csize[k]} nodes)"))
                k = -1
            else:
                seen_classes[k] += 1
        cid[fs] = k
    if not any(o[0] == "ensures:condensed-nodes==components" for o in out):
        if len(seen_classes) != g.ncomp or any(v != 1 for v in seen_classes.values()):
            out.append(("ensures:condensed-nodes==components",
                        f"{len(cn)} condensed nodes ({len(seen_classes)} distinct classes), the graph has {g.ncomp} classes"))
    got = set()
    for a, lst in items:
        if a not in cid:
            out.append(("ensures:condensed-edges-join-condensed-nodes", f"adjacency key {short(a, 80)} is not a condensed node"))
            continue
        for b in lst:
            if b not in cid:
                out.append(("ensures:condensed-edges-join-condensed-nodes", f"successor {short(b, 80)} is not a condensed node"))
                continue
            if cid[a] >= 0 and cid[b] >= 0:
                got.add((cid[a], cid[b]))
    if foreign:
        out.append(("ensures:condensed-nodes-contain-only-nodes-of-the-node-set" + C.OUT_TAG,
                    f"{short(foreign, 120)} not in the node set"))
    loops = [e for e in got if e[0] == e[1]]
    if loops:
        out.append(("ensures:condensed-graph-acyclic", f"self loop on a condensed node ({g.csize[loops[0][0]]} nodes)"))
    got_x = {e for e in got if e[0] != e[1]}
    if got_x != g.cedges:
        miss = g.cedges - got_x
        extra = got_x - g.cedges
        out.append(("ensures:condensed-edge<=>some-original-edge-joins-them",
                    f"{len(miss)} missing, {len(extra)} spurious condensed edges (class numbers of the oracle: missing "
                    f"{short(sorted(miss), 80)}, spurious {short(sorted(extra), 80)})"))
    if not loops and not DB.acyclic_by_kahn(set(cid.values()) | {x for e in got for x in e}, got):
        out.append(("ensures:condensed-graph-acyclic", "returned condensed graph has a cycle"))
    return out


CHK = {"scc": chk_scc_big, "topo": chk_topo_big, "condense": chk_condense_big, "scc_edges": chk_scc_big,
       "topo_edges": chk_topo_big}


def run_callback_big(case, g, fns=("scc", "topo", "condense")):
    from solvor.scc import condense, strongly_connected_components, topological_sort
    C = base()
    F = {"scc": strongly_connected_components, "topo": topological_sort, "condense": condense}
    nodes, nb, lab, idx = C.make_inputs(case)
    out = []
    for fn in fns:
        try:
            with deep_recursion(g.n):
                res = C.call_guarded(fn, F[fn], g.n, nodes(), nb)
        except C._Skip:
            continue
        except Exception as e:  # noqa: BLE001
            o, d = C.exc_obl(e, g)
            out.append((fn, o, d))
            continue
        for o, d in CHK[fn](res, g, idx):
            out.append((fn, o, d))
    return out


def run_edges_big(case, g, fns=("scc_edges", "topo_edges")):
    from solvor.scc import strongly_connected_components_edges, topological_sort_edges
    F = {"scc_edges": strongly_connected_components_edges, "topo_edges": topological_sort_edges}
    edges = [tuple(e) for e in case["edges"]]
    idx = {i: i for i in range(case["n"])}
    out = []
    for fn in fns:
        try:
            with deep_recursion(g.n):
                res = base().call_guarded(fn, F[fn], case["n"], case["n"], edges, backend="python")
        except base()._Skip:
            continue
        except Exception as e:  # noqa: BLE001
            out.append((fn, "ensures:returns", f"raised {type(e).__name__}: {e}"))
            continue
        for o, d in CHK[fn](res, g, idx):
            out.append((fn, o, d))
    return out


# =========================================================================================== ladder generators
def blocks_graph(rng, sizes, fwd, chords=1.0, loops=0.2, dup=0.1):
    """planted SCC structure: block k = Hamiltonian cycle on its nodes (random cyclic order) + chords; edges between
    blocks only from a lower to a higher block number.  Returns (n, adj, planted block of every node)."""
    n = sum(sizes)
    ids = list(range(n))
    rng.shuffle(ids)
    blocks = []
    k = 0
    for s in sizes:
        blocks.append(ids[k:k + s])
        k += s
    planted = [0] * n
    adj = [[] for _ in range(n)]
    for bi, b in enumerate(blocks):
        for u in b:
            planted[u] = bi
        if len(b) == 1:
            if rng.random() < loops:
                adj[b[0]].append(b[0])
            continue
        for i, u in enumerate(b):
            adj[u].append(b[(i + 1) % len(b)])
        for _ in range(int(chords * len(b) * rng.random())):
            adj[rng.choice(b)].append(rng.choice(b))
    nb = len(blocks)
    for _ in range(int(fwd * nb)):
        i = rng.randrange(nb)
        j = rng.randrange(nb)
        if i == j:
            continue
        if i > j:
            i, j = j, i
        if rng.random() < 0.7:  # mostly short-range: long dependency chains
            j = min(nb - 1, i + rng.randint(1, 3))
        u, w = rng.choice(blocks[i]), rng.choice(blocks[j])
        adj[u].append(w)
        if rng.random() < dup:
            adj[u].append(w)
    return n, adj, planted


def ladder_graph(spec):
    """spec = {"family","size","idx","seed","x"} -> (n, adj, planted classes or None).  adj entries >= n are neighbours
    outside the node set."""
    rng = random.Random("L/" + json.dumps(spec, sort_keys=True))
    fam, n, x = spec["family"], spec["size"], spec.get("x")
    planted = None
    if fam == "cycle":
        adj = [[(i + 1) % n] for i in range(n)]
    elif fam == "path":
        adj = [[i + 1] if i + 1 < n else [] for i in range(n)]
    elif fam == "lasso":  # path into a cycle, self loop on the entry node, one outside neighbour
        a = max(1, n // 3)
        adj = [[i + 1] for i in range(n - 1)] + [[a]]
        adj[a].append(a)
        adj[n // 2].append(n + 1)
    elif fam == "bipath":
        adj = [[j for j in (i - 1, i + 1) if 0 <= j < n] for i in range(n)]
    elif fam == "cycle_chain":  # chain of small cycles: n/b components, DFS depth ~ n
        b = x or 3
        adj = [[] for _ in range(n)]
        for st in range(0, n, b):
            e = min(n, st + b)
            if e - st > 1:
                for i in range(st, e):
                    adj[i].append(st + (i - st + 1) % (e - st))
            if e < n:
                adj[e - 1].append(e)
    elif fam == "planted":
        kinds = x or "mixed"
        sizes = []
        left = n
        while left > 0:
            s = min(left, rng.choice({"mixed": (1, 1, 1, 2, 3, 5, 8, max(1, n // 10)), "single": (1,),
                                      "big": (max(2, n // 3), max(2, n // 5), 1)}[kinds]))
            sizes.append(s)
            left -= s
        rng.shuffle(sizes)
        n, adj, planted = blocks_graph(rng, sizes, fwd=rng.choice((1.0, 2.0, 4.0)))
        if rng.random() < 0.4:
            for _ in range(3):
                adj[rng.randrange(n)].append(n + rng.randrange(2))
    elif fam == "dag_deep":  # Hamiltonian path in a hidden order + forward chords; x = 1: one back edge closes a cycle
        perm = list(range(n))
        rng.shuffle(perm)
        adj = [[] for _ in range(n)]
        for i in range(n - 1):
            adj[perm[i]].append(perm[i + 1])
        for _ in range(2 * n):
            i, j = sorted((rng.randrange(n), rng.randrange(n)))
            if i != j:
                adj[perm[i]].append(perm[j])
        if x:
            i, j = sorted((rng.randrange(n), rng.randrange(n)))
            adj[perm[j]].append(perm[i])  # i == j: self loop
        else:
            planted = list(range(n))
    elif fam == "dag_layers":
        width = max(2, int(n ** 0.5))
        layer = [i // width for i in range(n)]
        adj = [[] for _ in range(n)]
        for u in range(n):
            for _ in range(rng.randint(0, 3)):
                w = rng.randrange(n)
                if layer[w] > layer[u]:
                    adj[u] += [w] * rng.choice((1, 1, 2))
        planted = list(range(n))
    elif fam == "gnp":
        c = x or 1.2
        adj = [[] for _ in range(n)]
        for _ in range(int(c * n)):
            adj[rng.randrange(n)].append(rng.randrange(n))
    elif fam == "complete":
        adj = [[v for v in range(n) if v != u] for u in range(n)]
    elif fam == "tournament":  # x = 1: transitive (acyclic, dense); else random orientation
        adj = [[] for _ in range(n)]
        perm = list(range(n))
        rng.shuffle(perm)
        for i in range(n):
            for j in range(i + 1, n):
                if x or rng.random() < 0.5:
                    adj[perm[i]].append(perm[j])
                else:
                    adj[perm[j]].append(perm[i])
        if x:
            planted = list(range(n))
    elif fam == "tree":  # x = "out": edges parent -> child; "in": child -> parent; binary heap shape
        adj = [[] for _ in range(n)]
        for i in range(1, n):
            p = (i - 1) // 2
            if x == "in":
                adj[i].append(p)
            else:
                adj[p].append(i)
        planted = list(range(n))
    elif fam == "two_cycles":  # two long cycles sharing node 0
        h = n // 2
        adj = [[] for _ in range(n)]
        for i in range(h):
            adj[i].append((i + 1) % h)
        ring = [0] + list(range(h, n))
        for i, u in enumerate(ring):
            adj[u].append(ring[(i + 1) % len(ring)])
    elif fam == "hub":  # hub with many 2-cycles and pendant sinks / sources
        adj = [[] for _ in range(n)]
        for i in range(1, n):
            r = i % 3
            if r == 0:
                adj[0].append(i)
                adj[i].append(0)
            elif r == 1:
                adj[0].append(i)
            else:
                adj[i].append(0)
    else:
        raise ValueError(fam)
    return n, adj, planted


def ladder_specs(quick, seed):
    S = []

    def add(fam, size, reps=1, x=None):
        for i in range(reps):
            S.append({"family": fam, "size": size, "idx": i, "seed": seed, "x": x})

    deep = (10, 11, 12, 33, 65, 129, 140, 260, 520, 599, 600, 601, 602, 650, 700, 1000, 1030, 2049, 4100, 8200) + \
        (() if quick else (20000, 50000))
    for n in deep:
        for fam in ("cycle", "path", "lasso", "bipath", "two_cycles"):
            add(fam, n)
        for b in (2, 3, 5):
            add("cycle_chain", n, 1, b)
        add("dag_deep", n, 1 if quick else 3, 0)
        add("dag_deep", n, 1 if quick else 3, 1)
    mid = (10, 12, 33, 65, 129, 140, 260, 520, 600, 1000, 1030, 2049, 4100) + (() if quick else (8200, 20000))
    for n in mid:
        for kinds in ("mixed", "single", "big"):
            add("planted", n, 2 if quick else 8, kinds)
        add("dag_layers", n, 1 if quick else 4)
        for c in (0.8, 1.2, 2.0, 4.0):
            add("gnp", n, 1 if quick else 4, c)
        add("tree", n, 1, "out")
        add("tree", n, 1, "in")
        add("hub", n)
    for n in (10, 33, 65, 129, 140) + (() if quick else (260,)):
        add("complete", n)
        add("tournament", n, 1 if quick else 3, 0)
        add("tournament", n, 1 if quick else 3, 1)
    return S


VARIANTS = ("plain", "reversed", "shuffled", "labels", "iterables", "strict")


def make_case(spec, variant, n, adj):
    """callback case (see C14.cb_case) for a ladder graph under one presentation variant"""
    C = base()
    rng = random.Random("V/" + variant + json.dumps(spec, sort_keys=True))
    order = list(range(n))
    adj2 = adj
    scheme, nodes_as, nbrs_as, outmode = "int", "list", "list", "lenient"
    if variant == "reversed":
        order.reverse()
        adj2 = [list(reversed(a)) for a in adj]
    elif variant == "shuffled":
        rng.shuffle(order)
        adj2 = [rng.sample(a, len(a)) for a in adj]
    elif variant == "labels":
        scheme = rng.choice(C.SCHEMES[1:])
        rng.shuffle(order)
    elif variant == "iterables":
        nodes_as = rng.choice(("tuple", "iter", "gen", "dictkeys"))
        nbrs_as = rng.choice(("tuple", "iter", "gen"))
        scheme = rng.choice(("int", "str"))
    elif variant == "strict":
        outmode = "strict"
        nbrs_as = "tuple"
    return C.cb_case(n, adj2, order, scheme, nodes_as, nbrs_as, outmode)


def light(case, spec, variant):
    c = {k: v for k, v in case.items() if k not in ("adj", "order")}
    c["ladder"] = spec
    c["variant"] = variant
    return c


def eval_ladder(spec, acc):
    C = base()
    n, adj, planted = ladder_graph(spec)
    g = BigG(n, adj, planted)
    acc.r2["ladder_graphs"] += 1
    acc.r2["ladder_max_nodes"] = max(acc.r2["ladder_max_nodes"], n)
    acc.r2["ladder_max_edges"] = max(acc.r2["ladder_max_edges"], g.m)
    if planted is not None:
        acc.r2["ladder_planted_classes"] += 1
    if not g.acyclic:
        acc.cyclic += 1
    if g.has_out:
        acc.with_out += 1
    rng = random.Random("plan/" + json.dumps(spec, sort_keys=True))
    variants = ["plain", rng.choice(("reversed", "shuffled")), rng.choice(("labels", "iterables"))]
    if g.has_out:
        variants.append("strict")
    tot = sum(len(a) for a in adj)
    for variant in variants:
        case = make_case(spec, variant, n, adj)
        bad = run_callback_big(case, g)
        acc.evals += 3
        acc.cases += 1
        if g.nontrivial:
            acc.keys.add(hash(("L", variant, json.dumps(spec, sort_keys=True))))
        if bad:
            rep = dict(case) if tot <= EMBED_LIMIT else light(case, spec, variant)
            rep["ladder"], rep["variant"] = spec, variant
            acc.add([(fn, o, f"[ladder {spec['family']} n={n} edges={g.m} {variant}] {d}") for fn, o, d in bad], rep)
    if not g.has_out:
        ec = C.edge_case(n, [list(a) for a in adj], rng if spec["idx"] % 2 else None)
        bad = run_edges_big(ec, g)
        acc.evals += 2
        if bad:
            rep = ec if tot <= EMBED_LIMIT else {"api": "edges", "n": n, "ladder": spec, "variant": "edges",
                                                 "interleaved": bool(spec["idx"] % 2)}
            acc.add([(fn, o, f"[ladder {spec['family']} n={n} edges={g.m} edge list] {d}") for fn, o, d in bad], rep)
    if not acc.samples and g.nontrivial:
        acc.samples.append(light(make_case(spec, "plain", n, adj), spec, "plain") | {"n": n, "edges": g.m})


def work_ladder(chunk):
    use_repo()
    acc = base().Acc()
    acc.r2 = Counter()
    for spec in chunk[1]:
        eval_ladder(spec, acc)
    d = acc.data()
    d["r2"] = dict(acc.r2)
    return d


def rebuild(case):
    """full case (with adjacency) from a reported one: either it carries the adjacency, or it is regenerated from the spec"""
    C = base()
    if "adj" in case or "edges" in case:
        return case
    spec = case["ladder"]
    n, adj, _ = ladder_graph(spec)
    if case.get("api") == "edges":
        rng = random.Random("plan/" + json.dumps(spec, sort_keys=True))
        rng.choice(("reversed", "shuffled")), rng.choice(("labels", "iterables"))  # same stream position as eval_ladder
        return C.edge_case(n, [list(a) for a in adj], rng if case.get("interleaved") else None) | {"fn": case["fn"]}
    full = make_case(spec, case["variant"], n, adj)
    full["fn"] = case["fn"]
    return full


# =========================================================================================== history mode
class Session:
    """ONE node list, ONE adjacency dict (label -> list of labels), ONE neighbour function, ONE edge list (edges API)
    for the whole sequence; all edits in place."""

    def __init__(self, n, adj, scheme, strict):
        C = base()
        self.scheme = scheme
        self.lab = [C.label(scheme, i) for i in range(n + 64)]
        self.idx = {l: i for i, l in enumerate(self.lab)}
        self.members = list(range(n))             # node indices currently in the node set (= order of self.nodes)
        self.nodes = [self.lab[i] for i in range(n)]
        self.table = {self.lab[i]: [self.lab[j] for j in adj[i]] for i in range(n)}
        self.next = n
        table = self.table

        if strict:
            def nb(v):
                if v not in table:
                    raise C.OutsideNodeSet(v)
                return table[v]
        else:
            def nb(v):
                return table.get(v, ())
        self.nb = nb

    def apply(self, ed):
        op = ed[0]
        L = self.lab
        if op == "add":      # edge u -> w appended to u's list
            self.table[L[ed[1]]].append(L[ed[2]])
        elif op == "insert":  # edge put in front
            self.table[L[ed[1]]].insert(0, L[ed[2]])
        elif op == "pop":    # last neighbour of u removed
            if self.table[L[ed[1]]]:
                self.table[L[ed[1]]].pop()
        elif op == "clear":
            self.table[L[ed[1]]].clear()
        elif op == "reverse":
            self.table[L[ed[1]]].reverse()
        elif op == "node":   # new node appended to the node list, with a (still empty) list
            i = self.next
            self.next += 1
            self.members.append(i)
            self.nodes.append(L[i])
            self.table[L[i]] = []
        elif op == "drop":   # node removed from the node list and the dict: edges into it become outside neighbours
            i = ed[1]
            if i in self.members and len(self.members) > 1:
                self.members.remove(i)
                self.nodes.remove(L[i])
                del self.table[L[i]]
        elif op == "rotate":  # node list rotated in place
            if self.nodes:
                self.nodes.append(self.nodes.pop(0))
                self.members.append(self.members.pop(0))

    def graph(self):
        """(n, adj in a compact index space following the node list order; outside neighbours -> n)"""
        pos = {i: k for k, i in enumerate(self.members)}
        n = len(self.members)
        adj = [[pos.get(self.idx[w], n) for w in self.table[self.lab[i]]] for i in self.members]
        idx = {self.lab[i]: k for i, k in pos.items()}
        return n, adj, idx


def hist_script(hs):
    rng = random.Random("H/" + json.dumps(hs, sort_keys=True))
    C = base()
    if hs["size"] == "small":
        n = rng.randint(1, 8)
        p = rng.choice((0.1, 0.25, 0.4))
        adj = [[v for v in range(n) if rng.random() < p] for _ in range(n)]
        rounds = rng.randint(3, 6)
    else:  # deep: a long path / cycle growing across 600 / 1000 nodes by in-place appends
        n = rng.choice((580, 596, 640, 990))
        adj = [[i + 1] for i in range(n - 1)] + [[]]
        rounds = rng.randint(4, 6)
    steps = []
    live = list(range(n))
    nxt = n
    for k in range(rounds):
        edits = []
        if k:
            if hs["size"] == "small":
                for _ in range(rng.randint(1, 3)):
                    r = rng.random()
                    u = rng.choice(live)
                    if r < 0.4:
                        edits.append([rng.choice(("add", "insert")), u, rng.choice(live)])
                    elif r < 0.55:
                        edits.append([rng.choice(("pop", "clear", "reverse")), u])
                    elif r < 0.75 and nxt < n + 60:
                        edits.append(["node"])
                        live.append(nxt)
                        edits.append(["add", rng.choice(live), nxt])
                        if rng.random() < 0.6:
                            edits.append(["add", nxt, rng.choice(live)])
                        nxt += 1
                    elif r < 0.85 and len(live) > 1:
                        edits.append(["drop", u])
                        live.remove(u)
                    else:
                        edits.append(["rotate"])
            else:
                r = rng.random()
                tail = live[-1]
                if r < 0.5:  # extend the path by a few nodes
                    for _ in range(rng.choice((3, 8, 12))):
                        if nxt >= n + 60:
                            break
                        edits.append(["node"])
                        edits.append(["add", tail, nxt])
                        live.append(nxt)
                        tail = nxt
                        nxt += 1
                elif r < 0.75:  # close a long cycle
                    edits.append(["add", tail, live[rng.choice((0, 0, 1, len(live) // 2))]])
                elif r < 0.9:   # and open it again
                    edits.append(["pop", tail])
                else:
                    edits.append(["rotate"])
        steps.append({"edits": edits})
    return n, adj, steps, rng.choice(C.SCHEMES), rng.random() < 0.3


def canon_answer(fn, res, idx, n):
    """what the definitions determine, in index space (for the fresh-process comparison)"""
    from solvor.types import Status
    try:
        if fn in ("scc", "scc_edges"):
            return sorted(sorted(index_of(idx, x, n) for x in c) for c in res.solution)
        if fn in ("topo", "topo_edges"):
            return "INFEASIBLE" if res.status == Status.INFEASIBLE else "ordering"
        cn, adjd = res.solution
        return [sorted(sorted(index_of(idx, x, n) for x in c) for c in cn),
                sorted([sorted(index_of(idx, x, n) for x in a), sorted(sorted(index_of(idx, x, n) for x in b) for b in lst)]
                       for a, lst in adjd.items())]
    except Exception as e:  # noqa: BLE001
        return ["unreadable", repr(e)]


def run_history(hs, upto=None):
    from solvor.scc import (condense, strongly_connected_components, strongly_connected_components_edges,
                            topological_sort, topological_sort_edges)
    C = base()
    F = {"scc": strongly_connected_components, "topo": topological_sort, "condense": condense}
    FE = {"scc_edges": strongly_connected_components_edges, "topo_edges": topological_sort_edges}
    n0, adj0, steps, scheme, strict = hist_script(hs)
    s = Session(n0, adj0, scheme, strict)
    elist = []   # ONE edge list object for the *_edges functions, rebuilt in place (clear + extend) at every step
    out = []
    calls = 0
    last = None
    small = hs["size"] == "small"
    for k, step in enumerate(steps):
        if upto is not None and k > upto:
            break
        for ed in step["edits"]:
            s.apply(ed)
        n, adj, idx = s.graph()
        g = C.G(n, adj) if small else BigG(n, adj)
        chk = C.CHK if small else CHK
        why = "first calls on the new objects" if k == 0 else \
            f"after in-place edits {short(step['edits'], 200)} on the same node list / dict / neighbour function"
        state = {"nodes_by_index": list(range(n)), "adj": adj, "scheme": scheme, "strict": strict} \
            if sum(map(len, adj)) <= EMBED_LIMIT else None
        answers = {}
        for rep in (0, 1):
            for fn in ("scc", "topo", "condense"):
                calls += 1
                try:
                    with deep_recursion(n):
                        res = C.call_guarded(fn, F[fn], n, s.nodes, s.nb)
                    bad = chk[fn](res, g, idx)
                    if not rep:
                        answers[fn] = canon_answer(fn, res, idx, n)
                except C._Skip:
                    bad = []
                except Exception as e:  # noqa: BLE001
                    bad = [C.exc_obl(e, g)]
                for o, d in bad:
                    out.append((fn, o, k, f"[history, round #{k + 1}{'b (same calls repeated)' if rep else ''}: {why}; graph "
                                          f"now n={n} adjacency (index space, {n} = outside) {short(adj, 300)}] {d}", state, n))
            if not g.has_out:
                elist.clear()
                elist.extend((u, w) for u in range(n) for w in adj[u])
                for fn in ("scc_edges", "topo_edges"):
                    calls += 1
                    try:
                        with deep_recursion(n):
                            res = C.call_guarded(fn, FE[fn], n, n, elist, backend="python")
                        bad = chk[fn](res, g, {i: i for i in range(n)})
                    except C._Skip:
                        bad = []
                    except Exception as e:  # noqa: BLE001
                        bad = [("ensures:returns", f"raised {type(e).__name__}: {e}")]
                    for o, d in bad:
                        out.append((fn, o, k, f"[history, round #{k + 1}{'b' if rep else ''}: {why}; same edge list object, now "
                                              f"n={n} edges {short(elist, 300)}] {d}", state, n))
        last = {"n": n, "adj": adj, "scheme": scheme, "answers": answers}
    return out, calls, last


def fresh_eval(item):
    """In a NEW interpreter: newly built arguments for the final graph, the three callback functions once."""
    from solvor.scc import condense, strongly_connected_components, topological_sort
    F = {"scc": strongly_connected_components, "topo": topological_sort, "condense": condense}
    n = item["n"]
    s = Session(n, item["adj"], item["scheme"], False)  # index n (a label that is no key and no node) = outside
    _, _, idx = s.graph()
    out = {}
    for fn in ("scc", "topo", "condense"):
        try:
            with deep_recursion(n):
                out[fn] = canon_answer(fn, base().call_guarded(fn, F[fn], n, s.nodes, s.nb), idx, n)
        except base()._Skip:
            out[fn] = ["exception", "not called again: it ran out of its CPU budget before"]
        except Exception as e:  # noqa: BLE001
            out[fn] = ["exception", repr(e)]
    return out


def fresh_process(items):
    if not items:
        return []
    here = os.path.dirname(os.path.dirname(os.path.abspath(__file__)))
    p = subprocess.run([sys.executable, "-m", "checks.C14_round2", "--fresh"], input=json.dumps(items),
                       capture_output=True, text=True, cwd=here, env=dict(os.environ))
    if p.returncode != 0:
        raise RuntimeError("fresh-process helper failed: " + p.stderr[-800:])
    return json.loads(p.stdout)


def work_history(chunk):
    use_repo()
    C = base()
    acc = C.Acc()
    acc.r2 = Counter()
    lasts = []
    for hs in chunk[1]:
        bad, calls, last = run_history(hs)
        acc.evals += calls
        acc.r2["history_sessions"] += 1
        acc.r2["history_calls"] += calls
        acc.keys.add(hash(("H", json.dumps(hs, sort_keys=True))))
        for fn, o, k, d, state, n in bad:
            name = f"C14/{C.FULL[fn]}/{o}"
            acc.per_obl[name] += 1
            if acc.per_obl[name] <= 3:
                acc.viol.append((name, {"fn": fn, "api": "history", "history": hs, "upto": k, "n": n,
                                        "input_at_failing_call": state}, d))
        if last is not None and last["answers"] and (hs["size"] != "small" or hs["idx"] % 10 == 0):
            lasts.append((hs, last))
    d = acc.data()
    d["r2"] = dict(acc.r2)
    d["lasts"] = lasts
    return d


def history_specs(quick, seed):
    out = [{"seed": seed, "idx": i, "size": "small"} for i in range(1500 if quick else 12000)]
    out += [{"seed": seed, "idx": i, "size": "deep"} for i in range(8 if quick else 48)]
    return out


def replay(rec) -> int:
    use_repo()
    C = base()
    case = rec["case"]
    fn = case["fn"]
    if case.get("api") == "history":
        out, calls, last = run_history(case["history"], case.get("upto"))
        bad = [(f, o, d) for f, o, k, d, _, _n in out if case.get("fresh") or f == fn]
        for f, o, d in bad:
            print(f"  violated C14/{C.FULL[f]}/{o}: {d[:1500]}")
        nbad = len(bad)
        if case.get("fresh") and last is not None:
            ans = fresh_process([last])[0]
            same = json.loads(json.dumps(last["answers"])) == ans
            print(f"replay: fresh process {'agrees' if same else 'differs: ' + short(ans, 400) + ' here: ' + short(last['answers'], 400)}")
            nbad += not same
        print("replay:", "still violates" if nbad else "no violation")
        return 1 if nbad else 0
    full = rebuild(case)
    if full["api"] == "edges":
        adj = [[] for _ in range(full["n"])]
        for u, v in full["edges"]:
            adj[u].append(v)
        g = BigG(full["n"], adj)
        bad = run_edges_big(full, g, (fn,))
    else:
        g = BigG(full["n"], full["adj"])
        bad = run_callback_big(full, g, (fn,))
    print(f"replay {C.FULL[fn]} on {case.get('ladder')} ({case.get('variant')}): n={g.n} edges={g.m} acyclic={g.acyclic} "
          f"classes={g.ncomp}; adjacency starts {short(full.get('adj', full.get('edges')), 200)}")
    for f, o, d in bad:
        print(f"  violated C14/{C.FULL[f]}/{o}: {d}")
    print("replay:", "still violates" if bad else "no violation")
    return 1 if bad else 0


if __name__ == "__main__":
    if sys.argv[1:] == ["--fresh"]:
        use_repo()
        print(json.dumps([fresh_eval(it) for it in json.load(sys.stdin)]))

"""Shared bounded back end for C01 / C02: generators, oracle, contract evaluation for solve_sat."""
from __future__ import annotations

import itertools
import random
import signal

from vf.core import use_repo


class Hang(Exception):
    pass


def _alarm(signum, frame):
    raise Hang()


# ------------------------------------------------------------------ oracle
def brute_models(clauses, assumptions, n_vars):
    """all total assignments over 1..n_vars satisfying clauses + assumptions (n_vars <= 14)"""
    out = []
    for bits in range(1 << n_vars):
        ok = True
        for a in assumptions:
            if ((bits >> (abs(a) - 1)) & 1) != (1 if a > 0 else 0):
                ok = False
                break
        if not ok:
            continue
        for c in clauses:
            sat = False
            for l in c:
                if ((bits >> (abs(l) - 1)) & 1) == (1 if l > 0 else 0):
                    sat = True
                    break
            if not sat:
                ok = False
                break
        if ok:
            out.append(bits)
    return out


def has_model(clauses, assumptions):
    n = max([abs(l) for c in clauses for l in c] + [abs(a) for a in assumptions] + [0])
    if n <= 14:
        # early exit search
        for bits in range(1 << n):
            if all(((bits >> (abs(a) - 1)) & 1) == (1 if a > 0 else 0) for a in assumptions) and all(
                    any(((bits >> (abs(l) - 1)) & 1) == (1 if l > 0 else 0) for l in c) for c in clauses):
                return True
        return False
    import z3  # trusted for larger instances
    s = z3.Solver()
    bs = {}

    def b(v):
        if v not in bs:
            bs[v] = z3.Bool(f"x{v}")
        return bs[v]

    for c in clauses:
        s.add(z3.Or(*[b(abs(l)) if l > 0 else z3.Not(b(abs(l))) for l in c]) if c else z3.BoolVal(False))
    for a in assumptions:
        s.add(b(abs(a)) if a > 0 else z3.Not(b(abs(a))))
    return s.check() == z3.sat


# ------------------------------------------------------------------ contract
def evaluate(case, timeout_s=6):
    """case = dict(clauses, assumptions, solution_limit, luby_factor, max_conflicts, max_restarts)
    returns (violations: list[(obligation, detail)], info)"""
    use_repo()
    from solvor.sat import solve_sat
    from solvor.types import Status
    clauses = [list(c) for c in case["clauses"]]
    assumptions = list(case.get("assumptions") or [])
    kw = {}
    for k in ("solution_limit", "luby_factor", "max_conflicts", "max_restarts"):
        if case.get(k) is not None:
            kw[k] = case[k]
    viol = []
    signal.signal(signal.SIGALRM, _alarm)
    signal.alarm(timeout_s)
    try:
        res = solve_sat([list(c) for c in clauses], assumptions=list(assumptions) or None, **kw)
    except Hang:
        viol.append(("C02/solve_sat/ensures:returns-within-budget", f"no return within {timeout_s}s (budgets {kw})"))
        return viol, {"hang": True}
    except Exception as e:  # noqa
        signal.alarm(0)
        viol.append(("C02/solve_sat/ensures:returns-a-status", f"raised {e!r}"))
        return viol, {"raised": True}
    finally:
        signal.alarm(0)
    status = res.status
    info = {"status": status.name, "iterations": res.iterations, "evaluations": res.evaluations}
    if status not in (Status.OPTIMAL, Status.INFEASIBLE, Status.MAX_ITER):
        viol.append(("C02/solve_sat/ensures:status-domain", f"status {status.name}"))
    sols = []
    if res.solution is not None:
        sols.append(("solution", res.solution))
    if res.solutions is not None:
        for i, s in enumerate(res.solutions):
            sols.append((f"solutions[{i}]", s))
    sat = has_model(clauses, assumptions) if clauses else True
    # C01: every returned assignment is a model and agrees with the assumptions
    for name, s in sols:
        if not isinstance(s, dict):
            viol.append(("C01/solve_sat/ensures:assignment-shape", f"{name} is {type(s).__name__}"))
            continue
        for c in clauses:
            if not any(s.get(abs(l)) == (l > 0) for l in c):
                viol.append(("C01/solve_sat/ensures:every-clause-true", f"{name}={s} falsifies clause {c}"))
                break
        for a in assumptions:
            if abs(a) in s and s[abs(a)] != (a > 0):
                viol.append(("C01/solve_sat/ensures:agrees-with-assumptions", f"{name}={s} contradicts assumption {a}"))
                break
            if abs(a) not in s and clauses:
                # an assumed variable absent from the model: the model does not say the assumption holds
                n_vars = max(abs(l) for c in clauses for l in c) if any(clauses) else 0
                if abs(a) <= n_vars:
                    viol.append(("C01/solve_sat/ensures:agrees-with-assumptions", f"{name}={s} leaves assumed variable {abs(a)} unassigned"))
                    break
    if res.solutions is not None:
        seen = set()
        for i, s in enumerate(res.solutions):
            key = tuple(sorted(s.items())) if isinstance(s, dict) else repr(s)
            if key in seen:
                viol.append(("C01/solve_sat/ensures:solutions-pairwise-distinct", f"solutions[{i}]={s} repeated"))
                break
            seen.add(key)
        if case.get("solution_limit") and len(res.solutions) > case["solution_limit"]:
            viol.append(("C01/solve_sat/ensures:solutions-pairwise-distinct", f"{len(res.solutions)} solutions for limit {case['solution_limit']}"))
    # C02: verdicts
    if status == Status.INFEASIBLE and sat:
        viol.append(("C02/solve_sat/ensures:INFEASIBLE-only-if-no-model", "INFEASIBLE but a model exists"))
    if status == Status.INFEASIBLE and res.solution is not None:
        viol.append(("C02/solve_sat/ensures:INFEASIBLE-only-if-no-model", "INFEASIBLE with a solution attached"))
    if status == Status.OPTIMAL and res.solution is None:
        viol.append(("C02/solve_sat/ensures:model-whenever-one-exists", "OPTIMAL without a solution"))
    if status == Status.OPTIMAL and not sat:
        viol.append(("C02/solve_sat/ensures:no-model-for-unsat", "OPTIMAL on an unsatisfiable formula"))
    if sat and status != Status.OPTIMAL and case.get("budget_generous", True):
        viol.append(("C02/solve_sat/ensures:model-whenever-one-exists",
                     f"a model exists, budgets are not exhausted (generous), status {status.name}"))
    if not sat and status == Status.MAX_ITER and case.get("budget_generous", True) and case.get("small", True):
        viol.append(("C02/solve_sat/ensures:returns-within-budget", "MAX_ITER on a tiny unsatisfiable formula with default budgets"))
    info["sat"] = sat
    info["n_solutions"] = len(res.solutions) if res.solutions is not None else (1 if res.solution is not None else 0)
    return viol, info


def eval_chunk(cases):
    out = []
    for c in cases:
        v, info = evaluate(c, c.get("timeout_s", 6))
        out.append((c, v, info))
    return out


# ------------------------------------------------------------------ generators
def literal_sets(n_vars, max_len):
    lits = [l for v in range(1, n_vars + 1) for l in (v, -v)]
    out = []
    for k in range(1, max_len + 1):
        for comb in itertools.combinations(lits, k):
            out.append(list(comb))
    return out


def exhaustive_small(n_vars=3, max_clauses=3, max_len=3):
    sets = literal_sets(n_vars, max_len)
    for k in range(1, max_clauses + 1):
        for comb in itertools.combinations(range(len(sets)), k):
            yield [sets[i] for i in comb]


def configs_for(clauses, rng, full=False):
    n = max(abs(l) for c in clauses for l in c)
    assum_opts = [[]] + [[l] for v in range(1, n + 1) for l in (v, -v)]
    if full:
        assum_opts.append([1, -1])
    for assumptions in assum_opts:
        for sl in (1, 2, 100):
            for lf in (1, 100):
                yield {"clauses": clauses, "assumptions": assumptions, "solution_limit": sl, "luby_factor": lf}


def random_cnf(rng, n_vars, n_clauses, lens=(1, 2, 3), dup=0.05, taut=0.03):
    cs = []
    for _ in range(n_clauses):
        k = rng.choice(lens)
        vs = [rng.randint(1, n_vars) for _ in range(k)]
        c = [v if rng.random() < 0.5 else -v for v in vs]
        if rng.random() < dup and c:
            c.append(c[0])
        if rng.random() < taut and c:
            c.append(-c[0])
        cs.append(c)
    return cs


def pigeonhole(p, h):
    """p pigeons in h holes: var(i,j) = i*h + j + 1"""
    cs = []
    for i in range(p):
        cs.append([i * h + j + 1 for j in range(h)])
    for j in range(h):
        for a in range(p):
            for b in range(a + 1, p):
                cs.append([-(a * h + j + 1), -(b * h + j + 1)])
    return cs


def parity_chain(n, odd_total):
    """x1 xor x2 xor ... xor xn = odd_total, and again with the opposite parity -> unsat when both added"""
    cs = []
    for bits in range(1 << n):
        ones = bin(bits).count("1")
        if (ones % 2 == 1) != odd_total:
            cs.append([(i + 1) if not (bits >> i) & 1 else -(i + 1) for i in range(n)])
    return cs


def cumulative_unsat():
    """three length-3 tasks in a 0..5 window under unit capacity: start s in 0..3 for each task (12 start vars)
    plus 6 helper vars = 18 variables; pairwise non-overlap makes it unsatisfiable"""
    cs = []
    T = 3

    def sv(t, s):
        return t * 4 + s + 1

    for t in range(T):
        cs.append([sv(t, s) for s in range(4)])
        for a in range(4):
            for b in range(a + 1, 4):
                cs.append([-sv(t, a), -sv(t, b)])
    for t1 in range(T):
        for t2 in range(t1 + 1, T):
            for s1 in range(4):
                for s2 in range(4):
                    if s1 < s2 + 3 and s2 < s1 + 3:
                        cs.append([-sv(t1, s1), -sv(t2, s2)])
    # helper vars 13..18: occupancy of each time slot, implied by starts
    for tm in range(6):
        occ = 13 + tm
        for t in range(T):
            for s in range(4):
                if s <= tm < s + 3:
                    cs.append([-sv(t, s), occ])
    return cs


def guarded_php(p, closing):
    """PHP(p, p-1) guarded by -g, plus a two-variable gadget that is only decided when g is false: runs of
    several thousand conflicts (activity rescaling, many restarts, reduce_db) whose model must still be total"""
    h = p - 1
    g = 1
    x = lambda i, j: 2 + i * h + j
    cl = [[-g] + [x(i, j) for j in range(h)] for i in range(p)]
    for j in range(h):
        for i1 in range(p):
            for i2 in range(i1 + 1, p):
                cl.append([-g, -x(i1, j), -x(i2, j)])
    a = 2 + p * h
    b = a + 1
    cl += [[-g, -a], [a, b], [-a, -b], [-a, b], [g, a, b]]
    if closing:
        cl.append([a, -b, g])
    return cl


def build_cases(seed: int, quick: bool):
    rng = random.Random(seed)
    cases = []
    # (i) exhaustive tiny scope (seeded slice in quick)
    allf = list(exhaustive_small(3, 3 if not quick else 2, 3))
    if quick:
        three = list(exhaustive_small(3, 3, 2))
        rng.shuffle(three)
        allf = allf + three[:1200]
    for f in allf:
        cfgs = list(configs_for(f, rng, full=not quick))
        if quick:
            cfgs = rng.sample(cfgs, 4)
        for c in cfgs:
            c["family"] = "tiny"
            cases.append(c)
    # duplicated literals / tautologies / unit+conflict mixes
    for _ in range(300 if quick else 40000):
        n = rng.randint(1, 5)
        f = random_cnf(rng, n, rng.randint(1, 7), dup=0.3, taut=0.2)
        a = []
        if rng.random() < 0.5:
            a = [rng.choice([1, -1]) * rng.randint(1, n) for _ in range(rng.randint(1, 2))]
        cases.append({"clauses": f, "assumptions": a, "solution_limit": rng.choice([1, 2, 3, 10, 100]),
                      "luby_factor": rng.choice([1, 2, 100]), "family": "dup-taut"})
    # (ii) random 3-SAT / mixed around the threshold, restarts forced
    for _ in range(250 if quick else 20000):
        n = rng.randint(6, 12) if rng.random() < 0.7 else rng.randint(13, 40)
        m = int(n * rng.uniform(3.2, 5.0))
        f = random_cnf(rng, n, m, lens=rng.choice([(3,), (2, 3), (1, 2, 3, 3), (3, 4)]), dup=0.02, taut=0.01)
        a = []
        if rng.random() < 0.3:
            a = [rng.choice([1, -1]) * rng.randint(1, n) for _ in range(rng.randint(1, 3))]
        cases.append({"clauses": f, "assumptions": a, "solution_limit": rng.choice([1, 1, 5, 50]),
                      "luby_factor": rng.choice([1, 2, 3, 100]), "family": "random", "small": n <= 14,
                      "timeout_s": 20})
    # tiny budgets: any status allowed, but models must be models and the call must return
    for _ in range(100 if quick else 15000):
        n = rng.randint(5, 14)
        f = random_cnf(rng, n, int(n * rng.uniform(3.5, 4.8)), lens=(3,))
        cases.append({"clauses": f, "assumptions": [], "solution_limit": rng.choice([1, 5]),
                      "luby_factor": rng.choice([1, 2]), "max_conflicts": rng.choice([1, 3, 10, 50]),
                      "max_restarts": rng.choice([0, 1, 5, 10000]), "budget_generous": False, "family": "tiny-budget"})
    # (iii) UNSAT families where learning must fire
    fams = [("php3", pigeonhole(4, 3)), ("php4", pigeonhole(5, 4)), ("parity4", parity_chain(4, True) + parity_chain(4, False)),
            ("parity6", parity_chain(6, True) + parity_chain(6, False)), ("cumulative18", cumulative_unsat())]
    if not quick:
        fams.append(("php5", pigeonhole(6, 5)))
    for name, f in fams:
        for lf in (1, 2, 100):
            cases.append({"clauses": f, "assumptions": [], "solution_limit": 1, "luby_factor": lf, "family": name,
                          "small": False, "timeout_s": 60})
        cases.append({"clauses": f, "assumptions": [], "solution_limit": 1, "luby_factor": 100, "max_conflicts": 500,
                      "budget_generous": False, "family": name + "-budget500", "timeout_s": 60})
    # long runs (thousands of conflicts), satisfiable and unsatisfiable variants
    for pp in ((7, 8) if quick else (7, 8, 9)):
        for closing in (False, True):
            cases.append({"clauses": guarded_php(pp, closing), "assumptions": [], "solution_limit": 1, "luby_factor": 100,
                          "family": f"guarded-php{pp}", "small": False, "timeout_s": 240})
    for _ in range(0 if quick else 12):
        n = rng.randint(45, 70)
        cases.append({"clauses": random_cnf(rng, n, int(n * 4.26), lens=(3,), dup=0, taut=0), "assumptions": [],
                      "solution_limit": 1, "luby_factor": 100, "family": "hard-3sat", "small": False, "timeout_s": 600})
    # satisfiable php (p == h) and enumeration of many models (blocking clauses, reduce_db)
    cases.append({"clauses": pigeonhole(3, 3), "assumptions": [], "solution_limit": 10, "luby_factor": 1, "family": "php-sat"})
    free = [[i, -i] for i in range(1, 8)]
    cases.append({"clauses": free, "assumptions": [], "solution_limit": 200, "luby_factor": 1, "family": "enumerate-128",
                  "timeout_s": 60})
    if not quick:
        free12 = [[i, -i, i % 12 + 1] for i in range(1, 13)]
        cases.append({"clauses": free12, "assumptions": [], "solution_limit": 5000, "luby_factor": 1,
                      "family": "enumerate-4096-reduce_db", "timeout_s": 600})
    # the formulas quoted in the property texts
    for f, a, sl, lf in [([[1], [2, 3]], [], 10, 100), ([[1, 2]], [-1], 1, 100), ([[-1]], [], 3, 1),
                         ([[3, 1], [1, 1, 3], [-3, 2, 3]], [-1], 1, 100)]:
        cases.append({"clauses": f, "assumptions": a, "solution_limit": sl, "luby_factor": lf, "family": "quoted"})
    return cases


def run_property(ctx, prefix):
    """run all cases, report the violations whose obligation starts with `prefix` (C01 or C02)"""
    from vf.pool import pmap
    cases = build_cases(ctx.seed, ctx.quick)
    chunks = [cases[i:i + 40] for i in range(0, len(cases), 40)]
    results = pmap(eval_chunk, chunks, chunksize=1)
    n = 0
    nontriv = set()
    fam = {}
    samples = []
    for ch in results:
        for c, viol, info in ch:
            n += 1
            fam[c.get("family", "?")] = fam.get(c.get("family", "?"), 0) + 1
            # non-trivial: the run made at least one decision and the formula has > 1 clause, or enumerated > 1 model
            if (info.get("iterations", 0) >= 1 and len(c["clauses"]) > 1) or info.get("n_solutions", 0) > 1:
                nontriv.add(repr((c["clauses"], c.get("assumptions"), c.get("solution_limit"), c.get("luby_factor"),
                                  c.get("max_conflicts"), c.get("max_restarts"))))
            if len(samples) < 6 and c.get("family") in ("random", "dup-taut", "tiny") and n % 97 == 0:
                samples.append({k: c[k] for k in ("clauses", "assumptions", "solution_limit", "luby_factor") if k in c})
            for ob, detail in viol:
                if ob.startswith(prefix):
                    case = {k: v for k, v in c.items() if k not in ("family",)}
                    ctx.violation(ob, case, detail)
    ctx.count(n, nontriv, samples or [cases[0]])
    ctx.scope("solve_sat cases by family", **fam)
    ctx.notes["exhaustive_note"] = ("thorough tier enumerates every CNF over <=3 variables with <=3 clauses of <=3 literals "
                                    "x assumptions x solution_limit x luby_factor; quick runs a seeded slice")
    ctx.exhaustive = not ctx.quick
    return cases

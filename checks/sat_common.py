"""Shared bounded back end for C01 / C02: generators, oracle, contract evaluation for solve_sat."""
from __future__ import annotations

import itertools
import random
import signal

from vf.core import use_repo


class Hang(Exception):
    pass


def _alarm(signum, frame):
    raise Hang()


# ------------------------------------------------------------------ oracle
def brute_models(clauses, assumptions, n_vars):
    """all total assignments over 1..n_vars satisfying clauses + assumptions (n_vars <= 14)"""
    out = []
    for bits in range(1 << n_vars):
        ok = True
        for a in assumptions:
            if ((bits >> (abs(a) - 1)) & 1) != (1 if a > 0 else 0):
                ok = False
                break
        if not ok:
            continue
        for c in clauses:
            sat = False
            for l in c:
                if ((bits >> (abs(l) - 1)) & 1) == (1 if l > 0 else 0):
                    sat = True
                    break
            if not sat:
                ok = False
                break
        if ok:
            out.append(bits)
    return out


def has_model(clauses, assumptions, z3_timeout_ms=None):
    """True / False; None when z3 gives up within z3_timeout_ms (only possible when a timeout is given)"""
    n = max([abs(l) for c in clauses for l in c] + [abs(a) for a in assumptions] + [0])
    if n <= 14:
        # early exit search
        for bits in range(1 << n):
            if all(((bits >> (abs(a) - 1)) & 1) == (1 if a > 0 else 0) for a in assumptions) and all(
                    any(((bits >> (abs(l) - 1)) & 1) == (1 if l > 0 else 0) for l in c) for c in clauses):
                return True
        return False
    import z3  # trusted for larger instances
    s = z3.Solver()
    if z3_timeout_ms:
        s.set("timeout", int(z3_timeout_ms))
    bs = {}

    def b(v):
        if v not in bs:
            bs[v] = z3.Bool(f"x{v}")
        return bs[v]

    for c in clauses:
        s.add(z3.Or(*[b(abs(l)) if l > 0 else z3.Not(b(abs(l))) for l in c]) if c else z3.BoolVal(False))
    for a in assumptions:
        s.add(b(abs(a)) if a > 0 else z3.Not(b(abs(a))))
    r = s.check()
    if r == z3.sat:
        return True
    if r == z3.unsat:
        return False
    return None


def is_model(clauses, assumptions, s):
    """direct evaluation of the constraint semantics: a variable without a value makes a literal 'not true'"""
    return (isinstance(s, dict) and all(s.get(abs(a)) == (a > 0) for a in assumptions)
            and all(any(s.get(abs(l)) == (l > 0) for l in c) for c in clauses))


# ------------------------------------------------------------------ contract
def _short(x, n=300):
    t = str(x)
    return t if len(t) <= n else t[:n] + f"...({len(t)} chars)"


class _Guard:
    """per-call hang guard on CPU time of this process (a wall-clock alarm fires spuriously on a loaded box)"""

    def __init__(self, seconds):
        self.seconds = seconds

    def __enter__(self):
        signal.signal(signal.SIGVTALRM, _alarm)
        signal.setitimer(signal.ITIMER_VIRTUAL, self.seconds)

    def __exit__(self, *a):
        signal.setitimer(signal.ITIMER_VIRTUAL, 0)
        return False


def call_solver(clauses, assumptions, kw, timeout_s, copy=True):
    """returns (res, violations). copy=False hands the very objects over (history mode)."""
    from solvor.sat import solve_sat
    viol = []
    res = None
    try:
        with _Guard(timeout_s):
            if copy:
                res = solve_sat([list(c) for c in clauses], assumptions=list(assumptions) or None, **kw)
            else:
                res = solve_sat(clauses, assumptions=assumptions, **kw)
    except Hang:
        viol.append(("C02/solve_sat/ensures:returns-within-budget", f"no return within {timeout_s}s of CPU time (budgets {kw})"))
    except Exception as e:  # noqa
        viol.append(("C02/solve_sat/ensures:returns-a-status", f"raised {e!r}"))
    return res, viol


def judge(clauses, assumptions, case, res, witness=None, z3_timeout_ms=None):
    """the top-level contract of solve_sat on one answer. case supplies solution_limit / budget_generous / small.
    Oracle for `a model exists`: (1) a planted witness, checked here by direct evaluation; (2) any returned assignment
    that passes direct evaluation (a certificate); (3) brute force <= 14 variables; (4) z3 (with a time limit on big
    instances; when it gives up the verdict clauses are not judged and info['oracle_undecided'] is set)."""
    from solvor.types import Status
    viol = []
    status = res.status
    info = {"status": status.name, "iterations": res.iterations, "evaluations": res.evaluations}
    if status not in (Status.OPTIMAL, Status.INFEASIBLE, Status.MAX_ITER):
        viol.append(("C02/solve_sat/ensures:status-domain", f"status {status.name}"))
    sols = []
    if res.solution is not None:
        sols.append(("solution", res.solution))
    if res.solutions is not None:
        for i, s in enumerate(res.solutions):
            sols.append((f"solutions[{i}]", s))
    n_vars = max([abs(l) for c in clauses for l in c] + [0])
    # C01: every returned assignment is a model and agrees with the assumptions
    certified = False
    n_bad = 0
    for name, s in sols:
        if not isinstance(s, dict):
            viol.append(("C01/solve_sat/ensures:assignment-shape", f"{name} is {type(s).__name__}"))
            continue
        good = True
        for c in clauses:
            if not any(s.get(abs(l)) == (l > 0) for l in c):
                good = False
                n_bad += 1
                if n_bad <= 3:
                    viol.append(("C01/solve_sat/ensures:every-clause-true",
                                 f"{name}={_short(s, 160)} ({len(s)} of {n_vars} variables have a value) falsifies clause {_short(c, 120)}"))
                break
        for a in assumptions:
            if abs(a) in s and s[abs(a)] != (a > 0):
                good = False
                viol.append(("C01/solve_sat/ensures:agrees-with-assumptions", f"{name}={_short(s, 160)} contradicts assumption {a}"))
                break
            if abs(a) not in s and clauses:
                # an assumed variable absent from the model: the model does not say the assumption holds
                if abs(a) <= n_vars:
                    good = False
                    viol.append(("C01/solve_sat/ensures:agrees-with-assumptions", f"{name}={_short(s, 160)} leaves assumed variable {abs(a)} unassigned"))
                    break
        if good and clauses and is_model(clauses, assumptions, s):
            certified = True
    if res.solutions is not None:
        seen = {}
        for i, s in enumerate(res.solutions):
            key = tuple(sorted(s.items())) if isinstance(s, dict) else repr(s)
            if key in seen:
                viol.append(("C01/solve_sat/ensures:solutions-pairwise-distinct",
                             f"solutions[{i}] == solutions[{seen[key]}] == {_short(s, 160)} ({len(res.solutions)} entries, "
                             f"{len({tuple(sorted(t.items())) if isinstance(t, dict) else repr(t) for t in res.solutions})} distinct)"))
                break
            seen[key] = i
        if case.get("solution_limit") and len(res.solutions) > case["solution_limit"]:
            viol.append(("C01/solve_sat/ensures:solutions-pairwise-distinct", f"{len(res.solutions)} solutions for limit {case['solution_limit']}"))
        if case.get("n_models") is not None and len(res.solutions) > case["n_models"]:
            viol.append(("C01/solve_sat/ensures:solutions-pairwise-distinct",
                         f"{len(res.solutions)} solutions returned, the formula has {case['n_models']} models (counted by construction / brute force)"))
    # enumeration with a known model count: OPTIMAL with fewer than min(solution_limit, count) solutions claims that the
    # formula + the returned models has no further model although one exists (the verdict side of the enumeration: C02)
    if (case.get("n_models") is not None and case.get("solution_limit", 1) > 1 and status == Status.OPTIMAL
            and n_bad == 0 and res.solutions is not None and len(set(map(repr, res.solutions))) == len(res.solutions)):
        want = min(case["solution_limit"], case["n_models"])
        if len(res.solutions) < want:
            viol.append(("C02/solve_sat/ensures:enumeration-stops-only-when-exhausted",
                         f"OPTIMAL with {len(res.solutions)} pairwise distinct models for solution_limit {case['solution_limit']}; the formula "
                         f"has {case['n_models']} models (counted by construction / brute force): a model different from every "
                         "returned one exists and no budget is exhausted"))
    # oracle: does a model exist?
    if not clauses:
        sat = True
    elif witness is not None:
        wd = {abs(l): l > 0 for l in witness}
        if not is_model(clauses, assumptions, wd):
            raise AssertionError("checker defect: the planted witness is not a model of the generated formula")
        sat = True
        info["oracle"] = "planted-witness"
    elif certified:
        sat = True
        info["oracle"] = "returned-model-evaluated"
    else:
        sat = has_model(clauses, assumptions, z3_timeout_ms)
        info["oracle"] = "brute-force" if n_vars <= 14 else "z3"
        if sat is None:
            info["oracle_undecided"] = True
    # C02: verdicts
    if status == Status.INFEASIBLE and sat is True:
        viol.append(("C02/solve_sat/ensures:INFEASIBLE-only-if-no-model",
                     "INFEASIBLE but a model exists" + (" (planted witness, checked by direct evaluation)" if witness is not None else "")))
    if status == Status.INFEASIBLE and res.solution is not None:
        viol.append(("C02/solve_sat/ensures:INFEASIBLE-only-if-no-model", "INFEASIBLE with a solution attached"))
    if status == Status.OPTIMAL and res.solution is None:
        viol.append(("C02/solve_sat/ensures:model-whenever-one-exists", "OPTIMAL without a solution"))
    if status == Status.OPTIMAL and sat is False:
        viol.append(("C02/solve_sat/ensures:no-model-for-unsat", "OPTIMAL on an unsatisfiable formula"))
    if sat is True and status != Status.OPTIMAL and case.get("budget_generous", True):
        viol.append(("C02/solve_sat/ensures:model-whenever-one-exists",
                     f"a model exists, budgets are not exhausted (generous), status {status.name}"))
    if sat is False and status == Status.MAX_ITER and case.get("budget_generous", True) and case.get("small", True):
        viol.append(("C02/solve_sat/ensures:returns-within-budget", "MAX_ITER on a tiny unsatisfiable formula with default budgets"))
    info["sat"] = sat
    info["n_solutions"] = len(res.solutions) if res.solutions is not None else (1 if res.solution is not None else 0)
    return viol, info


def solver_kw(case):
    kw = {}
    for k in ("solution_limit", "luby_factor", "max_conflicts", "max_restarts"):
        if case.get(k) is not None:
            kw[k] = case[k]
    return kw


def evaluate(case, timeout_s=6):
    """case = dict(clauses | gen, assumptions, solution_limit, luby_factor, max_conflicts, max_restarts) or a history case
    returns (violations: list[(obligation, detail)], info)"""
    use_repo()
    if "history" in case:
        return evaluate_history(case)
    case = materialize(case)
    clauses = [list(c) for c in case["clauses"]]
    assumptions = list(case.get("assumptions") or [])
    kw = solver_kw(case)
    res, viol = call_solver(clauses, assumptions, kw, timeout_s)
    if res is None:
        return viol, {"hang": True} if viol and "within" in viol[0][0] else {"raised": True}
    v2, info = judge(clauses, assumptions, case, res, witness=case.get("witness"), z3_timeout_ms=case.get("z3_timeout_ms"))
    return viol + v2, info


def eval_chunk(cases):
    out = []
    for c in cases:
        v, info = evaluate(c, c.get("timeout_s", 6))
        if "gen" in c and v:
            c = materialize(c)  # a violation carries the concrete formula (and the planted witness)
        out.append((c, v, info))
    return out


# ------------------------------------------------------------------ generators
def literal_sets(n_vars, max_len):
    lits = [l for v in range(1, n_vars + 1) for l in (v, -v)]
    out = []
    for k in range(1, max_len + 1):
        for comb in itertools.combinations(lits, k):
            out.append(list(comb))
    return out


def exhaustive_small(n_vars=3, max_clauses=3, max_len=3):
    sets = literal_sets(n_vars, max_len)
    for k in range(1, max_clauses + 1):
        for comb in itertools.combinations(range(len(sets)), k):
            yield [sets[i] for i in comb]


def configs_for(clauses, rng, full=False):
    n = max(abs(l) for c in clauses for l in c)
    assum_opts = [[]] + [[l] for v in range(1, n + 1) for l in (v, -v)]
    if full:
        assum_opts.append([1, -1])
    for assumptions in assum_opts:
        for sl in (1, 2, 100):
            for lf in (1, 100):
                yield {"clauses": clauses, "assumptions": assumptions, "solution_limit": sl, "luby_factor": lf}


def random_cnf(rng, n_vars, n_clauses, lens=(1, 2, 3), dup=0.05, taut=0.03):
    cs = []
    for _ in range(n_clauses):
        k = rng.choice(lens)
        vs = [rng.randint(1, n_vars) for _ in range(k)]
        c = [v if rng.random() < 0.5 else -v for v in vs]
        if rng.random() < dup and c:
            c.append(c[0])
        if rng.random() < taut and c:
            c.append(-c[0])
        cs.append(c)
    return cs


def pigeonhole(p, h):
    """p pigeons in h holes: var(i,j) = i*h + j + 1"""
    cs = []
    for i in range(p):
        cs.append([i * h + j + 1 for j in range(h)])
    for j in range(h):
        for a in range(p):
            for b in range(a + 1, p):
                cs.append([-(a * h + j + 1), -(b * h + j + 1)])
    return cs


def parity_chain(n, odd_total):
    """x1 xor x2 xor ... xor xn = odd_total, and again with the opposite parity -> unsat when both added"""
    cs = []
    for bits in range(1 << n):
        ones = bin(bits).count("1")
        if (ones % 2 == 1) != odd_total:
            cs.append([(i + 1) if not (bits >> i) & 1 else -(i + 1) for i in range(n)])
    return cs


def cumulative_unsat():
    """three length-3 tasks in a 0..5 window under unit capacity: start s in 0..3 for each task (12 start vars)
    plus 6 helper vars = 18 variables; pairwise non-overlap makes it unsatisfiable"""
    cs = []
    T = 3

    def sv(t, s):
        return t * 4 + s + 1

    for t in range(T):
        cs.append([sv(t, s) for s in range(4)])
        for a in range(4):
            for b in range(a + 1, 4):
                cs.append([-sv(t, a), -sv(t, b)])
    for t1 in range(T):
        for t2 in range(t1 + 1, T):
            for s1 in range(4):
                for s2 in range(4):
                    if s1 < s2 + 3 and s2 < s1 + 3:
                        cs.append([-sv(t1, s1), -sv(t2, s2)])
    # helper vars 13..18: occupancy of each time slot, implied by starts
    for tm in range(6):
        occ = 13 + tm
        for t in range(T):
            for s in range(4):
                if s <= tm < s + 3:
                    cs.append([-sv(t, s), occ])
    return cs


def guarded_php(p, closing):
    """PHP(p, p-1) guarded by -g, plus a two-variable gadget that is only decided when g is false: runs of
    several thousand conflicts (activity rescaling, many restarts, reduce_db) whose model must still be total"""
    h = p - 1
    g = 1
    x = lambda i, j: 2 + i * h + j
    cl = [[-g] + [x(i, j) for j in range(h)] for i in range(p)]
    for j in range(h):
        for i1 in range(p):
            for i2 in range(i1 + 1, p):
                cl.append([-g, -x(i1, j), -x(i2, j)])
    a = 2 + p * h
    b = a + 1
    cl += [[-g, -a], [a, b], [-a, -b], [-a, b], [g, a, b]]
    if closing:
        cl.append([a, -b, g])
    return cl


ROUND2_RULE = (
    "size ladder: recipes (implication chains hanging on one decision, clauses of N+1 literals with cascading back-jumps and "
    "their random relatives, hidden-model 2-/3-SAT, xor chains, ladder- and order-encoded CSPs / schedules) at 10..2500 variables "
    "in several variable numberings / polarities / random renamings x {default, luby_factor=1, solution_limit=3, assumptions "
    "taken from the witness}, with unsatisfiable siblings certified by z3; long runs: hidden-model 3-SAT of 180-300 variables at "
    "ratio 4.0-4.2 capped at 14000 (quick) / 40000 conflicts; enumerations of 2500-20000 models; budget ladder: every "
    "max_conflicts 0..K x max_restarts on formulas needing tens of conflicts; history mode: one clause-list and one "
    "assumption-list object reused over a sequence of calls with in-place edits between calls (block last model, append / "
    "pop clause, overwrite literal, flip / swap variables, refill with another formula, change assumptions, starve budgets), "
    "each answer judged against brute force on the input as it is at that call, and compared with the answer of a process "
    "without call history (forked per call; a sample in newly started interpreters); ")

ROUND3_RULE = (
    "enumeration structure: formulas glued from variable-disjoint parts (free variables; late-implied backbone gadgets "
    "(h or y)(h or not y), four-clause ternary gadgets, implication chains, shared helpers, backbone pairs; equivalence classes, "
    "at-most-one / exactly-one groups; small random cores) with 2049..20000 models, the count known by construction (product of "
    "per-part brute-force counts), each under the numberings identity / reversed / backbone-first / backbone-last / grouped / "
    "grouped-reversed / aux-first / interleaved / random permutations x polarity flips (none, all, backbone only, random) x "
    "luby_factor 1..100 x clause / literal shuffles, all models requested (or a limit below the count, or one free variable "
    "assumed): exactly min(solution_limit, count) solutions, pairwise distinct, each satisfying every clause; ")

# ------------------------------------------------------------------ round 2: size ladder with certifying oracles
# Every generator returns (clauses, witness, expect): witness = list of signed literals (a total planted model) or None;
# expect = "sat" (witness given), "unsat" (by construction; certified by z3 at evaluation time, never trusted) or None.
# Cases carry only the recipe {"gen": [name, params]} (cheap to ship to the workers); materialize() builds the formula.
GENERATORS = {}


def generator(fn):
    GENERATORS[fn.__name__] = fn
    return fn


def _number(blocks):
    """blocks: list of lists of role names, in the order in which variable numbers are handed out"""
    num = {}
    for b in blocks:
        for r in b:
            num[r] = len(num) + 1
    return num


@generator
def chain(K, order="head", pol="pos", taps=(1.0,), unsat=False):
    """implication chain of K+2 literals hanging on ONE decision (d -> c1 -> ... -> cK -> v) whose far end (and optionally
    inner nodes, `taps` = positions in (0,1]) clashes with a literal e that holds in every model (failed-literal forced,
    not a unit); ordering / ladder / sequential-counter encodings produce such chains.  Model: chain false, e true.
    order = which block gets the low variable numbers (= is decided first); pol = polarity of the chain variables."""
    cs = [f"c{i}" for i in range(1, K + 1)]
    gad = ["e", "a", "q"] + [f"z{t}" for t in range(len(taps))]
    blocks = {"head": [["d"], cs, ["v"], gad], "tail": [["v"], cs[::-1], ["d"], gad],
              "gadget": [gad, ["d"], cs, ["v"]], "gadget-tail": [gad, ["v"], cs[::-1], ["d"]]}[order]
    num = _number(blocks)
    nodes = ["d"] + cs + ["v"]
    sign = {}
    for i, r in enumerate(nodes):
        sign[r] = 1 if pol == "pos" else -1 if pol == "neg" else (1 if i % 2 == 0 else -1)

    def L(r, positive=True):  # literal "role r is on"
        sg = sign.get(r, 1) * (1 if positive else -1)
        return sg * num[r]

    cl = [[L(nodes[i], False), L(nodes[i + 1])] for i in range(len(nodes) - 1)]
    e, a, q = num["e"], num["a"], num["q"]
    for t, frac in enumerate(taps):
        u = nodes[max(1, min(len(nodes) - 1, int(round(frac * (len(nodes) - 1)))))]
        z = num[f"z{t}"]
        cl += [[-e, L(u, False), z], [-e, L(u, False), -z]]
    cl += [[e, a], [e, -a], [L("d"), q]]
    if unsat:
        cl.append([L("d")])
        return cl, None, "unsat"
    wit = [L(r, False) for r in nodes] + [e, a, q] + [num[f"z{t}"] for t in range(len(taps))]
    return cl, wit, "sat"


@generator
def wide(N, order="asc", pol="pos", unsat=False, depth=1):
    """clauses of N+1 literals ("not all of x1..xN", twice, split on y) + `depth` further conflicts waiting on the levels the
    solver jumps back to (x_(j-1) -> x_j for the last `depth` indices, each split on an auxiliary variable) + x_(N-depth)
    forced by a failed literal; the learned clauses have N, N-1, ... literals.  Model: x1 false, the rest true.
    Big at-least-one / cardinality constraints produce such clauses."""
    xs = [f"x{i}" for i in range(1, N + 1)]
    aux = ["y", "a"] + [f"z{j}" for j in range(depth)]
    blocks = {"asc": [xs, aux], "desc": [xs[::-1], aux], "aux-first": [aux, xs], "last-two-first": [xs[-2:], xs[:-2], aux]}[order]
    num = _number(blocks)
    sg = 1 if pol == "pos" else -1
    X = lambda i: sg * num[f"x{i}"]  # noqa: E731
    y, a = num["y"], num["a"]
    cl = [[-X(i) for i in range(1, N + 1)] + [y], [-X(i) for i in range(1, N + 1)] + [-y]]
    for j in range(depth):
        z = num[f"z{j}"]
        cl += [[X(N - j), -X(N - j - 1), z], [X(N - j), -X(N - j - 1), -z]]
    cl += [[X(N - depth), a], [X(N - depth), -a]]
    cl += [[X(i), X(i + 1)] for i in range(1, N - depth)]
    if unsat:
        cl += [[X(i)] for i in range(1, N - depth)]
        return cl, None, "unsat"
    wit = [-X(1)] + [X(i) for i in range(2, N + 1)] + [y, a] + [num[f"z{j}"] for j in range(depth)]
    return cl, wit, "sat"


@generator
def wide_random(N, seed, n_wide=3, n_small=None):
    """random relative of `wide`: a few negative clauses over >= 70% of the variables (each twice, split on an auxiliary
    variable), many random 2-3 literal clauses that the all-true assignment mostly satisfies; planted model = all true
    except a few variables that hit every wide clause."""
    rng = random.Random(f"wide_random-{N}-{seed}")
    zeros = rng.sample(range(1, N + 1), rng.randint(1, 3))
    val = {v: v not in zeros for v in range(1, N + 1)}
    cl = []
    nxt = N
    for _ in range(n_wide):
        S = set(rng.sample(range(1, N + 1), rng.randint(int(0.7 * N), N)))
        S.add(rng.choice(zeros))
        body = [-v for v in sorted(S)]
        nxt += 1
        val[nxt] = True
        cl += [body + [nxt], body + [-nxt]]
    for _ in range(n_small if n_small is not None else 2 * N):
        k = rng.choice((2, 2, 3))
        while True:
            vs = rng.sample(range(1, N + 1), k)
            c = [v if rng.random() < 0.6 else -v for v in vs]
            if any(val[abs(l)] == (l > 0) for l in c):
                break
        cl.append(c)
    rng.shuffle(cl)
    return cl, [v if val[v] else -v for v in sorted(val)], "sat"


@generator
def planted_ksat(n, ratio, seed, k=3, hidden=2):
    """random k-SAT with a hidden model; hidden=2 also keeps the complement a model (not-all-equal w.r.t. the hidden
    assignment), which removes the statistical bias towards the hidden model - as hard as unplanted formulas of that ratio"""
    rng = random.Random(f"planted_ksat-{n}-{ratio}-{seed}-{k}-{hidden}")
    val = {v: rng.random() < 0.5 for v in range(1, n + 1)}
    cl = []
    while len(cl) < int(n * ratio):
        c = [rng.choice((-1, 1)) * v for v in rng.sample(range(1, n + 1), k)]
        t = sum(val[abs(l)] == (l > 0) for l in c)
        if t == 0 or (hidden == 2 and t == k):
            continue
        cl.append(c)
    return cl, [v if val[v] else -v for v in range(1, n + 1)], "sat"


@generator
def random_ksat(n, ratio, seed, k=3):
    """unplanted random k-SAT; oracle = the returned model itself, or z3 (time-limited) for an INFEASIBLE claim"""
    rng = random.Random(f"random_ksat-{n}-{ratio}-{seed}-{k}")
    cl = [[rng.choice((-1, 1)) * v for v in rng.sample(range(1, n + 1), k)] for _ in range(int(n * ratio))]
    return cl, None, None


@generator
def planted_2sat(n, ratio, seed):
    """random 2-SAT with a hidden model: long binary-implication chains on one decision level, learned units"""
    rng = random.Random(f"planted_2sat-{n}-{ratio}-{seed}")
    val = {v: rng.random() < 0.5 for v in range(1, n + 1)}
    cl = []
    while len(cl) < int(n * ratio):
        c = [rng.choice((-1, 1)) * v for v in rng.sample(range(1, n + 1), 2)]
        if any(val[abs(l)] == (l > 0) for l in c):
            cl.append(c)
    return cl, [v if val[v] else -v for v in range(1, n + 1)], "sat"


@generator
def xor_chain(n, seed, unsat=False):
    """x1 xor ... xor xn = b through Tseitin variables t_i = t_(i-1) xor x_i (4 ternary clauses each); 2n variables, random
    numbering; b = the parity of a planted input.  unsat sibling: both parities demanded of the last Tseitin variable"""
    rng = random.Random(f"xor_chain-{n}-{seed}")
    val = {i: rng.random() < 0.5 for i in range(1, n + 1)}
    order = list(range(1, 2 * n))
    rng.shuffle(order)
    x = {i: order[i - 1] for i in range(1, n + 1)}
    t = {i: order[n + i - 2] for i in range(2, n + 1)}
    cl = []
    model = {x[i]: val[i] for i in val}
    prev, pv = x[1], val[1]
    for i in range(2, n + 1):
        a, b, c = prev, x[i], t[i]
        cl += [[-a, -b, -c], [a, b, -c], [a, -b, c], [-a, b, c]]
        pv = pv != val[i]
        model[c] = pv
        prev = c
    if unsat:
        h = 2 * n
        cl += [[prev, h], [prev, -h], [-prev, h], [-prev, -h]]
        return cl, None, "unsat"
    h = 2 * n  # the demanded parity, stated through a split on h instead of a unit clause
    P = prev if pv else -prev
    cl += [[P, h], [P, -h]]
    model[h] = True
    return cl, [v if model[v] else -v for v in sorted(model)], "sat"


@generator
def ladder_csp(P, N, seed, density=0.02):
    """P integer variables over N values, each `exactly one` through a sequential-counter ladder (s_j = some value <= j
    chosen; chains of N implied literals per decision), pairwise different, plus random forbidden value pairs that spare the
    planted solution"""
    rng = random.Random(f"ladder_csp-{P}-{N}-{seed}")
    X = lambda g, j: g * 2 * N + j + 1  # noqa: E731
    S = lambda g, j: g * 2 * N + N + j + 1  # noqa: E731
    plant = rng.sample(range(N), P)
    cl = []
    for g in range(P):
        cl.append([X(g, j) for j in range(N)])
        for j in range(N):
            cl.append([-X(g, j), S(g, j)])
            if j:
                cl.append([-S(g, j - 1), S(g, j)])
                cl.append([-X(g, j), -S(g, j - 1)])
    for g in range(P):
        for h in range(g + 1, P):
            for j in range(N):
                cl.append([-X(g, j), -X(h, j)])
            for _ in range(int(density * N * N)):
                a, b = rng.randrange(N), rng.randrange(N)
                if (a, b) != (plant[g], plant[h]):
                    cl.append([-X(g, a), -X(h, b)])
    wit = []
    for g in range(P):
        for j in range(N):
            wit.append(X(g, j) if j == plant[g] else -X(g, j))
            wit.append(S(g, j) if j >= plant[g] else -S(g, j))
    return cl, wit, "sat"


@generator
def order_sched(J, H, seed, slack=0):
    """J tasks on one machine inside a horizon H, start times in the order encoding (o[j,t] = `s_j >= t`, ladders of up to H
    implied literals per decision), one selector per pair of tasks (j before k, or k before j: ternary clauses over the
    ladders); planted schedule = a random order packed left to right; slack 0 leaves no idle time"""
    rng = random.Random(f"order_sched-{J}-{H}-{seed}")
    cuts = sorted(rng.sample(range(1, H - slack), J - 1))
    bounds = [0] + cuts + [H - slack]
    perm = list(range(J))
    rng.shuffle(perm)
    start, dur = {}, {}
    for pos, j in enumerate(perm):
        start[j], dur[j] = bounds[pos], bounds[pos + 1] - bounds[pos]
    nv = 0
    O = {}
    for j in range(J):
        for t in range(1, H - dur[j] + 1):
            nv += 1
            O[j, t] = nv

    def ge(j, t):  # the literal `s_j >= t`, or a constant
        if t <= 0:
            return True
        if t > H - dur[j]:
            return False
        return O[j, t]

    cl = []
    for j in range(J):
        for t in range(2, H - dur[j] + 1):
            cl.append([-O[j, t], O[j, t - 1]])
    wit = {v: start[j] >= t for (j, t), v in O.items()}

    def before(b, j, k):  # b -> s_k >= s_j + dur_j, i.e. for all t: s_j >= t -> s_k >= t + dur_j
        for t in range(0, H - dur[j] + 1):
            a, c = ge(j, t), ge(k, t + dur[j])
            if c is True or a is False:
                continue
            cl.append([b] + ([-a] if a is not True else []) + ([c] if c is not False else []))

    for j in range(J):
        for k in range(j + 1, J):
            nv += 1
            before(-nv, j, k)
            before(nv, k, j)
            wit[nv] = start[j] < start[k]
    return cl, [v if wit[v] else -v for v in sorted(wit)], "sat"


@generator
def free_vars(k, extra=0, seed=0):
    """k unconstrained variables (tautological ternary clauses) -> exactly 2^k models; `extra` random ternary clauses on top
    (then the model count comes from brute force)"""
    rng = random.Random(f"free_vars-{k}-{extra}-{seed}")
    cl = [[i, -i, i % k + 1] for i in range(1, k + 1)]
    cl += [[rng.choice((-1, 1)) * v for v in rng.sample(range(1, k + 1), 3)] for _ in range(extra)]
    return cl, None, None


@generator
def loose_ksat(n, ratio, seed, k=3):
    """under-constrained planted random k-SAT (ratio 1.5-3): astronomically many models, enumeration by the thousand"""
    return planted_ksat(n, ratio, f"loose-{seed}", k=k, hidden=1)


# ------------------------------------------------------------------ round 3: enumeration-structure family
# Formulas whose exact model count is known by construction: variable-disjoint parts, the count of each part by brute
# force over the part's own (<= 12) variables and cross-checked against its closed form, the count of the formula = the
# product.  Every formula is presented under many variable numberings / polarities (the solver decides low numbers
# first, value True first; the literal order inside blocking / learned clauses follows the numbering).
# Variable classes: "free" (unconstrained), "bb" (backbone: same value in every model, but implied only after resolution -
# no unit clause, no unit propagation from the empty assignment says so), "aux" (the helper variables of a backbone
# gadget), "grp" (equivalence classes / at-most-one / exactly-one groups), "core" (small random cores).
ENUM_NUMBERINGS = ("identity", "reversed", "backbone-first", "backbone-last", "grouped", "grouped-reversed", "aux-first",
                   "interleaved")


def _enum_part(part):
    """one part over local variables 1..n: (clauses, classes[1..n] as a list, closed-form model count or None)"""
    kind = part[0]
    if kind == "free":  # k unconstrained variables, mentioned in tautologies only
        k, style = part[1], (part[2] if len(part) > 2 else "taut2")
        cl = [[v, -v] if style == "taut2" else [v, -v, v % k + 1] for v in range(1, k + 1)]
        return cl, ["free"] * k, 2 ** k
    if kind == "bb":  # m gadgets (h or y), (h or not y): h true in every model, found out only through a conflict
        m, cl, cls = part[1], [], []
        for i in range(m):
            h, y = 2 * i + 1, 2 * i + 2
            cl += [[h, y], [h, -y]]
            cls += ["bb", "aux"]
        return cl, cls, 2 ** m
    if kind == "bb3":  # m gadgets: h or every sign pattern of (y, z) - four ternary clauses
        m, cl, cls = part[1], [], []
        for i in range(m):
            h, y, z = 3 * i + 1, 3 * i + 2, 3 * i + 3
            cl += [[h, y, z], [h, y, -z], [h, -y, z], [h, -y, -z]]
            cls += ["bb", "aux", "aux"]
        return cl, cls, 4 ** m
    if kind == "bbchain":  # not h -> y1 -> y2 -> ... -> yL and not h -> not yL: h true; the y are a monotone chain
        L = part[1]
        h = 1
        ys = list(range(2, L + 2))
        cl = [[h, ys[0]]] + [[-ys[i], ys[i + 1]] for i in range(L - 1)] + [[h, -ys[-1]]]
        return cl, ["bb"] + ["aux"] * L, L + 1
    if kind == "bbshared":  # m backbone variables that share one helper
        m = part[1]
        y = m + 1
        cl = [c for h in range(1, m + 1) for c in ([h, y], [h, -y])]
        return cl, ["bb"] * m + ["aux"], 2
    if kind == "bbpair":  # two backbone variables implied through each other: (h1 or y), (h1 or not y), (not h1 or h2)
        cl = [[1, 3], [1, -3], [-1, 2]]
        return cl, ["bb", "bb", "aux"], 2
    if kind == "eq":  # x1 <-> x2 <-> ... <-> xs (a cycle of implications)
        s = part[1]
        return [[-v, v % s + 1] for v in range(1, s + 1)], ["grp"] * s, 2
    if kind == "amo":  # at most one of g
        g = part[1]
        return [[-a, -b] for a in range(1, g + 1) for b in range(a + 1, g + 1)], ["grp"] * g, g + 1
    if kind == "exo":  # exactly one of g
        g = part[1]
        return [list(range(1, g + 1))] + [[-a, -b] for a in range(1, g + 1) for b in range(a + 1, g + 1)], ["grp"] * g, g
    if kind == "core":  # random clauses of 2-3 literals over n <= 10 variables, reseeded until satisfiable; count by brute force
        n, m, seed = part[1], part[2], part[3]
        for t in range(50):
            rng = random.Random(f"enum-core-{n}-{m}-{seed}-{t}")
            cl = [[rng.choice((-1, 1)) * v for v in rng.sample(range(1, n + 1), rng.choice((2, 3, 3)))] for _ in range(m)]
            cl += [[v, -v] for v in range(1, n + 1) if not any(abs(l) == v for c in cl for l in c)]
            if has_model(cl, []):
                return cl, ["core"] * n, None
        raise AssertionError("checker defect: no satisfiable core found")
    raise AssertionError(f"checker defect: unknown part {kind}")


_PART_COUNT = {}


def enum_part_count(part):
    """model count of one part: brute force over its own variables, cross-checked against the closed form"""
    key = repr(part)
    if key not in _PART_COUNT:
        cl, cls, closed = _enum_part(part)
        if len(cls) > 12:
            raise AssertionError("checker defect: part too large for the brute-force count")
        n = len(brute_models(cl, [], len(cls)))
        if closed is not None and closed != n:
            raise AssertionError(f"checker defect: closed-form count {closed} of part {part} differs from brute force {n}")
        _PART_COUNT[key] = n
    return _PART_COUNT[key]


def enum_struct_count(parts):
    n = 1
    for p in parts:
        n *= enum_part_count(p)
    return n


def _enum_order(classes, numbering):
    """classes[i] = class of the i-th variable in creation order; returns the creation indices in numbering order"""
    idx = list(range(len(classes)))
    by = lambda *names: [i for nm in names for i in idx if classes[i] == nm]  # noqa: E731
    rest = lambda *names: [i for i in idx if classes[i] not in names]  # noqa: E731
    if numbering == "identity":
        return idx
    if numbering == "reversed":
        return idx[::-1]
    if numbering == "backbone-first":
        return by("bb") + rest("bb")
    if numbering == "backbone-last":
        return rest("bb") + by("bb")
    if numbering == "grouped":  # free, groups, cores, then the backbone, then its helpers
        return by("free", "grp", "core", "bb", "aux")
    if numbering == "grouped-reversed":
        return by("free", "grp", "core", "bb", "aux")[::-1]
    if numbering == "aux-first":
        return by("aux") + rest("aux", "bb") + by("bb")
    if numbering == "interleaved":  # round robin over the classes
        qs = [q for q in (by("bb"), by("free"), by("aux"), by("grp"), by("core")) if q]
        out = []
        while any(qs):
            for q in qs:
                if q:
                    out.append(q.pop(0))
        return out
    if isinstance(numbering, str) and numbering.startswith("perm"):
        out = list(idx)
        random.Random(f"enum-{numbering}").shuffle(out)
        return out
    raise AssertionError(f"checker defect: unknown numbering {numbering}")


@generator
def enum_struct(parts, numbering="identity", polarity="pos", shuffle=None):
    """variable-disjoint parts (see _enum_part) glued together; numbering = which variables get the low numbers;
    polarity: "pos" as built (backbone true), "neg" every variable flipped, "bbneg" only the backbone flipped,
    "rand<seed>" random flips; shuffle = seed for the order of the clauses and of the literals inside them"""
    cl, classes = [], []
    for p in parts:
        pcl, pcls, _ = _enum_part(p)
        off = len(classes)
        cl += [[(abs(l) + off) * (1 if l > 0 else -1) for l in c] for c in pcl]  # creation index + 1
        classes += pcls
    order = _enum_order(classes, numbering)
    if sorted(order) != list(range(len(classes))):
        raise AssertionError("checker defect: numbering is not a permutation")
    num = {ci + 1: pos + 1 for pos, ci in enumerate(order)}
    if polarity == "pos":
        sg = {v: 1 for v in num}
    elif polarity == "neg":
        sg = {v: -1 for v in num}
    elif polarity == "bbneg":
        sg = {v: (-1 if classes[v - 1] == "bb" else 1) for v in num}
    elif polarity.startswith("rand"):
        r = random.Random(f"enum-pol-{polarity}")
        sg = {v: r.choice((1, -1)) for v in sorted(num)}
    else:
        raise AssertionError(f"checker defect: unknown polarity {polarity}")
    out = [[num[abs(l)] * sg[abs(l)] * (1 if l > 0 else -1) for l in c] for c in cl]
    if shuffle is not None:
        r = random.Random(f"enum-shuffle-{shuffle}")
        for c in out:
            r.shuffle(c)
        r.shuffle(out)
    return out, None, None


def rename(clauses, witness, seed):
    """random renumbering of the variables + random polarity flips + clause / literal shuffles (preserves satisfiability;
    the witness is mapped along).  The solver decides low numbers first, value True first, so this changes the search."""
    rng = random.Random(f"rename-{seed}")
    n = max([abs(l) for c in clauses for l in c] + [0])
    perm = list(range(1, n + 1))
    rng.shuffle(perm)
    flip = [1] + [rng.choice((1, -1)) for _ in range(n)]
    m = lambda l: perm[abs(l) - 1] * flip[abs(l)] * (1 if l > 0 else -1)  # noqa: E731
    out = [[m(l) for l in c] for c in clauses]
    for c in out:
        rng.shuffle(c)
    rng.shuffle(out)
    return out, ([m(l) for l in witness] if witness is not None else None)


def materialize(case):
    if "clauses" in case:
        return case
    name, params = case["gen"]
    clauses, witness, expect = GENERATORS[name](**params)
    if case.get("rename") is not None:
        clauses, witness = rename(clauses, witness, case["rename"])
    c = dict(case)
    c["clauses"] = clauses
    if witness is not None:
        c["witness"] = witness
    c["expect"] = expect
    k = case.get("assume_from_witness")
    if k:
        if witness is None:
            raise AssertionError("checker defect: assume_from_witness without a witness")
        rng = random.Random(f"assume-{case['gen']}-{k}")
        c["assumptions"] = rng.sample(witness, min(k, len(witness)))
    return c


def count_models(clauses, n_vars):
    return len(brute_models(clauses, [], n_vars))


# ------------------------------------------------------------------ round 2: history mode
def _res_digest(res):
    def canon(s):
        return sorted(s.items()) if isinstance(s, dict) else repr(s)
    return [res.status.name, canon(res.solution) if res.solution is not None else None,
            [canon(s) for s in res.solutions] if res.solutions is not None else None]


def apply_edit(cl, assum, edit, last_model):
    """in-place edits of the caller's objects between two calls (the list objects keep their identity)"""
    op = edit[0]
    if op == "none":
        pass
    elif op == "append_clause":
        cl.append(list(edit[1]))
    elif op == "pop_clause":
        if len(cl) > 1:
            cl.pop()
    elif op == "block_last_model":
        if last_model:
            cl.append([(-v if val else v) for v, val in sorted(last_model.items())])
    elif op == "set_assumptions":
        assum[:] = list(edit[1])
    elif op == "reverse":
        cl.reverse()
        for c in cl:
            c.reverse()
    elif op == "flip_var":  # relabel: x_v <-> not x_v everywhere, in place
        v = edit[1]
        for c in cl:
            for i, l in enumerate(c):
                if abs(l) == v:
                    c[i] = -l
        for i, l in enumerate(assum):
            if abs(l) == v:
                assum[i] = -l
    elif op == "swap_vars":  # relabel: exchange the names of two variables, in place
        a, b = edit[1], edit[2]
        sw = {a: b, b: a}
        for c in cl:
            for i, l in enumerate(c):
                if abs(l) in sw:
                    c[i] = sw[abs(l)] * (1 if l > 0 else -1)
        for i, l in enumerate(assum):
            if abs(l) in sw:
                assum[i] = sw[abs(l)] * (1 if l > 0 else -1)
    elif op == "edit_literal":  # overwrite one literal of one clause
        ci, li, lit = edit[1], edit[2], edit[3]
        if cl and cl[ci % len(cl)]:
            c = cl[ci % len(cl)]
            c[li % len(c)] = lit
    elif op == "replace_all":  # same outer list object, completely different formula
        cl[:] = [list(c) for c in edit[1]]
    else:
        raise AssertionError(f"checker defect: unknown edit {op}")


def evaluate_history(case):
    """one process, one clause-list object and one assumption-list object reused over a sequence of calls with in-place
    edits in between; every answer judged against the oracle for the input as it is at that call.
    returns (violations, info); info['fresh'] lists (input snapshot, options, digest) of every call for the comparison with
    a fresh process."""
    h = case["history"]
    cl = [list(c) for c in h["clauses0"]]
    assum = list(h.get("assumptions0") or [])
    viol = []
    fresh = []
    last_model = None
    info = {"iterations": 0, "n_solutions": 0, "calls": 0}
    for si, step in enumerate(h["steps"]):
        apply_edit(cl, assum, step.get("edit", ["none"]), last_model)
        opts = dict(step.get("opts") or {})
        snap = [list(c) for c in cl]
        asnap = list(assum)
        res, v = call_solver(cl, assum, solver_kw(opts), case.get("timeout_s", 20), copy=False)
        info["calls"] += 1
        tag = f"[history step {si}: {step.get('edit', ['none'])[0]}] "
        if res is None:
            viol += [(o, tag + d) for o, d in v]
            break
        # the input as it is at that call: the snapshot taken just before it
        v2, inf = judge(snap, asnap, {"solution_limit": opts.get("solution_limit"),
                                      "budget_generous": step.get("generous", True), "small": True}, res)
        viol += [(o, tag + d) for o, d in v + v2]
        info["iterations"] = max(info["iterations"], inf.get("iterations", 0))
        info["n_solutions"] = max(info["n_solutions"], inf.get("n_solutions", 0))
        last_model = res.solution if isinstance(res.solution, dict) else None
        fresh.append({"clauses": snap, "assumptions": asnap, "opts": opts, "digest": _res_digest(res), "step": si})
        if viol:
            break
    info["fresh"] = fresh
    info["status"] = "history"
    return viol, info


def fresh_call(item):
    """one call in a process without call history: a child forked for this call alone from a pool worker that never calls
    the solver itself (module state = import-time state), or a newly started interpreter (fresh_subprocess)"""
    use_repo()
    res, v = call_solver([list(c) for c in item["clauses"]], list(item["assumptions"]), solver_kw(item["opts"]), 60)
    return _res_digest(res) if res is not None else ["no-result", repr(v), None]


FRESH_SCRIPT = r"""
import json, sys
sys.path.insert(0, sys.argv[1]); sys.path.insert(0, sys.argv[2])
item = json.load(sys.stdin)
from checks import sat_common
print(json.dumps(sat_common.fresh_call(item)))
"""


def fresh_subprocess(item):
    """a really fresh interpreter (sampled: costs an import of the whole package per call)"""
    import json
    import os
    import subprocess
    import sys
    from vf import core
    out = subprocess.run([sys.executable, "-c", FRESH_SCRIPT, core.REPO, core.VERIF], input=json.dumps(item), text=True,
                         capture_output=True, timeout=300, env=dict(os.environ, VERIF_REPO=core.REPO))
    if out.returncode != 0:
        raise AssertionError("checker defect: fresh subprocess failed: " + out.stderr[-400:])
    return json.loads(out.stdout.strip().splitlines()[-1])


def fresh_call_forked(item):
    """fork a child for this one call (the pool worker itself never calls the solver, so the child has no call history)
    and read its answer from a pipe"""
    import json
    import os
    use_repo()
    import solvor.sat  # noqa: F401  imported (not called) in the worker, so that the child does not pay for the import
    r, w = os.pipe()
    pid = os.fork()
    if pid == 0:
        code = 0
        try:
            os.close(r)
            with os.fdopen(w, "w") as f:
                f.write(json.dumps(fresh_call(item)))
        except BaseException:  # noqa
            code = 1
        finally:
            os._exit(code)
    os.close(w)
    with os.fdopen(r) as f:
        data = f.read()
    os.waitpid(pid, 0)
    if not data:
        raise AssertionError("checker defect: forked fresh call produced no answer")
    return json.loads(data)


def compare_fresh(items, n_subprocess):
    """items: list of (history case, fresh item). returns list of (case, obligation, detail)"""
    import json
    from vf.pool import pmap
    if not items:
        return []
    got = pmap(fresh_call_forked, [it for _, it in items], chunksize=8)
    step = max(1, len(items) // max(1, n_subprocess))
    sub_idx = list(range(0, len(items), step))[:n_subprocess]
    sub = pmap(fresh_subprocess, [items[i][1] for i in sub_idx], chunksize=1)
    out = []
    for (case, it), g in list(zip(items, got)) + [(items[i], g) for i, g in zip(sub_idx, sub)]:
        want = json.loads(json.dumps(it["digest"]))
        g = json.loads(json.dumps(g))
        if g != want:
            ob = ("C02/solve_sat/history:same-status-as-fresh-process" if g[0] != want[0]
                  else "C01/solve_sat/history:same-models-as-fresh-process")
            out.append((case, ob, f"step {it['step']}: in-process answer {_short(want, 200)} differs from the answer of a fresh "
                                  f"process {_short(g, 200)} on the same input {_short(it['clauses'], 200)} assumptions {it['assumptions']} options {it['opts']}"))
    return out


def history_cases(rng, n_seq, big=False):
    """sequences of edits + calls on one reused clause list / assumption list"""
    cases = []
    for _ in range(n_seq):
        n = rng.randint(3, 9) if not big else rng.randint(10, 13)
        f = random_cnf(rng, n, max(2, int(n * rng.uniform(1.5, 4.0))), lens=rng.choice([(2, 3), (3,), (1, 2, 3, 3)]), dup=0.02, taut=0.02)
        kind = rng.choice(["enumerate", "options", "edits", "repeat", "replace"])
        steps = []
        lf = rng.choice([1, 2, 100])
        if kind == "enumerate":  # user-side enumeration: block the last model in place until INFEASIBLE
            steps.append({"edit": ["none"], "opts": {"luby_factor": lf}})
            for _ in range(rng.randint(3, 40 if not big else 80)):
                steps.append({"edit": ["block_last_model"], "opts": {"luby_factor": lf}})
            steps.append({"edit": ["pop_clause"], "opts": {"luby_factor": lf}})
            steps.append({"edit": ["none"], "opts": {"luby_factor": lf, "solution_limit": 4}})
        elif kind == "options":  # same objects, changing options / assumptions (starved budgets in between)
            for _ in range(rng.randint(4, 10)):
                r = rng.random()
                if r < 0.3:
                    a = [rng.choice([1, -1]) * rng.randint(1, n) for _ in range(rng.randint(0, 2))]
                    steps.append({"edit": ["set_assumptions", a], "opts": {"luby_factor": lf, "solution_limit": rng.choice([1, 1, 3, 50])}})
                elif r < 0.5:
                    steps.append({"edit": ["none"], "opts": {"luby_factor": 1, "max_conflicts": rng.choice([0, 1, 2]),
                                                              "max_restarts": rng.choice([0, 1, 10000])}, "generous": False})
                else:
                    steps.append({"edit": ["none"], "opts": {"luby_factor": rng.choice([1, 2, 100]),
                                                              "solution_limit": rng.choice([1, 2, 5, 100])}})
        elif kind == "edits":  # additions, removals, relabellings, literal overwrites
            steps.append({"edit": ["none"], "opts": {"luby_factor": lf}})
            for _ in range(rng.randint(4, 12)):
                r = rng.random()
                if r < 0.3:
                    k = rng.choice((1, 1, 2, 3))
                    c = [rng.choice([1, -1]) * rng.randint(1, n) for _ in range(k)]
                    e = ["append_clause", c]
                elif r < 0.4:
                    e = ["pop_clause"]
                elif r < 0.55:
                    e = ["flip_var", rng.randint(1, n)]
                elif r < 0.7:
                    a, b = rng.sample(range(1, n + 1), 2)
                    e = ["swap_vars", a, b]
                elif r < 0.85:
                    e = ["edit_literal", rng.randrange(100), rng.randrange(3), rng.choice([1, -1]) * rng.randint(1, n)]
                else:
                    e = ["reverse"]
                steps.append({"edit": e, "opts": {"luby_factor": lf, "solution_limit": rng.choice([1, 1, 1, 6])}})
        elif kind == "repeat":  # the same call again and again
            o = {"luby_factor": lf, "solution_limit": rng.choice([1, 3, 100])}
            steps = [{"edit": ["none"], "opts": dict(o)} for _ in range(3)]
        else:  # the same outer list refilled with a different formula over the same variables, and back
            g = random_cnf(rng, n, max(2, int(n * rng.uniform(2.0, 5.0))), lens=(1, 2, 3), dup=0, taut=0)
            o = {"luby_factor": lf, "solution_limit": rng.choice([1, 3])}
            steps = [{"edit": ["none"], "opts": dict(o)}, {"edit": ["replace_all", g], "opts": dict(o)},
                     {"edit": ["replace_all", f], "opts": dict(o)}, {"edit": ["replace_all", g], "opts": dict(o)}]
        a0 = [rng.choice([1, -1]) * rng.randint(1, n)] if rng.random() < 0.25 else []
        cases.append({"history": {"clauses0": f, "assumptions0": a0, "steps": steps, "kind": kind},
                      "family": "history-" + kind, "timeout_s": 20})
    return cases


# ------------------------------------------------------------------ round 2: case lists
LADDER = (10, 12, 33, 65, 129, 140, 260, 520, 600, 1000, 1500, 2500)


def ladder_cases(seed, quick):
    """size ladder + long runs + big enumerations. Each case: recipe, options, family, cost estimate (for scheduling)"""
    rng = random.Random(f"ladder-{seed}")
    out = []

    def add(family, gen, cost, **kw):
        c = {"gen": gen, "assumptions": [], "solution_limit": 1, "luby_factor": 100, "family": family, "small": False,
             "timeout_s": 900, "z3_timeout_ms": 30000, "cost": cost}
        c.update(kw)
        out.append(c)

    option_sets = [{}, {"luby_factor": 1}, {"solution_limit": 3}, {"assume_from_witness": 2}]
    sizes = [s for s in LADDER if (s <= 1000 or not quick)]
    # implication chains and wide clauses: every numbering order, both polarities, satisfiable + unsatisfiable sibling
    for K in sizes:
        for order in ("head", "tail", "gadget", "gadget-tail"):
            for pol in (("pos",) if quick and order != "head" else ("pos", "neg", "alt")):
                for oi, o in enumerate(option_sets):
                    if quick and oi and order != "head":
                        continue
                    add("ladder-chain", ["chain", {"K": K, "order": order, "pol": pol}], K / 1e4, **o)
                add("ladder-chain-unsat", ["chain", {"K": K, "order": order, "pol": pol, "unsat": True}], K / 1e4)
        taps = [round(rng.uniform(0.05, 1.0), 3) for _ in range(3)]
        add("ladder-chain", ["chain", {"K": K, "order": "head", "pol": "pos", "taps": taps}], K / 1e4)
        for r in range(2 if quick else 8):
            add("ladder-chain-renamed", ["chain", {"K": K, "order": "head", "pol": "pos", "taps": taps}], K / 1e4, rename=r,
                **rng.choice(option_sets))
    for N in sizes:
        if N < 12:
            continue
        for order in ("asc", "desc", "aux-first", "last-two-first"):
            for pol in (("pos",) if quick and order != "asc" else ("pos", "neg")):
                for oi, o in enumerate(option_sets):
                    if quick and oi and (order != "asc" or N > 600):
                        continue
                    add("ladder-wide", ["wide", {"N": N, "order": order, "pol": pol}], (N / 1000) ** 2, **o)
            if N <= 600 or not quick:
                add("ladder-wide-unsat", ["wide", {"N": N, "order": order, "pol": "pos", "unsat": True}], (N / 1000) ** 2)
        for depth in (2, 5):
            if N - depth >= 3:
                add("ladder-wide", ["wide", {"N": N, "order": "asc", "pol": "pos", "depth": depth}], (N / 1000) ** 2 * depth)
        for r in range(2 if quick else 6):
            add("ladder-wide-random", ["wide_random", {"N": N, "seed": r}], (N / 1000) ** 2 * 2, **rng.choice(option_sets[:3]))
            add("ladder-wide-renamed", ["wide", {"N": N, "order": "asc", "pol": "pos"}], (N / 1000) ** 2, rename=r)
    # planted random formulas of growing size (easy ratios), 2-SAT, xor chains, ladder-encoded CSPs
    for n in sizes:
        for r in range(1 if quick else 4):
            add("ladder-planted-3sat", ["planted_ksat", {"n": n, "ratio": rng.choice([2.5, 3.0, 3.3]), "seed": r}], n / 2e3,
                max_conflicts=20000, budget_generous=False, **rng.choice(option_sets))
            add("ladder-planted-2sat", ["planted_2sat", {"n": n, "ratio": rng.choice([0.9, 1.1, 1.4, 2.0]), "seed": r}], n / 1e4,
                **rng.choice(option_sets))
            if n <= 600:
                add("ladder-xor-chain", ["xor_chain", {"n": n, "seed": r}], n / 500, max_conflicts=20000, budget_generous=False,
                    **rng.choice(option_sets[:3]))
        if n <= 20:
            add("ladder-xor-chain-unsat", ["xor_chain", {"n": n, "seed": 0, "unsat": True}], 0.5, max_conflicts=20000,
                budget_generous=False)
    for P, N in ([(3, 33), (4, 65), (3, 140), (3, 260)] if quick else [(3, 33), (4, 65), (5, 129), (3, 140), (4, 260), (3, 520), (3, 600)]):
        for r in range(2 if quick else 4):
            add("ladder-csp", ["ladder_csp", {"P": P, "N": N, "seed": r}], P * N * N / 2e5, max_conflicts=20000, budget_generous=False,
                **rng.choice(option_sets[:3]))
    for J, H in ([(3, 33), (3, 129), (4, 260), (4, 600)] if quick else [(3, 33), (3, 129), (4, 260), (4, 600), (5, 600), (6, 1000), (8, 600)]):
        for r in range(2 if quick else 6):
            add("ladder-order-sched", ["order_sched", {"J": J, "H": H, "seed": r}], J * J * H / 4e4, max_conflicts=20000,
                budget_generous=False, **({} if r % 2 == 0 else {"rename": r}))
    # long runs: thousands of conflicts inside one call (hidden-model 3-SAT near the threshold; unplanted with z3 on demand)
    for i in range(48 if quick else 320):
        n = rng.choice([180, 200, 220, 250, 250, 300])
        ratio = rng.choice([4.0, 4.1, 4.2])
        o = rng.choice([{}, {}, {"solution_limit": 2}, {"solution_limit": 2, "assume_from_witness": 1}, {"luby_factor": rng.choice([1, 10, 1000])}])
        add("long-hidden-3sat", ["planted_ksat", {"n": n, "ratio": ratio, "seed": i}], 4.0,
            max_conflicts=14000 if quick else 40000, budget_generous=False, **o)
    for i in range(0 if quick else 48):
        n = rng.choice([150, 180, 200])
        add("long-random-3sat", ["random_ksat", {"n": n, "ratio": rng.choice([4.0, 4.1, 4.2]), "seed": i}], 6.0,
            max_conflicts=40000, budget_generous=False, z3_timeout_ms=60000)
    # enumerations by the thousand: blocking clauses become the majority of the clause database, reduce_db runs at a restart
    for k, lim in ([(11, 5000), (12, 3000), (12, 5000)] if quick else [(11, 5000), (12, 3000), (12, 5000), (13, 5000), (13, 9000), (14, 20000)]):
        for lf in (1, 100):
            add("enumerate-free", ["free_vars", {"k": k}], lim / 1500, solution_limit=lim, luby_factor=lf, n_models=2 ** k,
                budget_generous=lim <= 5000)
    for r in range(4 if quick else 24):
        k = rng.choice([12, 13, 14])
        extra = rng.randint(2, 8)
        f, _, _ = free_vars(k, extra, r)
        add("enumerate-small-formula", ["free_vars", {"k": k, "extra": extra, "seed": r}], 3.0, solution_limit=rng.choice([2500, 3000, 6000]),
            luby_factor=rng.choice([1, 100]), n_models=count_models(f, k))
    for r in range(4 if quick else 24):
        n = rng.choice([30, 40, 60, 100])
        add("enumerate-loose-3sat", ["loose_ksat", {"n": n, "ratio": rng.choice([1.5, 2.0, 2.5]), "seed": r}], 3.0,
            solution_limit=rng.choice([2500, 3000]) if quick else rng.choice([2500, 4000, 8000]), luby_factor=rng.choice([1, 100]),
            max_conflicts=10 ** 6)
    return out


def enum_random_parts(rng, lo, hi):
    """a random composition: >= 2 late-implied backbone variables from random gadget kinds, optional groups and a small
    random core, padded with free variables so that the exact model count lands in [lo, hi] (hi >= 2 * lo)"""
    while True:
        parts = []
        n_bb = 0
        while n_bb < 2 or (n_bb < 5 and rng.random() < 0.35):
            kind = rng.choice(["bb", "bb", "bb3", "bbchain", "bbshared", "bbpair"])
            p = {"bb": ["bb", rng.randint(1, 3)], "bb3": ["bb3", 1], "bbchain": ["bbchain", rng.randint(2, 5)],
                 "bbshared": ["bbshared", rng.randint(2, 3)], "bbpair": ["bbpair"]}[kind]
            parts.append(p)
            n_bb += _enum_part(p)[1].count("bb")
        for _ in range(rng.randint(0, 2)):
            parts.append(rng.choice([["eq", rng.randint(2, 4)], ["amo", rng.randint(2, 5)], ["exo", rng.randint(2, 5)]]))
        if rng.random() < 0.6:
            n = rng.randint(4, 8)
            parts.append(["core", n, rng.randint(n, 2 * n), rng.randrange(10 ** 6)])
        P = enum_struct_count(parts)
        k = 0
        while P * 2 ** k < lo:
            k += 1
        if P * 2 ** k > hi or k > 12 or k < 1:
            continue
        parts.append(["free", k, rng.choice(["taut2", "taut3"]) if k >= 2 else "taut2"])
        rng.shuffle(parts)
        return parts


def enum_struct_cases(seed, quick):
    """enumeration-structure family: (formula with a model count known by construction) x (variable numbering) x (polarity)
    x (restart frequency); all models requested (or a limit below the count); reduce_db runs during the enumeration"""
    rng = random.Random(f"enum-struct-{seed}")
    out = []
    perms = [f"perm{i}" for i in range(1 if quick else 4)]
    numberings = list(ENUM_NUMBERINGS) + perms

    def add(parts, numbering, polarity, lf, shuffle=None, limit=None, assume_free=False):
        count = enum_struct_count(parts)
        params = {"parts": parts, "numbering": numbering, "polarity": polarity}
        if shuffle is not None:
            params["shuffle"] = shuffle
        c = {"gen": ["enum_struct", params], "assumptions": [], "solution_limit": limit or count + 1000, "luby_factor": lf,
             "max_conflicts": 10 ** 7, "max_restarts": 10 ** 7, "n_models": count, "family": "enum-struct", "small": False,
             "timeout_s": 900, "cost": (min(count, limit or count) / 2500) ** 2}
        if assume_free:  # one free variable fixed by an assumption: exactly half of the models remain
            frees = enum_struct_class_numbers(parts, numbering)["free"]
            v = frees[len(frees) // 2]
            c["assumptions"] = [v if len(out) % 2 else -v]
            c["n_models"] = count // 2
            c["solution_limit"] = limit or count // 2 + 1000
            c["cost"] = (min(count // 2, limit or count) / 2500) ** 2
        out.append(c)

    fixed = [[["free", 7], ["bb", 2], ["amo", 4]]]  # 128 * 4 * 5 = 2560
    if not quick:
        fixed += [[["free", 10], ["bb", 2]], [["free", 8], ["bb", 4]], [["free", 7], ["bbchain", 3], ["bb3", 1], ["bbshared", 2]],
                  [["core", 6, 9, 0], ["free", 5], ["bbpair"], ["bb", 1], ["eq", 3], ["exo", 3]]]
    small = fixed + [enum_random_parts(rng, 2049, 2800 if quick else 4100) for _ in range(1 if quick else 7)]
    lfs = (100, 1, 3, 10, 2)
    for fi, parts in enumerate(small):
        for ni, nm in enumerate(numberings):
            flips = ("neg", "bbneg", f"rand{fi}")
            # thorough: every presentation as built and with one rotating flip; the full product on the first three formulas
            pols = ("pos",) if quick else ("pos",) + flips if fi < 3 else ("pos", flips[(fi + ni) % 3])
            for pi, pol in enumerate(pols):
                add(parts, nm, pol, lfs[(fi + ni + pi) % (2 if quick else 5)], shuffle=None if (ni + pi) % 3 else fi * 100 + ni)
    # polarity flips in the quick tier: a rotating sample instead of the full product
    if quick:
        for fi, parts in enumerate(small):
            for j, (nm, pol) in enumerate([("grouped", "neg"), ("grouped-reversed", "bbneg"), ("perm0", f"rand{fi}")][: 2 if fi else 3]):
                add(parts, nm, pol, lfs[j % 2], shuffle=j or None)
    else:
        # limits below the model count, assumptions on a free variable, mid-size and large counts
        mid = [enum_random_parts(rng, 4200, 8400) for _ in range(4)]
        for fi, parts in enumerate(mid):
            for ni, nm in enumerate(numberings):
                pol = ("pos", "neg", "bbneg", f"rand{fi}")[(fi + ni) % 4] if ni % 2 else "pos"
                add(parts, nm, pol, lfs[(fi + ni) % 5], assume_free=ni % 3 == 0, limit=None if ni % 3 != 1 else 2600)
        for fi, parts in enumerate([enum_random_parts(rng, 9000, 20000) for _ in range(2)]):
            for ni, nm in enumerate(("grouped", "backbone-last", "reversed", "interleaved", "perm0", "perm1")):
                add(parts, nm, "pos" if ni % 2 == 0 else f"rand{ni}", lfs[ni % 5], limit=None if ni % 2 == 0 else 3000)
    return out


def enum_struct_class_numbers(parts, numbering):
    """variable numbers by class under a numbering"""
    classes = [c for p in parts for c in _enum_part(p)[1]]
    out = {}
    for pos, ci in enumerate(_enum_order(classes, numbering)):
        out.setdefault(classes[ci], []).append(pos + 1)
    return out


def budget_ladder_cases(seed, quick):
    """every conflict budget 0..K and restart budget 0..3 on formulas that need tens to hundreds of conflicts: the budget
    checks are crossed at every possible point (any status allowed; models must be models; INFEASIBLE only if unsat)"""
    rng = random.Random(f"budget-{seed}")
    out = []
    forms = [("php4", pigeonhole(5, 4)), ("cumulative18", cumulative_unsat()), ("php-sat4", pigeonhole(4, 4))]
    for i in range(3 if quick else 12):
        n = rng.randint(14, 30)
        forms.append((f"rand{n}", random_cnf(rng, n, int(n * 4.2), lens=(3,), dup=0, taut=0)))
    for name, f in forms:
        for mc in (range(0, 34, 3) if quick else range(0, 80)):
            for mr in ((0, 2, 10000) if quick else (0, 1, 2, 3, 10000)):
                out.append({"clauses": f, "assumptions": [], "solution_limit": rng.choice([1, 1, 4]), "luby_factor": rng.choice([1, 1, 2, 100]),
                            "max_conflicts": mc, "max_restarts": mr, "budget_generous": False, "family": "budget-ladder",
                            "timeout_s": 60, "small": False})
    return out


def build_cases(seed: int, quick: bool):
    rng = random.Random(seed)
    cases = []
    # (i) exhaustive tiny scope (seeded slice in quick)
    allf = list(exhaustive_small(3, 3 if not quick else 2, 3))
    if quick:
        three = list(exhaustive_small(3, 3, 2))
        rng.shuffle(three)
        allf = allf + three[:1200]
    for f in allf:
        cfgs = list(configs_for(f, rng, full=not quick))
        if quick:
            cfgs = rng.sample(cfgs, 4)
        for c in cfgs:
            c["family"] = "tiny"
            cases.append(c)
    # duplicated literals / tautologies / unit+conflict mixes
    for _ in range(300 if quick else 40000):
        n = rng.randint(1, 5)
        f = random_cnf(rng, n, rng.randint(1, 7), dup=0.3, taut=0.2)
        a = []
        if rng.random() < 0.5:
            a = [rng.choice([1, -1]) * rng.randint(1, n) for _ in range(rng.randint(1, 2))]
        cases.append({"clauses": f, "assumptions": a, "solution_limit": rng.choice([1, 2, 3, 10, 100]),
                      "luby_factor": rng.choice([1, 2, 100]), "family": "dup-taut"})
    # (ii) random 3-SAT / mixed around the threshold, restarts forced
    for _ in range(250 if quick else 20000):
        n = rng.randint(6, 12) if rng.random() < 0.7 else rng.randint(13, 40)
        m = int(n * rng.uniform(3.2, 5.0))
        f = random_cnf(rng, n, m, lens=rng.choice([(3,), (2, 3), (1, 2, 3, 3), (3, 4)]), dup=0.02, taut=0.01)
        a = []
        if rng.random() < 0.3:
            a = [rng.choice([1, -1]) * rng.randint(1, n) for _ in range(rng.randint(1, 3))]
        cases.append({"clauses": f, "assumptions": a, "solution_limit": rng.choice([1, 1, 5, 50]),
                      "luby_factor": rng.choice([1, 2, 3, 100]), "family": "random", "small": n <= 14,
                      "timeout_s": 20})
    # tiny budgets: any status allowed, but models must be models and the call must return
    for _ in range(100 if quick else 15000):
        n = rng.randint(5, 14)
        f = random_cnf(rng, n, int(n * rng.uniform(3.5, 4.8)), lens=(3,))
        cases.append({"clauses": f, "assumptions": [], "solution_limit": rng.choice([1, 5]),
                      "luby_factor": rng.choice([1, 2]), "max_conflicts": rng.choice([1, 3, 10, 50]),
                      "max_restarts": rng.choice([0, 1, 5, 10000]), "budget_generous": False, "family": "tiny-budget"})
    # (iii) UNSAT families where learning must fire
    fams = [("php3", pigeonhole(4, 3)), ("php4", pigeonhole(5, 4)), ("parity4", parity_chain(4, True) + parity_chain(4, False)),
            ("parity6", parity_chain(6, True) + parity_chain(6, False)), ("cumulative18", cumulative_unsat())]
    if not quick:
        fams.append(("php5", pigeonhole(6, 5)))
    for name, f in fams:
        for lf in (1, 2, 100):
            cases.append({"clauses": f, "assumptions": [], "solution_limit": 1, "luby_factor": lf, "family": name,
                          "small": False, "timeout_s": 60})
        cases.append({"clauses": f, "assumptions": [], "solution_limit": 1, "luby_factor": 100, "max_conflicts": 500,
                      "budget_generous": False, "family": name + "-budget500", "timeout_s": 60})
    # long runs (thousands of conflicts), satisfiable and unsatisfiable variants
    for pp in ((7, 8) if quick else (7, 8, 9)):
        for closing in (False, True):
            cases.append({"clauses": guarded_php(pp, closing), "assumptions": [], "solution_limit": 1, "luby_factor": 100,
                          "family": f"guarded-php{pp}", "small": False, "timeout_s": 240})
    for _ in range(0 if quick else 12):
        n = rng.randint(45, 70)
        cases.append({"clauses": random_cnf(rng, n, int(n * 4.26), lens=(3,), dup=0, taut=0), "assumptions": [],
                      "solution_limit": 1, "luby_factor": 100, "family": "hard-3sat", "small": False, "timeout_s": 600})
    # satisfiable php (p == h) and enumeration of many models (blocking clauses, reduce_db)
    cases.append({"clauses": pigeonhole(3, 3), "assumptions": [], "solution_limit": 10, "luby_factor": 1, "family": "php-sat"})
    free = [[i, -i] for i in range(1, 8)]
    cases.append({"clauses": free, "assumptions": [], "solution_limit": 200, "luby_factor": 1, "family": "enumerate-128",
                  "timeout_s": 60})
    if not quick:
        free12 = [[i, -i, i % 12 + 1] for i in range(1, 13)]
        cases.append({"clauses": free12, "assumptions": [], "solution_limit": 5000, "luby_factor": 1,
                      "family": "enumerate-4096-reduce_db", "timeout_s": 600})
    # the formulas quoted in the property texts
    for f, a, sl, lf in [([[1], [2, 3]], [], 10, 100), ([[1, 2]], [-1], 1, 100), ([[-1]], [], 3, 1),
                         ([[3, 1], [1, 1, 3], [-3, 2, 3]], [-1], 1, 100)]:
        cases.append({"clauses": f, "assumptions": a, "solution_limit": sl, "luby_factor": lf, "family": "quoted"})
    return cases


def case_key(c):
    if "history" in c:
        return repr(("history", c["history"]["clauses0"], c["history"].get("assumptions0"), c["history"]["steps"]))
    form = (c["gen"], c.get("rename"), c.get("assume_from_witness")) if "gen" in c else c["clauses"]
    return repr((form, c.get("assumptions"), c.get("solution_limit"), c.get("luby_factor"), c.get("max_conflicts"), c.get("max_restarts")))


def case_size(c):
    if "history" in c:
        return sum(len(x) for x in c["history"]["clauses0"]) + len(c["history"]["steps"])
    return sum(len(x) for x in c["clauses"]) if "clauses" in c else 10 ** 9


def replay_case(rec):
    """re-run the case of a violation record on the current tree; returns (violations, info)"""
    use_repo()
    case = rec["case"]
    v, info = evaluate(case, case.get("timeout_s", 6))
    if "history" in case and not v:
        for _, ob, detail in compare_fresh([(case, it) for it in info.get("fresh", ())], 2):
            v.append((ob, detail))
    info.pop("fresh", None)
    return v, info


def run_property(ctx, prefix):
    """run all cases, report the violations whose obligation starts with `prefix` (C01 or C02)"""
    from vf.pool import pmap
    hist = history_cases(random.Random(f"history-{ctx.seed}"), 240 if ctx.quick else 6000) + \
        history_cases(random.Random(f"history-big-{ctx.seed}"), 24 if ctx.quick else 400, big=True)
    # history mode runs first, while this process is still small (the comparison forks one child per call)
    hist_results = pmap(eval_chunk, [hist[i:i + 20] for i in range(0, len(hist), 20)], chunksize=1)
    fresh_items = [(c, it) for ch in hist_results for c, _, info in ch for it in info.pop("fresh", ())]
    sel = fresh_items if not ctx.quick else fresh_items[::2]
    fresh_viol = compare_fresh(sel, 8 if ctx.quick else 64)
    del fresh_items
    cases = build_cases(ctx.seed, ctx.quick)
    enum_cases = enum_struct_cases(ctx.seed, ctx.quick)
    big = ladder_cases(ctx.seed, ctx.quick) + enum_cases
    budget = budget_ladder_cases(ctx.seed, ctx.quick)
    small = cases + budget
    # expensive cases first, one per task; cheap ones in chunks of 40
    big.sort(key=lambda c: -c.get("cost", 0))
    heavy = [c for c in big if c.get("cost", 0) >= 0.5]
    light = [c for c in big if c.get("cost", 0) < 0.5]
    chunks = [[c] for c in heavy] + [light[i:i + 8] for i in range(0, len(light), 8)] + [small[i:i + 40] for i in range(0, len(small), 40)]
    results = hist_results + pmap(eval_chunk, chunks, chunksize=1)
    n = 0
    nontriv = set()
    fam = {}
    samples = []
    undecided = 0
    reported = {}
    found = []
    for ch in results:
        for c, viol, info in ch:
            n += info.get("calls", 1)
            fam[c.get("family", "?")] = fam.get(c.get("family", "?"), 0) + 1
            if info.get("oracle_undecided"):
                undecided += 1
            # non-trivial: the run made at least one decision and the formula has > 1 clause, or enumerated > 1 model
            if info.get("iterations", 0) >= 1 or info.get("n_solutions", 0) > 1:
                if "gen" in c or "history" in c or len(c["clauses"]) > 1 or info.get("n_solutions", 0) > 1:
                    nontriv.add(case_key(c))
            if len(samples) < 6 and c.get("family") in ("random", "dup-taut", "tiny") and n % 97 == 0:
                samples.append({k: c[k] for k in ("clauses", "assumptions", "solution_limit", "luby_factor") if k in c})
            if len(samples) < 9 and "gen" in c and n % 53 == 0:
                samples.append({k: c[k] for k in ("gen", "rename", "assume_from_witness", "solution_limit", "luby_factor", "max_conflicts") if k in c})
            for ob, detail in viol:
                if ob.startswith(prefix):
                    found.append((case_size(c), len(found), ob, c, detail))
    # at most 3 reports per (obligation, family), the smallest inputs first
    found.sort(key=lambda t: t[:2])
    for _, _, ob, c, detail in found:
        key = (ob, c.get("family"))
        reported[key] = reported.get(key, 0) + 1
        if reported[key] > 3:
            continue
        ctx.violation(ob, {k: v for k, v in c.items() if k not in ("family", "cost")}, detail)
    # history mode, second half: every answer given inside a call sequence against the answer of a process without history
    for c, ob, detail in fresh_viol:
        if ob.startswith(prefix):
            ctx.violation(ob, {k: v for k, v in c.items() if k not in ("family", "cost")}, detail)
    n += len(sel)
    ctx.count(n, nontriv, samples or [cases[0]])
    ctx.scope("solve_sat cases by family", **fam)
    ctx.scope("size ladder (planted witness / certified-unsat siblings)", sizes=list(LADDER if not ctx.quick else [s for s in LADDER if s <= 1000]),
              families=sorted({c["family"] for c in big if c["family"] != "enum-struct"}), cases=len(big) - len(enum_cases),
              oracle="planted model checked by direct evaluation; every returned assignment evaluated clause by clause; "
                     "unsat siblings and INFEASIBLE claims on unplanted formulas certified by z3 (time-limited)",
              oracle_gave_up=undecided)
    ctx.scope("history mode", sequences=len(hist), calls=sum(len(c["history"]["steps"]) for c in hist),
              compared_with_fresh_process=len(sel), kinds=["enumerate", "options", "edits", "repeat", "replace"])
    ctx.scope("budget ladder", cases=len(budget))
    ctx.scope("enumeration structure (model count known by construction)", cases=len(enum_cases),
              formulas=len({repr(c["gen"][1]["parts"]) for c in enum_cases}),
              model_counts=sorted({c["n_models"] for c in enum_cases}),
              numberings=sorted({c["gen"][1]["numbering"] for c in enum_cases}),
              polarities=sorted({c["gen"][1]["polarity"] for c in enum_cases}),
              luby_factors=sorted({c["luby_factor"] for c in enum_cases}),
              with_limit_below_count=sum(1 for c in enum_cases if c["solution_limit"] < c["n_models"]),
              with_assumption=sum(1 for c in enum_cases if c["assumptions"]),
              oracle="count = product over variable-disjoint parts of the brute-force count of each part (<= 12 variables, "
                     "cross-checked against its closed form); returned solutions: exactly min(solution_limit, count), pairwise "
                     "distinct, each evaluated clause by clause")
    ctx.notes["exhaustive_note"] = ("thorough tier enumerates every CNF over <=3 variables with <=3 clauses of <=3 literals "
                                    "x assumptions x solution_limit x luby_factor; quick runs a seeded slice")
    ctx.exhaustive = not ctx.quick
    return cases

"""C09 - min_cost_flow, network_simplex and solve_assignment return feasible flows of minimum cost, agree, and come back.

Contract (from the property statement), evaluated on the real functions; <f> is min_cost_flow or network_simplex:
  C09/<f>/ensures:terminates       the call comes back (CPU-time guard, confirmed by a second run alone with a larger budget)
  C09/<f>/ensures:returns          no exception
  C09/<f>/ensures:infeasible-iff   status INFEASIBLE  <=>  no feasible flow exists (oracle: violated cut / feasible flow)
  C09/<f>/ensures:feasible-flow    integral, 0 <= f <= capacity (parallel arcs pooled), node balance == demand / supplies
  C09/<f>/ensures:cost-is-sum      objective == sum of arc cost x flow (for parallel arcs: some split of the pooled flow)
  C09/<f>/ensures:minimum-cost     objective == minimum over all feasible flows (oracle, certified by potentials)
  C09/agree                        on single-source single-sink instances both report the same status and cost
  C09/solve_assignment/ensures:{terminates,returns,valid-assignment,cost-is-sum,optimal}
Reported obligation names carry the class of the failing instance as a suffix (@simple-digraph, @parallel-arcs,
@anti-parallel-arcs, @parallel+anti-parallel-arcs): the unchanged tree has separate defects per class.
Domain: integer capacities >= 0, integer costs, no negative-cost directed cycle among the arcs, demand >= 0 /
integer supplies summing to 0, source != sink.

Beyond the small scope (round 2):
  * size ladder: networks with 12..120 nodes and 50..2100 arcs (arc counts around 128, 256, 512, 1024 and round numbers),
    single source/sink (both solvers + agreement) and many-producer supply vectors (network_simplex).  No brute force: the
    optimum comes from an independent successive-shortest-path solver whose answer is certified by potentials
    (complementary slackness) or a violated cut, and the RETURNED flow is certified on its own: feasible + no negative-cost
    cycle in its residual network <=> minimum cost.  solve_assignment up to 65 x 65 against a Hungarian method with dual
    certificate.
  * history mode: several calls in one process on the SAME objects - graph dict (min_cost_flow), arc list and supply list
    (network_simplex), cost matrix (solve_assignment) - edited in place between the calls (capacity / cost replaced, arcs
    added or deleted, two arcs' data swapped, keys re-inserted, other demand or terminals, same call repeated).  Every call
    is judged against the input as it is at that call; the last call is repeated in a fresh interpreter on equal, newly built
    objects and must return the identical Result (C09/<f>/frame:result-independent-of-call-history).
  * magnitudes and ties: capacities / costs that are huge, equal everywhere, or differ by exactly 1 on top of 10^6..10^9
    (all sums stay below 2^53, so float bookkeeping inside network_simplex is still exact), demands that are exact multiples
    of the common capacity and one more / one less.

Presentation diversity (round 3, checks/flow_present.py): the instances of the small-scope and mid-size generators (exhaustive
small networks, degenerate shapes, random networks with 3..8 nodes, assignment matrices up to 6 x 6) are dressed up before the
call, the answer is mapped back and judged by the same clauses on the plain integer instance:
  * min_cost_flow (generic `Node`): node labels None (as source / sink / inner node), falsy values, pairs of other nodes, nested
    tuples, frozensets, labels that collide after str(), equal-but-differently-typed spellings of one node (2 / 2.0 / True) in
    keys, arc heads and the source / sink argument, hash-colliding ints, mutually incomparable mixtures; dict / defaultdict(list)
    / OrderedDict; adjacency list or tuple; arc records tuples or lists; nodes that occur as arc heads only - also the source
    or the sink, which the plain generator always makes keys - or as keys with an empty adjacency, in any key order; capacity /
    cost / demand as int or as float with integral value, mixed in one graph with an int first;
  * network_simplex (nodes are 0..n-1 by signature): arcs as a list or tuple of tuples or lists; capacities, costs and supplies
    each all-int, all-float (integral values) or mixed with an int first; supplies as list or tuple;
  * solve_assignment: matrix as list / tuple of list / tuple rows, entries int, float (integral values) or mixed, int first;
  * C09/<f>/frame:inputs-unchanged        the caller's graph / arc list / supply list / matrix prints the same after the call
  * C09/<f>/frame:same-call-same-answer   the same call repeated on the same objects returns the same status, objective, solution.
Not used (outside the statement): non-integral costs or capacities ("integer capacities and integer costs"), bool numbers,
one-shot iterables (the signatures say list / Sequence), node ids other than ints for network_simplex.
"""
from __future__ import annotations

import itertools
import json
import os
import random
import signal
import subprocess
import sys

from checks import flow_present as fp
from vf.core import Ctx, use_repo
from vf.pool import pmap

LEVEL = "exploration"
BUDGET1 = 0.03  # CPU seconds per flow-solver call in the sweep (median call < 0.1 ms; networks have <= 8 nodes)
BUDGET1_ASSIGN = 0.25  # solve_assignment on up to 6x6
BUDGET2 = 1.0  # CPU seconds when a sweep time-out of min_cost_flow / solve_assignment is re-run alone
BUDGET2_NS = 40.0  # the same for network_simplex: enough for its own max_iter=10^6 pivots on <= 8 nodes (2-10 CPU-s), so a
#                    pivot loop that is only stopped by max_iter comes back and is judged on its result, not as a hang
BIG = 40  # networks with more arcs than this are "ladder" instances: certificate oracles, own CPU budgets
# ladder instances: CPU budget per call in the sweep = max(0.5 s, size/300) - at least 40x the slowest call seen on the unchanged
# tree (2100 arcs: 0.18 s; 65x65 assignment: 0.15 s); 10x that when a sweep time-out is re-run alone.  After one time-out of a
# function inside a worker job the remaining big calls of that function in the job are skipped (and counted), so a solver
# that hangs on every large instance costs seconds, not hours.
_BREAKER = {}


def big_budget(size, confirm):
    return max(0.5, size / 300.0) * (10 if confirm else 1)


class _Timeout(Exception):
    pass


def _on_alarm(*_a):
    raise _Timeout()


def guarded(budget, fn, *a, **kw):
    """Run fn under a CPU-time alarm (ITIMER_VIRTUAL: counts this process's CPU time, so machine load cannot fake a hang)."""
    signal.signal(signal.SIGVTALRM, _on_alarm)
    signal.setitimer(signal.ITIMER_VIRTUAL, budget)
    try:
        return "ok", fn(*a, **kw)
    except _Timeout:
        return "timeout", None
    except Exception as e:  # noqa
        return "exc", f"{type(e).__name__}: {e}"
    finally:
        signal.setitimer(signal.ITIMER_VIRTUAL, 0)


# ------------------------------------------------------------------------------------------- contract evaluation
def _label(scheme, i):
    return i if scheme == "int" else f"n{i}"


def build_graph(n, arcs, s, t, scheme="int"):
    g = {}
    for u, v, c, w in arcs:
        g.setdefault(_label(scheme, u), []).append((_label(scheme, v), c, w))
    g.setdefault(_label(scheme, s), [])
    g.setdefault(_label(scheme, t), [])
    return g


def judge(fname, st, res, n, arcs, supplies, oracle, back=None):
    """Compare one solver outcome with the oracle.  Returns list of (obligation, detail)."""
    from oracles.flow_exact import decomposition_costs, pooled_flow_defects
    from solvor.types import Status

    Pf = f"C09/{fname}/ensures:"
    if st == "timeout":
        return [(Pf + "terminates", "did not come back within the CPU budget")]
    if st == "exc":
        return [(Pf + "returns", f"raised {res}")]
    out = []
    says_inf = res.status == Status.INFEASIBLE
    if oracle["status"] == "infeasible":
        if not says_inf:
            out.append((Pf + "infeasible-iff", f"status {res.status.name} objective {res.objective!r} but no feasible flow exists "
                        f"(cut {oracle['cut']})"))
        return out
    if says_inf:
        wit = oracle["flow"] if len(arcs) <= BIG else "per-arc flow omitted, certified by potentials"
        return [(Pf + "infeasible-iff", f"INFEASIBLE reported, a feasible flow of cost {oracle['cost']} exists: {wit}")]
    sol = res.solution
    if not isinstance(sol, dict):
        return [(Pf + "feasible-flow", f"status {res.status.name} but solution is {sol!r}")]
    if back is not None:
        try:
            sol = {(back[k[0]], back[k[1]]): f for k, f in sol.items()}
        except Exception:  # noqa
            return [(Pf + "feasible-flow", f"flow keys are not node pairs: {sol!r}")]
    bad = pooled_flow_defects(n, arcs, supplies, sol)
    show = sol if len(sol) <= 30 else f"{dict(list(sol.items())[:30])}... ({len(sol)} arcs)"
    cyc = None
    if bad:
        out.append((Pf + "feasible-flow", "; ".join(bad[:3]) + f"  [returned flow {show}]"))
    else:
        sol = {k: int(f) for k, f in sol.items()}  # integral by now; a float spelling (2.0) must not reach range()
        costs = decomposition_costs(arcs, sol)
        if res.objective not in costs:
            out.append((Pf + "cost-is-sum", f"objective {res.objective!r}, but the returned flow {show} costs "
                        f"{sorted(costs)[:4]}"))
        if len(arcs) > BIG:  # certificate on the returned flow itself (cheapest split over parallel arcs)
            from oracles.flow_exact import negative_residual_cycle, split_pooled
            per_arc = split_pooled(arcs, sol)
            cyc = negative_residual_cycle(n, arcs, per_arc)
            mine = sum(f * a[3] for f, a in zip(per_arc, arcs))
            if (cyc is None) != (mine == oracle["cost"]):
                raise AssertionError(f"certificates disagree: residual cycle {cyc}, flow cost {mine}, reference optimum "
                                     f"{oracle['cost']} on {(n, arcs, supplies)}")
    if res.objective != oracle["cost"] or cyc is not None:
        opt = oracle["flow"] if len(arcs) <= BIG else "omitted"
        extra = "" if cyc is None else (f"; the returned flow is feasible but its residual network has the cycle "
                                        f"{cyc[1][:12]} (u, v, +1 forward / -1 backward, cost) of total cost {cyc[0]}")
        out.append((Pf + "minimum-cost", f"objective {res.objective!r}, minimum cost {oracle['cost']} "
                    f"(optimal flow per arc {opt}){extra}"))
    return out


def oracle_for(n, arcs, supplies):
    from oracles.flow_exact import certify_infeasible, certify_optimal, mcf_exact, mcf_spfa
    o = mcf_exact(n, arcs, supplies) if len(arcs) <= BIG else mcf_spfa(n, arcs, supplies)
    if o["status"] == "optimal":
        bad = certify_optimal(n, arcs, supplies, o["flow"], o["pi"])
    else:
        bad = certify_infeasible(n, arcs, supplies, o["cut"])
    if bad:
        raise AssertionError(f"oracle certificate rejected: {bad} on {(n, arcs, supplies)}")
    return o


def st_shape(supplies):
    """(s, t, d) if the supply vector has exactly one producer and one consumer, else None."""
    pos = [i for i, b in enumerate(supplies) if b > 0]
    neg = [i for i, b in enumerate(supplies) if b < 0]
    if len(pos) == 1 and len(neg) == 1:
        return pos[0], neg[0], supplies[pos[0]]
    return None


def eval_flow_case(case, budget=BUDGET1, only=None, oracle=None, budget_ns=None, objs=None):
    """case: kind 'flow', n, arcs [[u,v,cap,cost]], supplies, optional s,t (for demand 0), labels.  Runs network_simplex
    always and min_cost_flow when the instance is single-source single-sink.  Returns (violations, info)."""
    from solvor.flow import min_cost_flow
    from solvor.network_simplex import network_simplex

    n = case["n"]
    arcs = [tuple(a) for a in case["arcs"]]
    supplies = list(case["supplies"])
    if oracle is None:
        oracle = oracle_for(n, arcs, supplies)
    big = len(arcs) > BIG
    if big:
        budget = budget_ns = big_budget(len(arcs), budget != BUDGET1)
    out = []
    info = {"oracle": oracle["status"], "timeouts": [], "skipped": 0}
    shape = st_shape(supplies)
    if shape is None and not any(supplies) and "s" in case:
        shape = (case["s"], case["t"], 0)
    r_m = r_n = None
    if big and budget < 5 * big_budget(len(arcs), False):  # sweep only
        if _BREAKER.get("min_cost_flow") and only is None and shape is not None:
            only = "network_simplex"
            info["skipped"] += 1
        if _BREAKER.get("network_simplex") and only in (None, "network_simplex"):
            info["skipped"] += 1
            only = "min_cost_flow" if only is None else "nothing"
    if shape is not None and only in (None, "min_cost_flow"):
        s, t, d = shape
        scheme = case.get("labels", "int")
        g = objs["g"] if objs else build_graph(n, arcs, s, t, scheme)
        back = {_label(scheme, i): i for i in range(n)}
        before = fp.snap(g) if objs is not None else None
        st, res = guarded(budget, min_cost_flow, g, _label(scheme, s), _label(scheme, t), d)
        if objs is not None:
            objs["r_m"] = summary(st, res, back)
            fr = _unchanged("min_cost_flow", before, fp.snap(g), ["graph"])  # history mode relies on it: the next edits
            out += fr  # are addressed by position in the caller's own objects
            info["mutated"] = info.get("mutated", False) or bool(fr)
        v = judge("min_cost_flow", st, res, n, arcs, supplies, oracle, back)
        if st == "timeout":
            info["timeouts"].append("min_cost_flow")
            _BREAKER["min_cost_flow"] = big
        elif st == "ok":
            r_m = res
        out += v
    if only in (None, "network_simplex"):
        if objs is not None:  # history mode: the caller's own list objects, not copies
            before = fp.snap(objs["A"], objs["B"])
            st, res = guarded(budget_ns or budget, network_simplex, n, objs["A"], objs["B"])
            objs["r_n"] = summary(st, res, None)
            fr = _unchanged("network_simplex", before, fp.snap(objs["A"], objs["B"]), ["arc list", "supply list"])
            out += fr
            info["mutated"] = info.get("mutated", False) or bool(fr)
        else:
            st, res = guarded(budget_ns or budget, network_simplex, n, [tuple(a) for a in arcs], list(supplies))
        v = judge("network_simplex", st, res, n, arcs, supplies, oracle)
        if st == "timeout":
            info["timeouts"].append("network_simplex")
            _BREAKER["network_simplex"] = big
        elif st == "ok":
            r_n = res
        out += v
    if r_m is not None and r_n is not None:
        from solvor.types import Status
        im, i_n = r_m.status == Status.INFEASIBLE, r_n.status == Status.INFEASIBLE
        if im != i_n:
            out.append(("C09/agree", f"min_cost_flow says {r_m.status.name}, network_simplex says {r_n.status.name}"))
        elif not im and r_m.objective != r_n.objective:
            out.append(("C09/agree", f"min_cost_flow cost {r_m.objective!r}, network_simplex cost {r_n.objective!r}"))
    info["both"] = shape is not None
    info["iters"] = {"min_cost_flow": getattr(r_m, "iterations", 0) or 0, "network_simplex": getattr(r_n, "iterations", 0) or 0}
    return out, info


def eval_assign_case(case, budget=BUDGET1_ASSIGN, same_object=None, keep=None):
    from oracles.flow_exact import assignment_brute, assignment_optimum
    from solvor.flow import solve_assignment
    from solvor.types import Status

    mat = case["matrix"]
    Pf = "C09/solve_assignment/ensures:"
    n = len(mat)
    m = len(mat[0]) if n else 0
    best = assignment_brute(mat) if n * m <= 36 else assignment_optimum(mat)
    info = {"oracle": "optimal", "timeouts": [], "both": False}
    if n * m > 36:
        if _BREAKER.get("solve_assignment") and budget <= BUDGET1_ASSIGN:
            info["skipped"] = 1
            return [], info
        budget = big_budget(n * m * 3 / 8, budget > BUDGET1_ASSIGN)
    st, res = guarded(budget, solve_assignment, same_object if same_object is not None else [list(r) for r in mat])
    if keep is not None:
        keep["st"], keep["res"], keep["budget"] = st, res, budget
    if st == "timeout":
        _BREAKER["solve_assignment"] = n * m > 36
        info["timeouts"].append("solve_assignment")
        return [(Pf + "terminates", "did not come back within the CPU budget")], info
    if st == "exc":
        return [(Pf + "returns", f"raised {res}")], info
    out = []
    a = res.solution
    if res.status == Status.INFEASIBLE:
        return [(Pf + "valid-assignment", "INFEASIBLE reported for an assignment problem")], info
    ok = isinstance(a, list) and len(a) == n and all(isinstance(j, int) and -1 <= j < m for j in a)
    if ok:
        used = [j for j in a if j >= 0]
        ok = len(used) == min(n, m) and len(set(used)) == len(used)
    if not ok:
        out.append((Pf + "valid-assignment", f"{str(a)[:300]} is not an assignment of min(n,m)={min(n, m)} rows to distinct columns"))
    else:
        c = sum(mat[i][j] for i, j in enumerate(a) if j >= 0)
        if c != res.objective:
            out.append((Pf + "cost-is-sum", f"objective {res.objective!r}, assignment {a} costs {c}"))
    if res.objective != best:
        out.append((Pf + "optimal", f"objective {res.objective!r}, optimum {best} (assignment {str(a)[:300]})"))
    return out, info


def eval_case(case, budget=BUDGET1, only=None, budget_ns=None):
    if case["kind"] == "assign":
        return eval_assign_case(case, max(budget, BUDGET1_ASSIGN))
    if case["kind"] == "history":
        return eval_history(case, budget, budget_ns)[:2]
    if case["kind"] == "assign-history":
        return eval_assign_history(case, max(budget, BUDGET1_ASSIGN))
    if case["kind"] == "present":
        return eval_present_case(case, budget, only, budget_ns)
    if case["kind"] == "assign-present":
        return eval_assign_present(case, max(budget, BUDGET1_ASSIGN))
    return eval_flow_case(case, budget, only, budget_ns=budget_ns)


# ------------------------------------------------------------------------------- round 3: presentation diversity
def _same_answer(fname, st, res, st2, res2):
    """frame:same-call-same-answer for two outcomes of the identical call on the same objects."""
    if st != "ok" or st2 == "timeout":
        return []
    ob = f"C09/{fname}/frame:same-call-same-answer"
    if st2 == "exc":
        return [(ob, f"the first call returned {res.status.name} objective {res.objective!r}, the same call again raised {res2}")]
    if (res.status, res.objective, res.solution) != (res2.status, res2.objective, res2.solution):
        return [(ob, f"the first call returned {res.status.name} objective {res.objective!r} solution {str(res.solution)[:200]}, the "
                     f"same call again {res2.status.name} objective {res2.objective!r} solution {str(res2.solution)[:200]}")]
    return []


def _unchanged(fname, before, after, what):
    if before == after:
        return []
    k = next(i for i in range(len(before)) if before[i] != after[i])
    return [(f"C09/{fname}/frame:inputs-unchanged", f"the caller's {what[k]} was {before[k][:400]} before the call and is "
             f"{after[k][:400]} after it")]


def present_mcf(case):
    """-> (graph object, back map, source spelling, sink spelling, demand) of a kind-'present' case, or None when the supply
    vector is not one producer / one consumer."""
    supplies = case["supplies"]
    shape = st_shape(supplies)
    if shape is None and not any(supplies) and "s" in case:
        shape = (case["s"], case["t"], 0)
    if shape is None:
        return None
    s, t, d = shape
    pres, alias = case["pres"], case.get("alias", {})
    g = fp.present_graph(case["n"], case["arcs"], case["labels"], alias, pres)
    back = {fp.mk_label(x): i for i, x in enumerate(case["labels"])}
    return (g, back, fp.call_label(s, case["labels"], alias, pres), fp.call_label(t, case["labels"], alias, pres),
            float(d) if pres.get("demand") == "float" else d)


def present_ns(case):
    pres = case["pres"]
    return (fp.present_arc_list(case["arcs"], pres),
            fp.present_vector(case["supplies"], pres.get("numsup", "int"), pres.get("sup_c", "list"), pres["seed"]))


def eval_present_case(case, budget=BUDGET1, only=None, budget_ns=None):
    """kind 'present': n, arcs [[u,v,cap,cost]] and supplies over nodes 0..n-1 (plain ints) + labels / alias / pres.  Both
    solvers are called twice on their presented inputs; verdicts come from the plain instance."""
    from solvor.flow import min_cost_flow
    from solvor.network_simplex import network_simplex
    from solvor.types import Status

    n = case["n"]
    arcs = [tuple(a) for a in case["arcs"]]
    supplies = list(case["supplies"])
    oracle = oracle_for(n, arcs, supplies)
    out = []
    info = {"oracle": oracle["status"], "timeouts": [], "skipped": 0, "calls": {}}
    r_m = r_n = None
    pm = present_mcf(case)
    if pm is not None and only in (None, "min_cost_flow"):
        g, back, src, snk, d = pm
        before = fp.snap(g)
        st, res = guarded(budget, min_cost_flow, g, src, snk, d)
        out += _unchanged("min_cost_flow", before, fp.snap(g), ["graph"])
        out += judge("min_cost_flow", st, res, n, arcs, supplies, oracle, back)
        info["calls"]["min_cost_flow"] = 1
        if st == "timeout":
            info["timeouts"].append("min_cost_flow")
        elif st == "ok":
            r_m = res
            st2, res2 = guarded(budget, min_cost_flow, g, src, snk, d)
            info["calls"]["min_cost_flow"] = 2
            out += _same_answer("min_cost_flow", st, res, st2, res2)
    if only in (None, "network_simplex"):
        A, B = present_ns(case)
        before = fp.snap(A, B)
        st, res = guarded(budget_ns or budget, network_simplex, n, A, B)
        out += _unchanged("network_simplex", before, fp.snap(A, B), ["arc list", "supply list"])
        out += judge("network_simplex", st, res, n, arcs, supplies, oracle)
        info["calls"]["network_simplex"] = 1
        if st == "timeout":
            info["timeouts"].append("network_simplex")
        elif st == "ok":
            r_n = res
            st2, res2 = guarded(budget_ns or budget, network_simplex, n, A, B)
            info["calls"]["network_simplex"] = 2
            out += _same_answer("network_simplex", st, res, st2, res2)
    if r_m is not None and r_n is not None:
        im, i_n = r_m.status == Status.INFEASIBLE, r_n.status == Status.INFEASIBLE
        if im != i_n:
            out.append(("C09/agree", f"min_cost_flow says {r_m.status.name}, network_simplex says {r_n.status.name}"))
        elif not im and r_m.objective != r_n.objective:
            out.append(("C09/agree", f"min_cost_flow cost {r_m.objective!r}, network_simplex cost {r_n.objective!r}"))
    info["both"] = pm is not None
    info["iters"] = {"min_cost_flow": getattr(r_m, "iterations", 0) or 0, "network_simplex": getattr(r_n, "iterations", 0) or 0}
    return out, info


def eval_assign_present(case, budget=BUDGET1_ASSIGN):
    from solvor.flow import solve_assignment
    M = fp.present_matrix(case["matrix"], case["pres"])
    before = fp.snap(M)
    keep = {}
    out, info = eval_assign_case({"kind": "assign", "matrix": case["matrix"]}, budget, same_object=M, keep=keep)
    out = _unchanged("solve_assignment", before, fp.snap(M), ["cost matrix"]) + out
    info["calls"] = {"solve_assignment": 1}
    if keep.get("st") == "ok":
        st2, res2 = guarded(keep["budget"], solve_assignment, M)
        info["calls"]["solve_assignment"] = 2
        out += _same_answer("solve_assignment", "ok", keep["res"], st2, res2)
    return out, info


# ------------------------------------------------------------------------------------------------ history mode
def summary(st, res, back):
    """JSON-able digest of one solver outcome (for the comparison with a fresh process)."""
    if st != "ok":
        return [st, str(res)]
    sol = res.solution
    if isinstance(sol, dict):
        try:
            sol = sorted([[back[k[0]], back[k[1]]] if back else list(k), f] for k, f in sol.items())
        except Exception:  # noqa
            sol = repr(sol)
    return [res.status.name, repr(res.objective), sol]


def _pos(A, k):
    """Position of flat arc k inside its tail's adjacency list (lists are kept in flat order)."""
    return sum(1 for a in A[:k] if a[0] == A[k][0])


def apply_edit(A, g, scheme, ed):
    """The same in-place edit on the arc list (network_simplex input) and on the graph dict (min_cost_flow input)."""
    op = ed[0]
    L = lambda i: _label(scheme, i)  # noqa
    if op == "set":  # new capacity / cost on arc k
        _, k, c, w = ed
        u, v = A[k][0], A[k][1]
        g[L(u)][_pos(A, k)] = (L(v), c, w)
        A[k] = (u, v, c, w)
    elif op == "add":
        _, u, v, c, w = ed
        A.append((u, v, c, w))
        g.setdefault(L(u), []).append((L(v), c, w))
    elif op == "del":
        _, k = ed
        del g[L(A[k][0])][_pos(A, k)]
        del A[k]
    elif op == "rekey":
        _, u = ed
        if L(u) in g:
            g[L(u)] = g.pop(L(u))
    else:
        raise ValueError(op)


def eval_history(case, budget=BUDGET1, budget_ns=None, want_last=False):
    """case: kind 'history', n, arcs (initial), labels, steps [{"edits": [...], "supplies": [...], "s", "t"}...].
    ONE arc list A, ONE supply list B and ONE graph dict g live through the whole sequence and are only edited in place."""
    n = case["n"]
    scheme = case.get("labels", "int")
    steps = case["steps"]
    A = [tuple(a) for a in case["arcs"]]
    B = list(steps[0]["supplies"])
    g = build_graph(n, A, steps[0]["s"], steps[0]["t"], scheme)
    objs = {"A": A, "B": B, "g": g}
    out = []
    info = {"oracle": "optimal", "timeouts": [], "both": False, "calls": {"network_simplex": 0, "min_cost_flow": 0}}
    last = None
    for k, stp in enumerate(steps):
        for ed in stp["edits"]:
            apply_edit(A, g, scheme, ed)
        B[:] = stp["supplies"]
        sub = {"kind": "flow", "n": n, "arcs": [list(a) for a in A], "supplies": list(B), "s": stp["s"], "t": stp["t"],
               "labels": scheme}
        objs.pop("r_m", None)
        objs.pop("r_n", None)
        o, i = eval_flow_case(sub, budget, budget_ns=budget_ns, objs=objs)
        info["calls"]["network_simplex"] += 1
        info["calls"]["min_cost_flow"] += 1 if i["both"] else 0
        info["both"] |= i["both"]
        if i["oracle"] == "infeasible":
            info["oracle"] = "mixed"
        for f in i["timeouts"]:
            if f not in info["timeouts"]:
                info["timeouts"].append(f)
        why = ("first call" if k == 0 else "after in-place edits " + json.dumps(stp["edits"]) if stp["edits"]
               else "same objects, supplies/terminals " + ("unchanged" if stp["supplies"] == steps[k - 1]["supplies"] else "changed"))
        out += [(ob, f"call #{k + 1} ({why}) on the same objects; arcs now {sub['arcs'] if len(A) <= 20 else len(A)}, "
                     f"supplies {sub['supplies']}: {d}") for ob, d in o]
        last = {"n": n, "arcs": sub["arcs"], "supplies": sub["supplies"], "s": stp["s"], "t": stp["t"], "labels": scheme,
                "graph": [[u, [list(a) for a in g[u]]] for u in g], "both": i["both"],
                "r_m": objs.get("r_m"), "r_n": objs.get("r_n")}
        if i.get("mutated"):  # a solver changed the caller's objects (reported above): the remaining steps address arcs by
            info["mutated"] = True  # position and mean nothing any more; no fresh-process comparison either
            break
    if want_last:
        return out, info, last
    return out, info


def eval_assign_history(case, budget=BUDGET1_ASSIGN):
    """case: kind 'assign-history', matrix, steps [[ [i, j, value], ... ], ...]: one matrix object, cells edited in place."""
    mat = [list(r) for r in case["matrix"]]
    out = []
    info = {"oracle": "optimal", "timeouts": [], "both": False, "calls": {"solve_assignment": 0}}
    for k, edits in enumerate(case["steps"]):
        for i, j, val in edits:
            mat[i][j] = val
        o, i_ = eval_assign_case({"kind": "assign", "matrix": [list(r) for r in mat]}, budget, same_object=mat)
        info["calls"]["solve_assignment"] += 1
        info["timeouts"] += [f for f in i_["timeouts"] if f not in info["timeouts"]]
        out += [(ob, f"call #{k + 1} (cells set in place: {edits}) on the same matrix object, now {mat}: {d}") for ob, d in o]
    return out, info


def fresh_eval(item):
    """Run in a NEW interpreter on newly built equal objects."""
    from solvor.flow import min_cost_flow
    from solvor.network_simplex import network_simplex
    scheme = item["labels"]
    n = item["n"]
    r = {}
    st, res = guarded(BUDGET2_NS, network_simplex, n, [tuple(a) for a in item["arcs"]], list(item["supplies"]))
    r["r_n"] = summary(st, res, None)
    if item["both"]:
        shape = st_shape(item["supplies"]) or (item["s"], item["t"], 0)
        g = {u: [tuple(a) for a in lst] for u, lst in item["graph"]}
        back = {_label(scheme, i): i for i in range(n)}
        st, res = guarded(BUDGET2, min_cost_flow, g, _label(scheme, shape[0]), _label(scheme, shape[1]), shape[2])
        r["r_m"] = summary(st, res, back)
    return r


def fresh_process(items):
    if not items:
        return []
    here = os.path.dirname(os.path.dirname(os.path.abspath(__file__)))
    p = subprocess.run([sys.executable, "-m", "checks.C09", "--fresh"], input=json.dumps(items), capture_output=True,
                       text=True, cwd=here, env=dict(os.environ), timeout=900)
    if p.returncode != 0:
        raise RuntimeError("fresh-process helper failed: " + p.stderr[-800:])
    return json.loads(p.stdout)


def nontrivial(case):
    if case["kind"] in ("assign-history", "assign-present"):
        return nontrivial({"kind": "assign", "matrix": case["matrix"]})
    if case["kind"] == "history":
        return any(any(st["supplies"]) for st in case["steps"]) and sum(1 for a in case["arcs"] if a[2] > 0) >= 2
    if case["kind"] == "assign":
        mat = case["matrix"]
        flat = [x for r in mat for x in r]
        return len(mat) >= 2 and len(mat[0]) >= 2 and len(set(flat)) >= 2
    return any(case["supplies"]) and sum(1 for a in case["arcs"] if a[2] > 0) >= 2


def case_key(case):
    if case["kind"] in ("history", "assign-history", "present", "assign-present"):
        return hash(json.dumps(case, sort_keys=True))
    if case["kind"] == "assign":
        return hash(("a", tuple(map(tuple, case["matrix"]))))
    return hash((case["n"], tuple(map(tuple, case["arcs"])), tuple(case["supplies"]), case.get("s"), case.get("t"),
                 case.get("labels", "int")))


def instance_shape(case):
    if case["kind"] in ("assign", "assign-history", "assign-present"):
        return "matrix"
    pairs = [(a[0], a[1]) for a in case["arcs"]]
    par = len(set(pairs)) < len(pairs)
    anti = any((v, u) in pairs for u, v in pairs)
    return ("parallel+anti-parallel arcs" if par and anti else "parallel arcs" if par else "anti-parallel arcs" if anti
            else "simple digraph")


def qualified(ob, case):
    """Obligation name reported for a violation: the clause plus the class of the instance ('@simple-digraph',
    '@parallel-arcs', ...), so that defects with different causes get their own replay files and known-finding entries."""
    if case["kind"] in ("assign", "assign-history", "assign-present"):
        return ob
    return ob + "@" + instance_shape(case).replace(" ", "-")


class Tally:
    def __init__(self):
        self.n = 0
        self.keys = []
        self.viol = []  # (obligation, case, detail) - a few smallest per obligation
        self.fails = {}  # obligation -> count
        self.failing_cases = 0
        self.timeouts = []  # (case, fname)
        self.calls = {}
        self.shape = {}  # "<function> | <instance shape>" -> number of cases with a failing clause or time-out of that function
        self.shape_to = {}  # same key -> number of sweep time-outs
        self.shape_calls = {}  # same key -> number of calls
        self.kept = {}
        self.max_iter = {}  # function -> largest Result.iterations seen
        self.skipped = 0  # big calls not made because the function had already timed out in this job

    def add(self, case, out, info):
        self.n += 1
        self.skipped += info.get("skipped", 0)
        for fn, it in (info.get("iters") or {}).items():
            if it > self.max_iter.get(fn, 0):
                self.max_iter[fn] = it
        if nontrivial(case):
            self.keys.append(case_key(case))
        shp = instance_shape(case)
        called = ["solve_assignment"] if case["kind"] in ("assign", "assign-present") else ["network_simplex"] + (["min_cost_flow"] if info.get("both") else [])
        ncalls = info.get("calls") or {fn: 1 for fn in called}
        for fn, c in ncalls.items():
            self.calls[fn] = self.calls.get(fn, 0) + c
            self.shape_calls[f"{fn} | {shp}"] = self.shape_calls.get(f"{fn} | {shp}", 0) + c
        real = [(ob, d) for ob, d in out if not ob.endswith("terminates")]
        for f in info["timeouts"]:
            self.timeouts.append((case, f))
        if real:
            self.failing_cases += 1
        for fn in {ob.split("/")[1] for ob, _ in real if ob != "C09/agree"}:
            k = f"{fn} | {shp}"
            self.shape[k] = self.shape.get(k, 0) + 1
        for fn in info["timeouts"]:
            k = f"{fn} | {shp}"
            self.shape_to[k] = self.shape_to.get(k, 0) + 1
        once = set()
        for ob, d in real:
            if ob in once:
                continue
            once.add(ob)
            self.fails[ob] = self.fails.get(ob, 0) + 1
            self.kept[(ob, shp)] = self.kept.get((ob, shp), 0) + 1
            if self.kept[(ob, shp)] <= 2:
                self.viol.append((ob, case, d))

    def pack(self):
        return (self.n, self.keys, self.viol, self.fails, self.failing_cases, self.timeouts[:400], len(self.timeouts),
                self.calls, {k: [self.shape.get(k, 0), self.shape_to.get(k, 0), c] for k, c in self.shape_calls.items()})


# ---------------------------------------------------------------------------------------------------- scopes
def arc_types(n, caps, costs):
    return [(u, v, c, w) for u in range(n) for v in range(n) if u != v for c in caps for w in costs]


def balanced_vectors(n, bmax):
    return [list(v) for v in itertools.product(range(-bmax, bmax + 1), repeat=n) if sum(v) == 0]


def exhaustive_jobs(n, k, caps, costs, bmax, variant):
    T = len(arc_types(n, caps, costs))
    if k <= 2:
        return [(n, k, (), caps, costs, bmax, variant)]
    return [(n, k, (i,), caps, costs, bmax, variant) for i in range(T)]


def w_exhaustive(job):
    from oracles.flow_exact import has_negative_cycle, mcf_brute
    n, k, prefix, caps, costs, bmax, variant = job
    types = arc_types(n, caps, costs)
    vecs = balanced_vectors(n, bmax)
    tl = Tally()
    lo = prefix[-1] if prefix else 0
    skipped = 0
    for rest in itertools.combinations_with_replacement(range(lo, len(types)), k - len(prefix)):
        arcs = [list(types[i]) for i in prefix + rest]
        if has_negative_cycle(n, arcs):
            skipped += 1
            continue
        if variant == "rev":
            arcs.reverse()
        for b in vecs:
            case = {"kind": "flow", "n": n, "arcs": arcs, "supplies": b, "s": 0, "t": n - 1}
            oracle = oracle_for(n, [tuple(a) for a in arcs], b)
            if k <= 3:  # cross-check the oracle itself by enumeration of all integral flows
                bf = mcf_brute(n, arcs, b)
                if (bf is None) != (oracle["status"] == "infeasible") or (bf is not None and bf != oracle["cost"]):
                    raise AssertionError(f"oracle disagrees with enumeration on {case}: {bf} vs {oracle}")
            out, info = eval_flow_case(case, oracle=oracle)
            tl.add(case, out, info)
    return tl.pack() + (skipped,)


def _maxflow(n, arcs, s, t):
    from oracles.flow_exact import edmonds_karp
    return edmonds_karp(n, [(a[0], a[1], a[2]) for a in arcs], s, t)[0]


def gen_network(rng, nmin, nmax):
    """Random network; negative costs only along a random topological order (no negative cycle can arise that way)
    unless the rejection test admits them."""
    from oracles.flow_exact import has_negative_cycle
    while True:
        n = rng.randint(nmin, nmax)
        style = rng.choice(("sparse", "sparse", "dense", "dag", "bipartite"))
        m = rng.randint(n - 1, 2 * n) if style != "dense" else rng.randint(2 * n, 3 * n)
        capmax = rng.choice((1, 2, 3, 4))
        neg = rng.random() < 0.3
        multi = rng.choice(("simple", "simple", "anti", "parallel", "both"))  # which kinds of repeated node pairs may occur
        p_par = 0.12 if multi in ("parallel", "both") else 0.0
        p_anti = 0.30 if multi in ("anti", "both") else p_par
        rank = list(range(n))
        rng.shuffle(rank)
        arcs = []
        half = max(1, n // 2)
        for _ in range(m):
            r = rng.random()
            if arcs and r < p_par:
                u, v = arcs[rng.randrange(len(arcs))][:2]  # parallel
            elif arcs and r < p_anti and style not in ("dag", "bipartite"):
                v, u = arcs[rng.randrange(len(arcs))][:2]  # anti-parallel
            elif style == "bipartite":
                u = rng.randrange(half)
                v = rng.randrange(half, n) if half < n else u
            else:
                u = rng.randrange(n)
                v = rng.randrange(n)
            if u == v:
                continue
            if style == "dag" and rank[u] > rank[v]:
                u, v = v, u
            have = {(a[0], a[1]) for a in arcs}
            if (multi in ("simple", "anti") and (u, v) in have) or (multi in ("simple", "parallel") and (v, u) in have):
                continue
            c = rng.choice((0, 1, 1, 2, capmax, capmax))
            w = rng.randint(0, 5) if rng.random() < 0.8 else rng.choice((0, 0, 1, 7))
            if neg and rng.random() < 0.35:
                w = -rng.randint(1, 3)
            arcs.append([u, v, c, w])
        if arcs and not has_negative_cycle(n, arcs):
            return n, arcs


def gen_flow_case(rng, nmin, nmax):
    n, arcs = gen_network(rng, nmin, nmax)
    r = rng.random()
    if r < 0.5:  # single source / single sink, demand around the interesting values
        s = rng.randrange(n)
        t = rng.choice([x for x in range(n) if x != s])
        mf = _maxflow(n, arcs, s, t)
        d = rng.choice((0, 1, mf, mf, mf + 1, rng.randint(0, mf + 1), max(mf - 1, 0)))
        b = [0] * n
        b[s] += d
        b[t] -= d
        case = {"kind": "flow", "n": n, "arcs": arcs, "supplies": b, "s": s, "t": t}
        if rng.random() < 0.2:
            case["labels"] = "str"
        return case
    if r < 0.85:  # supplies induced by a random flow: feasible by construction (sometimes saturating every arc)
        sat = rng.random() < 0.25
        b = [0] * n
        for u, v, c, _w in arcs:
            f = c if sat else rng.randint(0, c)
            b[u] += f
            b[v] -= f
        return {"kind": "flow", "n": n, "arcs": arcs, "supplies": b}
    b = [rng.randint(-2, 2) for _ in range(n - 1)]
    b.append(-sum(b))
    return {"kind": "flow", "n": n, "arcs": arcs, "supplies": b}


def gen_assign_case(rng, dmax):
    n, m = rng.randint(1, dmax), rng.randint(1, dmax)
    style = rng.random()
    if style < 0.4:
        vals = (0, 1, 2, 3)
    elif style < 0.6:
        vals = (0, 1)
    elif style < 0.8:
        vals = tuple(range(-5, 6))
    else:
        vals = (5, 5, 5, 7, 100)
    return {"kind": "assign", "matrix": [[rng.choice(vals) for _ in range(m)] for _ in range(n)]}


# ------------------------------------------------------------------------- round 2: beyond the small scope
def gen_big_network(rng, n, m):
    """n nodes, about m arcs: distinct ordered pairs (anti-parallel pairs occur by themselves), sometimes parallel duplicates;
    negative costs only through a potential shift of non-negative costs (no negative cycle possible)."""
    m = min(m, n * (n - 1))
    pairs = set()
    while len(pairs) < m:
        u, v = rng.randrange(n), rng.randrange(n)
        if u != v:
            pairs.add((u, v))
    pairs = sorted(pairs)
    rng.shuffle(pairs)
    multi = rng.choice(("simple", "simple", "simple", "multi"))
    neg = rng.random() < 0.25
    pot = [rng.randint(0, 5) if neg else 0 for _ in range(n)]  # cost + pot[u] - pot[v]: negative arcs, no negative cycle
    capmax = rng.choice((1, 3, 8, 8))
    costmax = rng.choice((3, 20, 20, 100))
    arcs = []
    for u, v in pairs:
        if multi == "multi" and arcs and rng.random() < 0.06:
            u, v = arcs[rng.randrange(len(arcs))][:2]
        arcs.append([u, v, rng.randint(0, capmax), rng.randint(0, costmax) + pot[u] - pot[v]])
    return arcs


def gen_ladder_case(rng, total):
    """Network whose arc count + node count is `total` (what a solver that adds one artificial arc per node sees)."""
    n = rng.randint(max(8, min(12, total // 6)), max(12, min(120, total // 5)))
    m = max(n, total - n)
    arcs = gen_big_network(rng, n, m)
    r = rng.random()
    if r < 0.45:  # one producer, one consumer: both solvers
        s = rng.randrange(n)
        t = rng.choice([x for x in range(n) if x != s])
        mf = _maxflow(n, arcs, s, t)
        d = rng.choice((mf, mf, max(mf - 1, 0), mf // 2, rng.randint(0, mf), mf + 1, 1))
        b = [0] * n
        b[s] += d
        b[t] -= d
        case = {"kind": "flow", "n": n, "arcs": arcs, "supplies": b, "s": s, "t": t}
        if rng.random() < 0.2:
            case["labels"] = "str"
        return case
    b = [0] * n
    if r < 0.85:  # supplies induced by a random flow: feasible, many producers and consumers
        dens = rng.choice((0.1, 0.3, 1.0))
        for u, v, c, _w in arcs:
            if rng.random() < dens:
                f = rng.randint(0, c)
                b[u] += f
                b[v] -= f
    else:  # a few random producers / consumers, often infeasible
        for _ in range(rng.randint(1, 4)):
            x, y = rng.sample(range(n), 2)
            q = rng.randint(1, 6)
            b[x] += q
            b[y] -= q
    return {"kind": "flow", "n": n, "arcs": arcs, "supplies": b}


BIGV = (10 ** 6, 10 ** 9, 2 ** 31)


def gen_magnitude_case(rng):
    """Small network, extreme but exactly representable numbers: equal costs (ties everywhere), base + {0, 1}, huge
    capacities, demands at exact multiples of the common capacity and one off."""
    from oracles.flow_exact import has_negative_cycle
    while True:
        n, arcs = gen_network(rng, 3, 7)
        seen = set()  # no parallel arcs here: splitting a pooled value of 10^9 units over parallel arcs cannot be enumerated
        arcs = [a for a in arcs if (a[0], a[1]) not in seen and not seen.add((a[0], a[1]))]
        cs = rng.choice(("ties", "gap1", "mixed", "keep"))
        base = rng.choice(BIGV)
        for a in arcs:
            if cs == "ties":
                a[3] = base if a[3] >= 0 else -1
            elif cs == "gap1":
                a[3] = base + rng.choice((0, 0, 1, -1))
            elif cs == "mixed":
                a[3] = rng.choice((0, 1, base, base + 1, a[3]))
        ks = rng.choice(("same", "big", "keep"))
        k = rng.choice((1, 2, 3, 10 ** 6, 2 ** 31 + 1))
        for a in arcs:
            if ks == "same":
                a[2] = k
            elif ks == "big":
                a[2] = rng.choice((0, 1, k, k + 1, 2 * k))
        if has_negative_cycle(n, arcs):
            continue
        s = rng.randrange(n)
        t = rng.choice([x for x in range(n) if x != s])
        mf = _maxflow(n, arcs, s, t)
        d = rng.choice((mf, mf, max(mf - 1, 0), mf + 1, k, 2 * k, max(k - 1, 0), k + 1, 0))
        b = [0] * n
        b[s] += d
        b[t] -= d
        return {"kind": "flow", "n": n, "arcs": arcs, "supplies": b, "s": s, "t": t}


def gen_history_case(rng):
    """2..5 solves on the same arc list / supply list / graph dict, edited in place in between."""
    from oracles.flow_exact import has_negative_cycle
    base = gen_flow_case(rng, 3, 7)
    n = base["n"]
    A = [list(a) for a in base["arcs"]]
    b = list(base["supplies"])
    shape = st_shape(b)
    s, t = (shape[0], shape[1]) if shape else (base.get("s", 0), base.get("t", n - 1))
    steps = [{"edits": [], "supplies": list(b), "s": s, "t": t}]
    for _ in range(rng.randint(1, 4)):
        edits = []
        kind = rng.random()
        if kind < 0.1:
            pass  # the same call again
        elif kind < 0.25:  # other demand / other terminals / other supply vector, networks untouched
            if rng.random() < 0.6:
                s, t = (s, t) if rng.random() < 0.5 else tuple(rng.sample(range(n), 2))
                d = rng.randint(0, max(1, _maxflow(n, A, s, t)) + 1)
                b = [0] * n
                b[s] += d
                b[t] -= d
            else:
                b = [rng.randint(-2, 2) for _ in range(n - 1)]
                b.append(-sum(b))
        else:
            for _ in range(rng.choice((1, 1, 1, 2, 3))):
                if not A:
                    break
                trial = [list(a) for a in A]
                op = rng.random()
                k = rng.randrange(len(trial))
                ed = []
                if op < 0.3:  # capacity only
                    old = trial[k][2]
                    trial[k][2] = rng.choice([x for x in (0, 1, 2, 3, old + 1, old + 2, max(old - 1, 0)) if x != old])
                    ed = [["set", k, trial[k][2], trial[k][3]]]
                elif op < 0.55:  # cost only
                    old = trial[k][3]
                    trial[k][3] = rng.choice([x for x in (0, 1, 2, 5, old + 1, old + 3, old - 1, 7) if x != old])
                    ed = [["set", k, trial[k][2], trial[k][3]]]
                elif op < 0.7:  # swap capacity and cost of two arcs: counts and totals unchanged
                    j = rng.randrange(len(trial))
                    trial[k][2:], trial[j][2:] = trial[j][2:], trial[k][2:]
                    ed = [["set", k, trial[k][2], trial[k][3]], ["set", j, trial[j][2], trial[j][3]]]
                elif op < 0.8:
                    x, y = rng.sample(range(n), 2)
                    trial.append([x, y, rng.randint(1, 3), rng.randint(0, 5)])
                    ed = [["add"] + trial[-1]]
                elif op < 0.88:
                    del trial[k]
                    ed = [["del", k]]
                elif op < 0.95:  # delete + add: arc count unchanged
                    del trial[k]
                    x, y = rng.sample(range(n), 2)
                    trial.append([x, y, rng.randint(1, 3), rng.randint(0, 5)])
                    ed = [["del", k], ["add"] + trial[-1]]
                else:
                    ed = [["rekey", trial[k][0]]]
                if has_negative_cycle(n, trial):
                    continue
                A = trial
                edits += ed
        steps.append({"edits": edits, "supplies": list(b), "s": s, "t": t})
    case = {"kind": "history", "n": n, "arcs": base["arcs"], "steps": steps}
    if base.get("labels"):
        case["labels"] = base["labels"]
    return case


def gen_assign_history(rng):
    base = gen_assign_case(rng, 5)["matrix"]
    n, m = len(base), len(base[0])
    steps = [[]]
    for _ in range(rng.randint(1, 3)):
        steps.append([] if rng.random() < 0.15 else
                     [[rng.randrange(n), rng.randrange(m), rng.choice((0, 1, 2, 3, -4, 9))] for _ in range(rng.randint(1, 3))])
    return {"kind": "assign-history", "matrix": base, "steps": steps}


def gen_big_assign(rng, d):
    n = d if rng.random() < 0.6 else rng.randint(max(1, d - 4), d)
    m = d if rng.random() < 0.6 else rng.randint(max(1, d - 4), d)
    vals = rng.choice(((0, 1, 2, 3), (0, 1), tuple(range(-5, 6)), tuple(range(0, 100)), (5, 5, 5, 7, 100)))
    return {"kind": "assign", "matrix": [[rng.choice(vals) for _ in range(m)] for _ in range(n)]}


def w_seeded(job):
    kind, seed, count, lo, hi = job
    rng = random.Random(seed)
    tl = Tally()
    lasts = []
    _BREAKER.clear()
    for _ in range(count):
        if kind == "assign":
            case = gen_assign_case(rng, hi)
        elif kind == "ladder":
            case = gen_ladder_case(rng, rng.randint(lo, hi))
        elif kind == "magnitude":
            case = gen_magnitude_case(rng)
        elif kind == "history":
            case = gen_history_case(rng)
            out, info, last = eval_history(case, want_last=True)
            tl.add(case, out, info)
            if not info["timeouts"] and not info.get("mutated") and len(lasts) < 12:
                lasts.append((case, last))
            continue
        elif kind == "assign-history":
            case = gen_assign_history(rng)
        elif kind == "big-assign":
            case = gen_big_assign(rng, hi)
        else:
            case = gen_flow_case(rng, lo, hi)
        out, info = eval_case(case)
        tl.add(case, out, info)
    return tl.pack() + (0, {"lasts": lasts, "max_iter": tl.max_iter, "skipped": tl.skipped})


def w_assign_exhaustive(job):
    n, m, vals, first = job
    tl = Tally()
    for rest in itertools.product(vals, repeat=n * m - 1):
        flat = (first,) + rest
        case = {"kind": "assign", "matrix": [list(flat[i * m:(i + 1) * m]) for i in range(n)]}
        out, info = eval_assign_case(case)
        tl.add(case, out, info)
    return tl.pack() + (0,)


# ----------------------------------------------------------- round 3: presentation diversity (generators, workers)
def random_pres(rng, scheme):
    pr = fp.random_pres(rng, scheme)
    three = ("int", "int", "float", "mixed")
    pr.update(demand=rng.choice(("int", "int", "float")), numcap=rng.choice(three), numcost=rng.choice(three),
              numsup=rng.choice(three), arcs_c=rng.choice(("list", "list", "tuple")), sup_c=rng.choice(("list", "list", "tuple")))
    return pr


def dress(base, rng, scheme=None):
    """A kind-'flow' case in a randomly chosen presentation."""
    n = base["n"]
    shape = st_shape(base["supplies"])
    s, t = (shape[0], shape[1]) if shape else (base.get("s", 0), base.get("t", n - 1))
    scheme = scheme or rng.choice(fp.LABEL_SCHEMES)
    labels, alias = fp.labels_for(scheme, n, s, t, rng)
    case = {"kind": "present", "n": n, "arcs": [list(a) for a in base["arcs"]], "supplies": list(base["supplies"]),
            "labels": labels, "alias": alias, "pres": random_pres(rng, scheme)}
    if "s" in base:
        case["s"], case["t"] = base["s"], base["t"]
    return case


def dress_assign(base, rng):
    return {"kind": "assign-present", "matrix": [list(r) for r in base["matrix"]],
            "pres": {"outer": rng.choice(("list", "list", "tuple")), "rows": rng.choice(("list", "tuple", "mixed")),
                     "num": rng.choice(("int", "float", "mixed", "mixed")), "seed": rng.randrange(1 << 30)}}


PRES_KEYS = ("scheme", "map", "adj", "arc", "num", "keys", "demand", "numcap", "numcost", "numsup", "arcs_c", "sup_c", "outer", "rows")


def pres_counts(counts, case):
    for k in PRES_KEYS:
        if k in case["pres"]:
            key = f"{'matrix ' if case['kind'] == 'assign-present' else ''}{k}={case['pres'][k]}"
            counts[key] = counts.get(key, 0) + 1


class _Schemes:
    def __init__(self, rng):
        self.i = rng.randrange(len(fp.LABEL_SCHEMES))

    def next(self):
        self.i += 1
        return fp.LABEL_SCHEMES[self.i % len(fp.LABEL_SCHEMES)]


def w_present_exh(job):
    """job = (n, k, prefix, caps, costs, bmax, seed, reps): as w_exhaustive, every (multiset, balanced supply vector) in `reps`
    presentations (label schemes round robin, arc order shuffled, the other transformers drawn per instance)."""
    from oracles.flow_exact import has_negative_cycle
    n, k, prefix, caps, costs, bmax, seed, reps = job
    rng = random.Random(seed)
    types = arc_types(n, caps, costs)
    vecs = balanced_vectors(n, bmax)
    tl = Tally()
    counts = {}
    sch = _Schemes(rng)
    lo = prefix[-1] if prefix else 0
    skipped = 0
    for rest in itertools.combinations_with_replacement(range(lo, len(types)), k - len(prefix)):
        arcs = [list(types[i]) for i in prefix + rest]
        if has_negative_cycle(n, arcs):
            skipped += 1
            continue
        rng.shuffle(arcs)
        for b in vecs:
            for _ in range(reps):
                case = dress({"kind": "flow", "n": n, "arcs": arcs, "supplies": b, "s": 0, "t": n - 1}, rng, sch.next())
                out, info = eval_present_case(case)
                tl.add(case, out, info)
                pres_counts(counts, case)
    return tl.pack() + (skipped, {"lasts": [], "max_iter": tl.max_iter, "skipped": 0, "pres": counts})


def w_present_seeded(job):
    kind, seed, count, lo, hi = job
    rng = random.Random(seed)
    tl = Tally()
    counts = {}
    sch = _Schemes(rng)
    for _ in range(count):
        if kind == "assign":
            case = dress_assign(gen_assign_case(rng, hi), rng)
        else:
            case = dress(gen_flow_case(rng, lo, hi), rng, sch.next())
        out, info = eval_case(case)
        tl.add(case, out, info)
        pres_counts(counts, case)
    return tl.pack() + (0, {"lasts": [], "max_iter": tl.max_iter, "skipped": 0, "pres": counts})


def w_present_list(job):
    bases, seed, reps = job
    rng = random.Random(seed)
    tl = Tally()
    counts = {}
    sch = _Schemes(rng)
    for b in bases:
        for _ in range(reps):
            case = dress_assign(b, rng) if b["kind"] == "assign" else dress(b, rng, sch.next())
            out, info = eval_case(case)
            tl.add(case, out, info)
            pres_counts(counts, case)
    return tl.pack() + (0, {"lasts": [], "max_iter": tl.max_iter, "skipped": 0, "pres": counts})


def w_confirm(item):
    case, fname = item
    only = None if case["kind"] in ("assign", "assign-present") else fname
    out, info = eval_case(case, budget=BUDGET2, only=only, budget_ns=BUDGET2_NS)
    return case, fname, fname in info["timeouts"], [(ob, d) for ob, d in out if not ob.endswith("terminates")]


def degenerate_cases():
    cs = []
    for n in (2, 3):
        for d in (0, 1, 2):
            b = [0] * n
            b[0], b[n - 1] = d, -d
            cs.append({"kind": "flow", "n": n, "arcs": [[0, n - 1, 0, 1]], "supplies": list(b), "s": 0, "t": n - 1})
            cs.append({"kind": "flow", "n": n, "arcs": [[n - 1, 0, 2, 1]], "supplies": list(b), "s": 0, "t": n - 1})
            cs.append({"kind": "flow", "n": n, "arcs": [[0, n - 1, 1, -2], [0, n - 1, 1, 3], [0, n - 1, 0, -5]],
                       "supplies": list(b), "s": 0, "t": n - 1})
    cs.append({"kind": "flow", "n": 3, "arcs": [[0, 1, 1, 1]], "supplies": [0, 0, 0]})
    cs.append({"kind": "flow", "n": 3, "arcs": [[0, 1, 1, 1]], "supplies": [1, 0, -1]})
    for mat in ([[0]], [[5]], [[-3]], [[1, 2]], [[2], [1]], [[0, 0], [0, 0]], [[1, 1], [1, 1]], [[3, 1, 2]], [[3], [1], [2]]):
        cs.append({"kind": "assign", "matrix": mat})
    return cs


def w_list(cases):
    tl = Tally()
    for case in cases:
        out, info = eval_case(case)
        tl.add(case, out, info)
    return tl.pack() + (0,)


# ------------------------------------------------------------------------------------------------------- run
def _size(case):
    if case["kind"] in ("assign", "assign-history", "assign-present"):
        return (len(case["matrix"]) * len(case["matrix"][0]) if case["matrix"] else 0, len(case.get("steps", [])), 0)
    if case["kind"] == "history":
        return (case["n"], len(case["arcs"]) + sum(1 + len(st["edits"]) for st in case["steps"]),
                sum(a[2] + abs(a[3]) for a in case["arcs"]))
    return (case["n"], len(case["arcs"]), sum(abs(b) for b in case["supplies"]) + sum(a[2] + abs(a[3]) for a in case["arcs"]))


def run(ctx: Ctx):
    from vf.prove import prove
    prove(ctx, ["specs.cutting"], "C09")  # deductive part (specs/cutting.py)
    use_repo()
    import solvor.flow  # noqa: imported before forking so that the pool workers inherit it
    import solvor.network_simplex  # noqa
    import oracles.flow_exact  # noqa
    rng = random.Random(ctx.seed)
    notes = {}
    all_timeouts = []
    lasts_all = []
    pending = []  # (obligation, case, detail) from all scopes; the smallest per (obligation, instance shape) are reported

    def scope_run(name, results, **desc):
        n = n_skip = 0
        max_iter = {}
        pres_n = {}
        fails, calls, shapes = {}, {}, {}
        viol = []
        failing_cases = n_to = skipped = 0
        for r in results:
            rn, keys, rviol, rfails, rfc, touts, ntouts, rcalls, rshape, rskip = r[:10]
            if len(r) > 10:
                for k_, c_ in r[10].get("pres", {}).items():
                    pres_n[k_] = pres_n.get(k_, 0) + c_
                lasts_all.extend(r[10]["lasts"])
                n_skip += r[10]["skipped"]
                for fn, it in r[10]["max_iter"].items():
                    max_iter[fn] = max(max_iter.get(fn, 0), it)
            for k, (c_fail, c_to, c_all) in rshape.items():
                cur = shapes.setdefault(k, {"wrong_result": 0, "sweep_timeouts": 0, "calls": 0})
                cur["wrong_result"] += c_fail
                cur["sweep_timeouts"] += c_to
                cur["calls"] += c_all
            n += rn
            ctx.count(rn, keys)
            for ob, c in rfails.items():
                fails[ob] = fails.get(ob, 0) + c
            for f, c in rcalls.items():
                calls[f] = calls.get(f, 0) + c
            failing_cases += rfc
            n_to += ntouts
            skipped += rskip
            viol += rviol
            all_timeouts.extend(touts)
        ctx.scope(name, evaluations=n, calls=calls, cases_with_a_failing_clause=failing_cases, failing_by_obligation=fails,
                  outcome_by_function_and_instance_shape=shapes, sweep_timeouts=n_to,
                  skipped_negative_cycle=skipped, **({"largest_iteration_count_reported": max_iter} if max_iter else {}),
                  **({"big_calls_skipped_after_a_timeout_in_the_same_job": n_skip} if n_skip else {}),
                  **({"presentations_measured": dict(sorted(pres_n.items()))} if pres_n else {}), **desc)
        notes[name] = {"evaluations": n, "calls": calls, "cases_with_a_failing_clause": failing_cases,
                       "failing_by_obligation": fails, "outcome_by_function_and_instance_shape": shapes,
                       "sweep_timeouts": n_to}
        pending.extend(viol)

    full_costs = (-2, -1, 0, 1, 2, 3)
    if ctx.quick:
        plan = [  # (n, max arcs, caps, costs, bmax, variants)
            (2, 3, (0, 1, 2), full_costs, 2, ("fwd",)),
            (3, 3, (1, 2), (0, 1, 3), 2, ("fwd",)),
            (3, 2, (0, 1, 2), full_costs, 2, ("fwd",)),
        ]
    else:
        plan = [
            (2, 4, (0, 1, 2), full_costs, 2, ("fwd", "rev")),
            (3, 3, (0, 1, 2), (-1, 0, 1, 2), 2, ("fwd",)),
            (3, 3, (1, 2), (0, 1, 3), 2, ("fwd", "rev")),
            (3, 4, (1, 2), (0, 1, 3), 1, ("fwd",)),
            (4, 3, (1, 2), (0, 1, 3), 1, ("fwd",)),
            (4, 4, (1,), (0, 2), 1, ("fwd",)),
        ]
    for n, K, caps, costs, bmax, variants in plan:
        jobs = []
        for variant in variants:
            for k in range(0 if variant == "fwd" else 2, K + 1):
                jobs += exhaustive_jobs(n, k, caps, costs, bmax, variant)
        rng.shuffle(jobs)
        scope_run(f"exhaustive n={n} arcs<={K} caps={list(caps)} costs={list(costs)} |supply|<={bmax} {'+'.join(variants)}",
                  pmap(w_exhaustive, jobs), nodes=n, max_arcs=K, capacities=list(caps), costs=list(costs),
                  supplies=f"all balanced vectors with entries in -{bmax}..{bmax}; min_cost_flow also runs when there is one "
                           f"producer and one consumer (and for the zero vector with s=0, t=n-1)",
                  arcs="multisets of (u,v,cap,cost), u != v: parallel, anti-parallel, into-source, out-of-sink; networks with a "
                       "negative-cost cycle skipped", insertion_order=list(variants), exhaustive=True)

    scope_run("degenerate shapes", [w_list(degenerate_cases())], exhaustive=True)

    # assignment, exhaustive
    aplan = [(2, 2, (0, 1, 2, 3)), (2, 3, (0, 1, 2)), (3, 2, (0, 1, 2)), (3, 3, (0, 1, 2))]
    if not ctx.quick:
        aplan += [(3, 3, (0, 1, 2, 3)), (4, 4, (0, 1)), (2, 4, (0, 1, 2, 3)), (4, 2, (0, 1, 2, 3)), (1, 4, (-1, 0, 2)), (4, 1, (-1, 0, 2))]
    jobs = []
    for n, m, vals in aplan:
        jobs += [(n, m, vals, f) for f in vals]
    # split the big ones further by shuffling only; each job is one first-entry slice
    scope_run("solve_assignment exhaustive matrices", pmap(w_assign_exhaustive, jobs, chunksize=1),
              shapes=[f"{n}x{m} over {list(v)}" for n, m, v in aplan], exhaustive=True)

    per = 200
    nj = 200 if ctx.quick else 3000
    jobs = [("flow", rng.randrange(1 << 60), per, 3, 8) for _ in range(nj)]
    scope_run("random networks", pmap(w_seeded, jobs), runs=nj * per, nodes="3..8", capacities="0..4", costs="-3..7",
              features="parallel, anti-parallel, zero-capacity, negative costs (no negative cycle), DAG / bipartite / dense "
                       "shapes; demand in {0,1,maxflow-1,maxflow,maxflow+1}; supplies induced by a random or saturating flow; "
                       "random balanced supplies; string labels")
    nj = 20 if ctx.quick else 400
    jobs = [("assign", rng.randrange(1 << 60), per, 1, 6) for _ in range(nj)]
    scope_run("random assignment matrices", pmap(w_seeded, jobs), runs=nj * per, shape="1..6 x 1..6",
              values="{0..3} | {0,1} | -5..5 | {5,7,100} with many ties")

    # ---- round 2: size ladder (arc count + node count around the powers of two and round numbers), certificate oracles
    if ctx.quick:
        ladder = [(20, 49, 96), (50, 100, 48), (120, 127, 32), (128, 128, 16), (129, 140, 64), (141, 255, 96), (256, 257, 16), (258, 300, 48),
                  (301, 520, 32), (521, 600, 8)]
    else:
        ladder = [(20, 49, 2400), (50, 100, 800), (120, 127, 400), (128, 128, 200), (129, 140, 800), (141, 255, 1600), (256, 257, 300),
                  (258, 300, 800), (301, 511, 600), (512, 513, 200), (514, 600, 300), (1000, 1100, 96), (2040, 2100, 32)]
    jobs = []
    for lo, hi, cnt in ladder:
        per_job = max(1, min(8, 1200 // hi))
        jobs += [("ladder", rng.randrange(1 << 60), per_job, lo, hi) for _ in range(max(1, cnt // per_job))]
    jobs.sort(key=lambda j: -j[4])
    scope_run(f"size ladder: networks with {ladder[0][0]}..{ladder[-1][1]} arcs+nodes (certifying oracles above 40 arcs)", pmap(w_seeded, jobs, chunksize=1),
              arcs_plus_nodes={f"{lo}..{hi}": cnt for lo, hi, cnt in ladder}, nodes="8..120", capacities="0..8", costs="-5..100",
              shapes="45% one producer/one consumer with demand in {maxflow, maxflow-1, maxflow/2, random, maxflow+1, 1} (both "
                     "solvers, agreement); 40% supplies induced by a random flow; 15% a few random producers/consumers; 25% "
                     "of the networks carry parallel/anti-parallel duplicates, 25% negative costs (potential-shifted)",
              oracle="independent successive-shortest-path solver certified by potentials / violated cut; returned flow certified "
                     "on its own (feasible + no negative residual cycle)")
    dims = [(8, 40), (12, 24), (17, 8), (33, 2)] if ctx.quick else [(8, 600), (12, 400), (17, 200), (33, 60), (65, 16)]
    jobs = []
    for d, cnt in dims:
        per_job = max(1, 64 // d)
        jobs += [("big-assign", rng.randrange(1 << 60), per_job, 0, d) for _ in range(max(1, cnt // per_job))]
    jobs.sort(key=lambda j: -j[4])
    scope_run("solve_assignment beyond brute force (Hungarian method with dual certificate)", pmap(w_seeded, jobs, chunksize=1),
              dimensions={str(d): cnt for d, cnt in dims}, shape="d x d (60%) or (d-4..d) x (d-4..d)",
              values="{0..3} | {0,1} | -5..5 | 0..99 | {5,7,100}")

    # ---- round 2: magnitudes and ties
    nj = 48 if ctx.quick else 800
    jobs = [("magnitude", rng.randrange(1 << 60), per, 3, 7) for _ in range(nj)]
    scope_run("magnitudes and ties", pmap(w_seeded, jobs), runs=nj * per, nodes="3..7",
              costs="all equal to 10^6 | 10^9 | 2^31; base + {-1,0,1}; mixed {0,1,base,base+1}", capacities="all equal k | {0,1,k,k+1,2k}, "
              "k in {1,2,3,10^6,2^31+1}", demand="maxflow, maxflow +- 1, k, 2k, k +- 1, 0")

    # ---- round 2: history mode
    nj = 64 if ctx.quick else 1200
    jobs = [("history", rng.randrange(1 << 60), per, 3, 7) for _ in range(nj)]
    scope_run("history mode: same arc list / supply list / graph dict, in-place edits between calls", pmap(w_seeded, jobs),
              sequences=nj * per, calls_per_sequence="2..5",
              edits="capacity replaced, cost replaced, capacity+cost of two arcs swapped (counts and totals unchanged), arc added, "
                    "arc deleted, delete+add, key re-inserted; other demand / terminals / supply vector on untouched networks; "
                    "same call repeated", base="random networks with 3..7 nodes")
    nj = 16 if ctx.quick else 300
    jobs = [("assign-history", rng.randrange(1 << 60), per, 0, 5) for _ in range(nj)]
    scope_run("history mode: same cost matrix object, cells edited in place", pmap(w_seeded, jobs), sequences=nj * per,
              calls_per_sequence="2..4", shape="1..5 x 1..5")
    fresh = fresh_process([l for _c, l in lasts_all])
    n_diff = 0
    for (case, last), got in zip(lasts_all, fresh):
        for key, fname in (("r_n", "network_simplex"), ("r_m", "min_cost_flow")):
            if last.get(key) is not None and json.loads(json.dumps(last[key])) != got.get(key):
                n_diff += 1
                if n_diff <= 2:
                    ctx.violation(f"C09/{fname}/frame:result-independent-of-call-history", case,
                                  f"last call of the sequence returned {str(last[key])[:200]}; a fresh interpreter on equal, newly "
                                  f"built objects returns {str(got.get(key))[:200]}")
    ctx.count(len(fresh), ())
    ctx.scope("history mode: last call of a sequence vs. fresh process", evaluations=len(fresh), differing=n_diff,
              how="`python -m checks.C09 --fresh`: new interpreter, equal arc list / supply list / graph dict built from scratch; "
                  "status, objective and flow dictionary must be identical")

    # ---- round 3: presentation diversity
    what = dict(labels_min_cost_flow={k: fp.SCHEME_DOC[k] for k in fp.LABEL_SCHEMES},
                numbers="capacity / cost (per arc), demand, supplies: int | float with integral value | mixed with an int first",
                containers="min_cost_flow: dict | defaultdict(list) | OrderedDict, adjacency list | tuple, arc records tuple | list; "
                           "network_simplex: arcs list | tuple of tuples | lists, supplies list | tuple; solve_assignment: list | tuple "
                           "of list | tuple rows", keys=fp.KEY_DOC,
                clauses="all ensures clauses on the plain instance + frame:inputs-unchanged + frame:same-call-same-answer; every "
                        "solver is called twice per instance")
    reps = 1 if ctx.quick else 6
    if ctx.quick:
        pplan = [(2, 3, (0, 1, 2), (-1, 0, 2), 2), (3, 2, (1, 2), (-1, 0, 2), 1)]
    else:
        pplan = [(2, 3, (0, 1, 2), full_costs, 2), (3, 2, (0, 1, 2), (-1, 0, 1, 2), 2), (3, 3, (1, 2), (0, 1, 3), 1), (4, 2, (1, 2), (0, 1, 3), 1)]
    jobs = []
    for n, K, caps, costs, bmax in pplan:
        for k in range(0, K + 1):
            jobs += [j[:6] + (rng.randrange(1 << 60), reps) for j in exhaustive_jobs(n, k, caps, costs, bmax, "fwd")]
    rng.shuffle(jobs)
    scope_run("presentation diversity: exhaustive small networks", pmap(w_present_exh, jobs),
              plans=[f"n={n} arcs<={K} caps={list(caps)} costs={list(costs)} |supply|<={bmax}" for n, K, caps, costs, bmax in pplan],
              presentations_per_instance=reps, exhaustive=True, **what)
    bases = degenerate_cases()
    scope_run("presentation diversity: degenerate shapes", [w_present_list((bases, rng.randrange(1 << 60), 13 if ctx.quick else 52))],
              bases=len(bases), **what)
    nj = 60 if ctx.quick else 1500
    jobs = [("flow", rng.randrange(1 << 60), per, 3, 8) for _ in range(nj)]
    scope_run("presentation diversity: random networks", pmap(w_present_seeded, jobs), runs=nj * per, nodes="3..8", **what)
    nj = 12 if ctx.quick else 300
    jobs = [("assign", rng.randrange(1 << 60), per, 1, 6) for _ in range(nj)]
    abases = [{"kind": "assign", "matrix": [list(f[i * m:(i + 1) * m]) for i in range(n)]}
              for n, m, vals in ((2, 2, (0, 1, 2, 3)), (2, 3, (0, 1, 2)), (3, 2, (0, 1, 2))) for f in itertools.product(vals, repeat=n * m)]
    chunks = [(abases[i::16], rng.randrange(1 << 60), 1 if ctx.quick else 4) for i in range(16)]
    scope_run("presentation diversity: assignment matrices", pmap(w_present_seeded, jobs) + pmap(w_present_list, chunks, chunksize=1),
              random_runs=nj * per, shape="1..6 x 1..6", exhaustive_bases="2x2 over 0..3, 2x3 and 3x2 over 0..2", **what)

    pending.sort(key=lambda v: _size(v[1]))
    seen = {}
    for ob, case, detail in pending:
        k = qualified(ob, case)
        seen[k] = seen.get(k, 0) + 1
        if seen[k] <= 1:  # the smallest case per (clause, instance class); vf.core writes replay files for the first 40
            ctx.violation(k, case, detail, extra={"call_site": instance_shape(case)})

    # ---- sweep time-outs: re-run alone (few at a time, larger CPU budget) before believing them
    all_timeouts.sort(key=lambda cf: _size(cf[0]))
    by_f = {}
    for case, f in all_timeouts:
        by_f.setdefault(f"{f} | {instance_shape(case)}", []).append((case, f))
    cap_n = 3 if ctx.quick else 12
    todo = []
    for f, lst in by_f.items():
        todo += lst[:cap_n] if not f.startswith("network_simplex") else lst[:max(1, cap_n // 3)]
    todo.sort(key=lambda cf: cf[1] != "network_simplex")  # the long ones first
    confirmed = {}
    if todo:
        for case, fname, still, other in pmap(w_confirm, todo, procs=16, chunksize=1):
            if still:
                confirmed[fname] = confirmed.get(fname, 0) + 1
                kq = qualified(f"C09/{fname}/ensures:terminates", case)
                seen[kq] = seen.get(kq, 0) + 1
                if seen[kq] <= 1:
                    ctx.violation(qualified(f"C09/{fname}/ensures:terminates", case), case,
                                  f"no result within {BUDGET2_NS if fname == 'network_simplex' else BUDGET2} CPU-seconds when run alone "
                                  f"(sweep budget {BUDGET1} s; median call < 1 ms)",
                                  extra={"call_site": instance_shape(case)})
            else:
                for ob, d in other:
                    ctx.violation(qualified(ob, case), case, d, extra={"call_site": instance_shape(case)})
    ctx.notes["timeouts"] = {"sweep_timeouts_by_function": {f: len(v) for f, v in by_f.items()},
                             "rerun_alone": len(todo), "confirmed_by_function": confirmed,
                             "note": "the sweep list is capped at 400 per worker job; only the smallest cases are re-run"}
    ctx.notes["scope_results"] = notes
    ctx.exhaustive = True
    srng = random.Random(ctx.seed + 1)
    ctx.count(0, (), [gen_flow_case(srng, 3, 6), gen_flow_case(srng, 3, 6), gen_assign_case(srng, 4), gen_history_case(srng),
                      gen_magnitude_case(srng)])
    ctx.rule = ("flow case = (n, ordered arc list (u,v,cap,cost), supply vector); network_simplex is called on every case, "
                "min_cost_flow (graph dict built in arc order) on the cases with one producer and one consumer, and the two are "
                "compared there; assignment case = cost matrix. Every Result is checked clause by clause against the exact "
                "optimum (oracle certified by potentials / violated cut; enumeration of all flows on networks with <= 3 arcs). "
                "Networks with more than 40 arcs (size ladder) are decided by certificates instead: reference optimum certified by "
                "potentials / cut, returned flow certified by the absence of a negative residual cycle. A history case = initial "
                "network + steps (in-place edits, supply vector, terminals); both solvers are called after every step on the same "
                "list / dict objects and judged against the network as it is then. "
                "non-trivial = some non-zero supply and >= 2 arcs of positive capacity (assignment: >= 2x2 with >= 2 distinct "
                "entries); distinct = different (n, ordered arcs, supplies, s, t, labels, steps) / matrix. A presented case (kind "
                "'present' / 'assign-present') = plain instance + label specs + presentation record; the solver inputs are built "
                "from it deterministically, every solver is called twice on them, answers are mapped back and judged on the plain "
                "instance; distinct also by labels and presentation record.")
    ctx.assumptions += [
        "domain: integer capacities >= 0, integer costs, no negative-cost directed cycle among the arcs (capacities ignored), "
        "integer supplies summing to 0 / demand >= 0, source != sink, no self-loops",
        "parallel arcs: the solvers report one pooled value per node pair; 'cost equals sum of cost x flow' is read as: some split "
        "of the pooled value over the parallel arcs within their capacities has that cost",
        "termination: min_cost_flow / solve_assignment calls that use more than 1 CPU-second alone on <= 8 nodes (median < 1 ms), "
        "network_simplex calls that use more than 40 CPU-seconds (its own max_iter=10^6 pivots need 2-10 s there), are reported as not "
        "terminating; sweep time-outs beyond the re-run cap are counted in coverage.timeouts, not judged",
        "LP duality for min-cost flow (feasible flow + potentials with complementary slackness => optimal); Gale's cut condition",
    ]
    ctx.assumptions += [
        "history mode: the caller edits its own objects in place between calls (tuples replaced, appended, deleted; dict keys "
        "re-inserted; supply entries overwritten); each call is an input inside the quantifier and is judged on its own",
        f"size ladder: calls on networks with more than {BIG} arcs get max(0.5, arcs/300) CPU-seconds in the sweep (>= 40x the "
        "slowest call on the unchanged tree) and 10x that when re-run alone before 'terminates' is reported; after a sweep time-out "
        "the remaining big calls of that function in the same worker job are skipped and counted",
        "a feasible flow is of minimum cost iff its residual network has no negative-cost cycle (used to certify returned flows)",
    ]
    ctx.assumptions += [
        "presentation diversity: the statement quantifies over networks, not over Python spellings; min_cost_flow is generic in "
        "`Node`, so any pairwise different hashable labels are used (equal values of different type, 2 / 2.0 / True, name the same "
        "node); the annotated containers are read by duck typing (dict subclasses, tuple for list, list for tuple) and an integer "
        "may be spelled as a float with integral value; non-integral numbers, bools and one-shot iterables are not used",
    ]
    ctx.trusted += ["oracles/flow_exact.py: mcf_exact / mcf_spfa (both only through certify_optimal / certify_infeasible), mcf_brute, "
                    "decomposition_costs, pooled_flow_defects, split_pooled, negative_residual_cycle, assignment_brute, "
                    "hungarian (only through certify_assignment)"]


def replay(rec):
    use_repo()
    case = rec["case"]
    ob = rec.get("obligation", "")
    out, info = eval_case(case, budget=BUDGET2, budget_ns=BUDGET2_NS)
    print("case:", case if len(str(case)) < 4000 else str(case)[:4000] + "...")
    if "frame:result-independent" in ob:
        _o, _i, last = eval_history(case, BUDGET2, BUDGET2_NS, want_last=True)
        got = fresh_process([last])[0]
        key = "r_n" if "network_simplex" in ob else "r_m"
        print("in-process, last call of the sequence:", last[key])
        print("fresh process, equal objects         :", got.get(key))
        return 1 if json.loads(json.dumps(last[key])) != got.get(key) else 0
    if case["kind"] in ("flow", "present"):
        o = oracle_for(case["n"], [tuple(a) for a in case["arcs"]], list(case["supplies"]))
        print("oracle:", {k: v for k, v in o.items()})
    if case["kind"] == "present":
        pm = present_mcf(case)
        if pm is not None:
            print(f"presented call: min_cost_flow({pm[0]!r}, {pm[2]!r}, {pm[3]!r}, {pm[4]!r})  [twice on the same object]")
        A, B = present_ns(case)
        print(f"presented call: network_simplex({case['n']}, {A!r}, {B!r})  [twice on the same objects]")
    if case["kind"] == "assign-present":
        print(f"presented call: solve_assignment({fp.present_matrix(case['matrix'], case['pres'])!r})  [twice on the same object]")
    for o_, d in out:
        print("replay:", o_, "::", d)
    hit = [o_ for o_, _ in out if o_ == ob.split("@")[0]] or out
    if not out:
        print("replay: no violation")
    return 1 if hit else 0


if __name__ == "__main__":
    if sys.argv[1:] == ["--fresh"]:
        use_repo()
        print(json.dumps([fresh_eval(it) for it in json.load(sys.stdin)]))

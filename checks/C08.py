"""C08 - max_flow returns a feasible flow whose value is the maximum (bounded back end).

Contract (from the property statement, nothing more), evaluated on the real solvor.flow.max_flow:
  ensures:capacity      0 <= f(u,v) <= sum of the capacities of the parallel arcs u->v, f integral
  ensures:conservation  inflow == outflow at every node other than source and sink
  ensures:objective     net inflow at the sink == Result.objective
  ensures:maximum       Result.objective == capacity of a minimum source-sink cut (oracle)
  ensures:no-augmenting-path   the sink is not reachable from the source in the residual network of the returned flow
Domain: directed graphs, non-negative integer capacities, source != sink (a source-sink cut must exist).
Oracles (oracles/flow_exact.py): reference Edmonds-Karp on an explicit residual multigraph, self-certifying
(feasible flow of value v + saturated cut of capacity v), cross-checked with brute force over all cuts for n <= 8.
"""
from __future__ import annotations

import itertools
import random
import signal

from vf.core import Ctx, use_repo
from vf.pool import pmap

LEVEL = "exploration"
P = "C08/max_flow/"
TIMEOUT_S = 5.0


class _Timeout(Exception):
    pass


def _on_alarm(*_a):
    raise _Timeout()


# ----------------------------------------------------------------------------------------------- case -> call
def mk_label(spec):
    if isinstance(spec, dict):
        return tuple(mk_label(x) for x in spec["t"])
    return spec


LABEL_SCHEMES = ("int", "str", "tuple", "neg", "mixed", "falsy")


def labels_for(scheme, n, s, t):
    if scheme == "int":
        return list(range(n))
    if scheme == "str":
        return [f"v{i}" for i in range(n)]
    if scheme == "tuple":
        return [{"t": [i // 3, i % 3]} for i in range(n)]
    if scheme == "neg":
        return [-(i * 7 + 1) for i in range(n)]
    if scheme == "mixed":
        return [(i, f"s{i}", {"t": [i, "x"]})[i % 3] for i in range(n)]
    if scheme == "falsy":  # source is 0 / sink is "" : labels that are falsy in a truth test
        lab = [i + 10 for i in range(n)]
        lab[s] = 0
        lab[t] = ""
        return lab
    raise ValueError(scheme)


def build_graph(case):
    """case: n, arcs [[u,v,cap]...] (insertion order), s, t, labels (list of specs), form (2|3), isolated (ids
    that get an empty adjacency list first)."""
    lab = [mk_label(x) for x in case["labels"]]
    g = {}
    for x in case.get("isolated", []):
        g[lab[x]] = []
    for i, (u, v, c) in enumerate(case["arcs"]):
        tup = (lab[v], c) if case.get("form", 2) == 2 else (lab[v], c, (i * 5) % 7 - 3)
        g.setdefault(lab[u], []).append(tup)
    return g, lab


def eval_case(case):
    """Returns (list of (obligation, detail), info dict).  info: value, used_reverse, nontrivial."""
    from oracles.flow_exact import edmonds_karp, min_cut_brute, st_flow_defects
    from solvor.flow import max_flow

    n, s, t = case["n"], case["s"], case["t"]
    arcs = [tuple(a) for a in case["arcs"]]
    value, _fl, closed, used_rev = edmonds_karp(n, arcs, s, t)
    if n <= 8:
        bv, _ = min_cut_brute(n, arcs, s, t)
        if bv != value:
            raise AssertionError(f"oracles disagree: Edmonds-Karp {value}, brute-force min cut {bv} on {case}")
    info = {"value": value, "used_reverse": used_rev}
    g, lab = build_graph(case)
    back = {}
    for i, l in enumerate(lab):
        back[l] = i
    signal.signal(signal.SIGVTALRM, _on_alarm)  # CPU-time guard (machine load cannot fake a hang)
    signal.setitimer(signal.ITIMER_VIRTUAL, TIMEOUT_S)
    try:
        res = max_flow(g, lab[s], lab[t])
    except _Timeout:
        info["timeout"] = True
        return [], info
    except Exception as e:  # noqa
        return [(P + "ensures:returns", f"raised {type(e).__name__}: {e}")], info
    finally:
        signal.setitimer(signal.ITIMER_VIRTUAL, 0)
    out = []
    sol = res.solution
    if not isinstance(sol, dict):
        return [(P + "ensures:returns", f"solution is {type(sol).__name__}, not a flow dictionary")], info
    fl = {}
    for key, f in sol.items():
        if not (isinstance(key, tuple) and len(key) == 2 and key[0] in back and key[1] in back):
            out.append((P + "ensures:capacity", f"flow key {key!r} is not a pair of nodes of the graph"))
            continue
        fl[(back[key[0]], back[key[1]])] = f
    bad, net_t, _net_s, augmenting = st_flow_defects(n, arcs, s, t, fl)
    for b in bad:
        ob = "ensures:conservation" if b.startswith("conservation") else "ensures:capacity"
        out.append((P + ob, b))
    if res.objective != net_t:
        out.append((P + "ensures:objective", f"objective {res.objective!r} but net inflow at the sink is {net_t}"))
    if res.objective != value:
        out.append((P + "ensures:maximum", f"objective {res.objective!r}, minimum cut {value} (closed set {closed})"))
    if not bad and augmenting:
        out.append((P + "ensures:no-augmenting-path",
                    f"sink still reachable in the residual network of the returned flow (value {net_t}, max {value})"))
    return out, info


def case_key(case):
    return hash((case["n"], case["s"], case["t"], tuple(map(tuple, case["arcs"])), repr(case["labels"]),
                 case.get("form", 2), tuple(case.get("isolated", []))))


def run_cases(cases):
    """Worker body: list of cases -> (n_eval, nontrivial keys, violations, n_reverse, timeouts)."""
    keys, viol, nrev, touts = [], [], 0, []
    per_ob = {}
    for case in cases:
        out, info = eval_case(case)
        if info.get("timeout"):
            touts.append(case)
        if info["value"] >= 1:
            keys.append(case_key(case))
        if info["used_reverse"]:
            nrev += 1
        for ob, detail in out:
            per_ob[ob] = per_ob.get(ob, 0) + 1
            if per_ob[ob] <= 3:
                viol.append((ob, case, detail))
    return len(cases), keys, viol, nrev, touts, per_ob


# --------------------------------------------------------------------------------------------------- scopes
def arc_types(n, caps):
    return [(u, v, c) for u in range(n) for v in range(n) if u != v for c in caps]


def w_exhaustive(job):
    """job = (n, k, prefix, caps, variant).  All multisets (non-decreasing index tuples) of k arc types that start
    with `prefix` (a non-decreasing tuple of at most 2 indices)."""
    n, k, prefix, caps, variant = job
    types = arc_types(n, caps)
    cases = []
    lo = prefix[-1] if prefix else 0
    for rest in itertools.combinations_with_replacement(range(lo, len(types)), k - len(prefix)):
        arcs = [list(types[i]) for i in prefix + rest]
        if variant == "rev":
            arcs.reverse()
        cases.append({"n": n, "arcs": arcs, "s": 0, "t": n - 1, "labels": list(range(n)), "form": 2})
    return run_cases(cases)


def exhaustive_jobs(n, k, caps, variant):
    T = len(arc_types(n, caps))
    if k <= 2:
        return [(n, k, (), caps, variant)]
    return [(n, k, (i, j), caps, variant) for i in range(T) for j in range(i, T)]


# the 6-node crossing template: s=0 a=1 c=2 b=3 e=4 t=5.  BFS finds s-a-b-t first when a precedes c in s's list
# and b precedes e in a's list; the maximum needs s-c-b ~> a-e-t, i.e. cancelling a->b over the residual twin b->a.
T6_BASE = [(0, 1), (0, 2), (1, 3), (1, 4), (2, 3), (3, 5), (4, 5)]


def t6_cases():
    cases = []
    for caps in itertools.product((1, 2), repeat=7):
        for s_order in (0, 1):
            for a_order in (0, 1):
                for rev in (None, 0, 1):  # anti-parallel arc b->a absent / capacity 0 / capacity 1
                    arcs = {u: [] for u in range(6)}
                    for (u, v), c in zip(T6_BASE, caps):
                        arcs[u].append([u, v, c])
                    if s_order:
                        arcs[0].reverse()
                    if a_order:
                        arcs[1].reverse()
                    if rev is not None:
                        arcs[3].append([3, 1, rev])
                    flat = [a for u in range(6) for a in arcs[u]]
                    cases.append({"n": 6, "arcs": flat, "s": 0, "t": 5, "labels": list(range(6)), "form": 2})
    return cases


def gen_layered(rng):
    """Layered graph with crossing arcs: forward arcs between consecutive layers with small capacities (so that
    the first shortest augmenting paths saturate them) plus skip / back / in-layer arcs; adjacency order shuffled."""
    widths = [rng.randint(1, 3) for _ in range(rng.randint(2, 4))]
    layers = [[0]]
    nid = 1
    for w in widths:
        layers.append(list(range(nid, nid + w)))
        nid += w
    layers.append([nid])
    n = nid + 1
    s, t = 0, nid
    arcs = []
    capmax = rng.choice((1, 1, 2, 3))
    for a, b in zip(layers, layers[1:]):
        for u in a:
            for v in b:
                if rng.random() < 0.75:
                    arcs.append([u, v, rng.randint(1, capmax)])
    for i in range(len(layers)):
        for u in layers[i]:
            r = rng.random()
            if r < 0.25 and i + 2 < len(layers):  # skip arc
                arcs.append([u, rng.choice(layers[i + 2]), rng.randint(1, capmax)])
            elif r < 0.45 and i >= 1:  # back arc (may be anti-parallel, may enter the source), sometimes capacity 0
                arcs.append([u, rng.choice(layers[i - 1]), rng.choice((0, 1, capmax))])
            elif r < 0.55 and len(layers[i]) > 1:  # inside the layer
                v = rng.choice([x for x in layers[i] if x != u])
                arcs.append([u, v, rng.randint(1, capmax)])
    if rng.random() < 0.2 and arcs:  # a parallel arc
        u, v, c = rng.choice(arcs)
        arcs.append([u, v, rng.randint(0, capmax)])
    rng.shuffle(arcs)
    return {"n": n, "arcs": arcs, "s": s, "t": t, "labels": labels_for(rng.choice(("int", "int", "str")), n, s, t),
            "form": rng.choice((2, 3))}


def gen_random(rng, nmax):
    n = rng.randint(2, nmax)
    s = rng.randrange(n)
    t = rng.choice([x for x in range(n) if x != s])
    style = rng.random()
    m = rng.randint(0, 3 * n) if style < 0.7 else rng.randint(n, n * (n - 1))
    big = rng.random() < 0.1
    arcs = []
    for _ in range(m):
        r = rng.random()
        if arcs and r < 0.12:  # parallel
            u, v, _c = rng.choice(arcs)
        elif arcs and r < 0.3:  # anti-parallel
            v, u, _c = rng.choice(arcs)
        elif r < 0.38:  # into the source
            v = s
            u = rng.choice([x for x in range(n) if x != s])
        elif r < 0.46:  # out of the sink
            u = t
            v = rng.choice([x for x in range(n) if x != t])
        else:
            u = rng.randrange(n)
            v = rng.choice([x for x in range(n) if x != u])
        c = rng.choice((0, 1, 1, 1, 2, 2, 3, 5)) if not big else rng.choice((0, 1, 10 ** 6, 10 ** 12 + 7, 3))
        arcs.append([u, v, c])
    iso = [x for x in range(n) if rng.random() < 0.1]
    scheme = rng.choice(LABEL_SCHEMES)
    return {"n": n, "arcs": arcs, "s": s, "t": t, "labels": labels_for(scheme, n, s, t), "form": rng.choice((2, 3)),
            "isolated": iso}


def degenerate_cases():
    out = []
    for scheme in LABEL_SCHEMES:
        lab = labels_for(scheme, 3, 0, 2)
        out.append({"n": 3, "arcs": [], "s": 0, "t": 2, "labels": lab, "form": 2})  # empty graph
        out.append({"n": 3, "arcs": [[1, 2, 2]], "s": 0, "t": 2, "labels": lab, "form": 3})  # source absent
        out.append({"n": 3, "arcs": [[0, 1, 2]], "s": 0, "t": 2, "labels": lab, "form": 2})  # sink absent
        out.append({"n": 3, "arcs": [[0, 1, 2], [1, 2, 0]], "s": 0, "t": 2, "labels": lab, "form": 2})  # zero cut
        out.append({"n": 3, "arcs": [[2, 1, 2], [1, 0, 3]], "s": 0, "t": 2, "labels": lab, "form": 2})  # all backwards
        out.append({"n": 3, "arcs": [[0, 2, 1], [0, 2, 0], [0, 2, 2], [2, 0, 5]], "s": 0, "t": 2, "labels": lab, "form": 3})
        out.append({"n": 3, "arcs": [[0, 1, 1], [1, 2, 1]], "s": 0, "t": 2, "labels": lab, "form": 2, "isolated": [2, 1, 0]})
    return out


def w_seeded(job):
    kind, seed, count, nmax = job
    rng = random.Random(seed)
    cases = [gen_layered(rng) if kind == "layered" else gen_random(rng, nmax) for _ in range(count)]
    return run_cases(cases)


def w_list(cases):
    return run_cases(cases)


# ------------------------------------------------------------------------------------------------------ run
def _merge(ctx, results, tally):
    for n_eval, keys, viol, nrev, touts, per_ob in results:
        tally["eval"] += n_eval
        tally["rev"] += nrev
        ctx.count(n_eval, keys)
        for ob, c in per_ob.items():
            tally["fails"][ob] = tally["fails"].get(ob, 0) + c
        for ob, case, detail in viol:
            tally["viol"].append((ob, case, detail))
        for c in touts:
            ctx.undecided.append({"obligation": P + "call-returns", "why": f"no result within {TIMEOUT_S} CPU-seconds on {c}"})


def _size(case):
    return (case["n"], len(case["arcs"]), sum(a[2] for a in case["arcs"]))


def run(ctx: Ctx):
    use_repo()
    import solvor.flow  # noqa: imported before forking so that the pool workers inherit it
    import oracles.flow_exact  # noqa
    rng = random.Random(ctx.seed)
    notes = {}

    def scope_run(name, results, **desc):
        tally = {"eval": 0, "rev": 0, "fails": {}, "viol": []}
        _merge(ctx, results, tally)
        ctx.scope(name, evaluations=tally["eval"], needed_reverse_arc_in_reference_run=tally["rev"],
                  failing_by_obligation=tally["fails"], **desc)
        notes[name] = {"evaluations": tally["eval"], "failing_by_obligation": tally["fails"]}
        # report the smallest failing cases first
        tally["viol"].sort(key=lambda v: _size(v[1]))
        seen = {}
        for ob, case, detail in tally["viol"]:
            seen[ob] = seen.get(ob, 0) + 1
            if seen[ob] <= 2:
                ctx.violation(ob, case, detail)

    # 1. exhaustive small scope
    caps = (0, 1, 2)
    K = 4 if ctx.quick else 5
    jobs = []
    for n in (2, 3, 4):
        for k in range(0, K + 1):
            jobs += exhaustive_jobs(n, k, caps, "fwd")
    if not ctx.quick:  # reversed insertion order of the same multisets (changes BFS order)
        for n in (3, 4):
            for k in range(2, 5):
                jobs += exhaustive_jobs(n, k, caps, "rev")
    rng.shuffle(jobs)
    scope_run("exhaustive multisets of arcs", pmap(w_exhaustive, jobs), nodes="2..4", max_arcs=K,
              capacities=list(caps), source=0, sink="n-1", arcs="all ordered pairs incl. into-source/out-of-sink, "
              "parallel and anti-parallel", exhaustive=True)

    # 2. targeted: exhaustive 6-node crossing template + degenerate shapes
    t6 = t6_cases()
    chunks = [t6[i::32] for i in range(32)]
    scope_run("6-node crossing template (targeted, exhaustive)", pmap(w_list, chunks, chunksize=1),
              template="s->a,s->c,a->b,a->e,c->b,b->t,e->t", capacities=[1, 2], adjacency_orders=4,
              antiparallel_b_to_a=["absent", 0, 1], exhaustive=True)
    scope_run("degenerate shapes x label schemes", [w_list(degenerate_cases())], exhaustive=True)

    # 3. targeted random: layered graphs with crossing arcs
    per = 250
    nj = 120 if ctx.quick else 2400
    jobs = [("layered", rng.randrange(1 << 60), per, 0) for _ in range(nj)]
    scope_run("layered graphs with crossing arcs (targeted, seeded)", pmap(w_seeded, jobs), runs=nj * per,
              nodes="4..14", capacities="0..3")

    # 4. seeded random digraphs with every feature of the quantifier
    nj = 120 if ctx.quick else 2400
    nmax = 9 if ctx.quick else 10
    jobs = [("random", rng.randrange(1 << 60), per, nmax) for _ in range(nj)]
    scope_run("random digraphs", pmap(w_seeded, jobs), runs=nj * per, nodes=f"2..{nmax}",
              features="parallel, anti-parallel, into-source, out-of-sink, unreachable parts, zero and huge capacities, "
                       "isolated keys, 6 label schemes, 2- and 3-tuples")

    ctx.exhaustive = True
    ctx.notes["scope_results"] = notes
    sample_rng = random.Random(ctx.seed + 1)
    ctx.count(0, (), [t6[5], gen_layered(sample_rng), gen_random(sample_rng, 7)])
    ctx.rule = ("every case = (graph dict in a fixed insertion order, source, sink); max_flow is called once and its Result "
                "checked against the five ensures clauses with the exact minimum cut as oracle. non-trivial = minimum cut "
                ">= 1 (flow has to be routed); distinct = different (node count, source, sink, ordered arc list, labels, "
                "tuple form). Per scope the evidence also counts the cases in which the reference Edmonds-Karp had to "
                "traverse a residual twin (maximum unreachable by forward arcs only in that BFS order).")
    ctx.assumptions += [
        "domain: source != sink (a source-sink cut must exist); capacities are Python ints >= 0",
        "node labels are hashable and pairwise different (int, str, tuple, negative, falsy labels tried)",
        "max-flow/min-cut weak duality (a feasible flow of value v and a cut of capacity v prove each other optimal)",
    ]
    ctx.trusted += ["oracles/flow_exact.py: edmonds_karp (self-certifying: asserts its own saturated cut), "
                    "min_cut_brute (n <= 8 cross-check), st_flow_defects"]


def replay(rec):
    use_repo()
    case = rec["case"]
    out, info = eval_case(case)
    g, lab = build_graph(case)
    print("graph:", g, "source:", lab[case["s"]], "sink:", lab[case["t"]])
    print("oracle max flow:", info["value"])
    if info.get("timeout"):
        print("replay: no result within", TIMEOUT_S, "s")
        return 1
    for ob, d in out:
        print("replay:", ob, "::", d)
    if not out:
        print("replay: no violation")
    return 1 if out else 0

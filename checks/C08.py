"""C08 - max_flow returns a feasible flow whose value is the maximum (bounded back end).

Contract (from the property statement, nothing more), evaluated on the real solvor.flow.max_flow:
  ensures:capacity      0 <= f(u,v) <= sum of the capacities of the parallel arcs u->v, f integral
  ensures:conservation  inflow == outflow at every node other than source and sink
  ensures:objective     net inflow at the sink == Result.objective
  ensures:maximum       Result.objective == capacity of a minimum source-sink cut (oracle)
  ensures:no-augmenting-path   the sink is not reachable from the source in the residual network of the returned flow
Domain: directed graphs, non-negative integer capacities, source != sink (a source-sink cut must exist).
Oracles (oracles/flow_exact.py): reference Edmonds-Karp on an explicit residual multigraph, self-certifying
(feasible flow of value v + saturated cut of capacity v), cross-checked with brute force over all cuts for n <= 8.

Beyond the small scope (round 2):
  * re-open gadgets / path systems (8..40 nodes): networks in which shortest-augmenting-path order saturates an arc, a later
    path takes the flow off again over the residual twin and a still later path needs the arc a second time (long detours
    on both sides of the contested arc).  The evidence counts how often that pattern occurred in the reference run.
  * size ladder (10..2100 nodes, up to ~6000 arcs): layered / bipartite-matching / sparse / path-system networks; the verdict
    needs no brute force: the RETURNED flow is checked directly (capacity, conservation, no augmenting path in its residual
    network = maximality certificate) and its value is compared with the reference Edmonds-Karp (own saturated cut).
  * history mode: several max_flow calls inside one process on the SAME graph dict object with in-place edits between the
    calls (capacity replaced, arc added / deleted, list rotated, key re-inserted, capacities swapped so that counts and
    totals stay the same), repeated calls, changing source/sink; every call is judged against the graph as it is at that call.
    The last call of every sequence is repeated in a fresh interpreter on an equal, newly built dict and must give the
    identical Result (frame:result-independent-of-call-history).

Presentation diversity (round 3, checks/flow_present.py): the instances of the small-scope and mid-size generators (exhaustive
multisets with <= 3 arcs, crossing template, degenerate shapes, layered / random / re-open / path-system networks) are dressed up
before the call, the answer is mapped back to nodes 0..n-1 and judged by the same five ensures clauses on the plain instance:
  * node labels ("any node labels"): None as source / sink / inner node, falsy values (0, '', (), None, frozenset()), pairs of
    other nodes (the same values as the keys of the flow dictionary), nested tuples, frozensets, labels that collide after str()
    (1 and '1', None and 'None'), equal-but-differently-typed spellings of one node (2 as key, 2.0 / True in arc heads and in the
    source / sink argument), ints with colliding hashes, mutually incomparable mixtures; equal tuple / frozenset labels are
    distinct objects;
  * numbers: every capacity an int, every capacity a float with integral value, or mixed in one graph with an int first;
  * containers: dict / defaultdict(list) / OrderedDict, adjacency as list or tuple, arc records as tuples or lists with 2, 3 or
    4 fields; which nodes are keys (a node - also the source or the sink - may occur as an arc head only; head-only nodes with
    an empty adjacency before / among / after the tails; reversed and shuffled key order);
  * frame:inputs-unchanged          the caller's graph object prints the same after the call (same keys, same order, same arcs,
                                    same element types; a defaultdict must not have grown keys)
  * frame:same-call-same-answer     the same call repeated on the same object returns the same objective and flow dictionary.
Not used (outside the statement / signature): generators or other one-shot iterables as adjacency (the signature says list),
bool or non-integral capacities ("non-negative integer capacities"), NaN labels.
"""
from __future__ import annotations

import itertools
import json
import os
import random
import signal
import subprocess
import sys

from checks import flow_present as fp
from vf.core import Ctx, use_repo
from vf.pool import pmap

LEVEL = "exploration"
P = "C08/max_flow/"
TIMEOUT_S = 5.0
PRESENT_TIMEOUT_S = 0.3  # presented instances have <= 40 nodes (a call on the unchanged tree takes < 5 ms); two calls per instance
PRESENT_RETRY_S = 2.0  # a presented instance that ran out of the budget above is run once more with this one (at most until two
#                        instances have exhausted it as well in the same worker process)


def ladder_timeout(n):
    """CPU budget for networks with more than 40 nodes: >= 40x the slowest call on the unchanged tree (hub networks are
    quadratic: 2100 nodes 1.9 s, 1040 nodes 0.3 s, 520 nodes 0.07 s)."""
    return max(2.0, (n / 100.0) ** 2 / 5)


class _Timeout(Exception):
    pass


def _on_alarm(*_a):
    raise _Timeout()


# ----------------------------------------------------------------------------------------------- case -> call
mk_label = fp.mk_label  # JSON-able label specs: {"t": [...]} tuple, {"fs": [...]} frozenset, scalars stand for themselves


LABEL_SCHEMES = ("int", "str", "tuple", "neg", "mixed", "falsy")


def labels_for(scheme, n, s, t):
    if scheme == "int":
        return list(range(n))
    if scheme == "str":
        return [f"v{i}" for i in range(n)]
    if scheme == "tuple":
        return [{"t": [i // 3, i % 3]} for i in range(n)]
    if scheme == "neg":
        return [-(i * 7 + 1) for i in range(n)]
    if scheme == "mixed":
        return [(i, f"s{i}", {"t": [i, "x"]})[i % 3] for i in range(n)]
    if scheme == "falsy":  # source is 0 / sink is "" : labels that are falsy in a truth test
        lab = [i + 10 for i in range(n)]
        lab[s] = 0
        lab[t] = ""
        return lab
    raise ValueError(scheme)


def build_graph(case):
    """case: n, arcs [[u,v,cap]...] (insertion order), s, t, labels (list of specs), form (2|3), isolated (ids
    that get an empty adjacency list first)."""
    lab = [mk_label(x) for x in case["labels"]]
    g = {}
    for x in case.get("isolated", []):
        g[lab[x]] = []
    for i, (u, v, c) in enumerate(case["arcs"]):
        tup = (lab[v], c) if case.get("form", 2) == 2 else (lab[v], c, (i * 5) % 7 - 3)
        g.setdefault(lab[u], []).append(tup)
    return g, lab


def snapshot(g, back):
    """The input as the function sees it: arcs (u, v, cap) in dict / list iteration order."""
    return [(back[u], back[v[0]], v[1]) for u in g for v in g[u]]


def _guarded(g, a, b, timeout):
    """max_flow under a CPU-time guard (machine load cannot fake a hang) -> ("ok", Result) | ("timeout", None) | ("exc", text)."""
    from solvor.flow import max_flow
    signal.signal(signal.SIGVTALRM, _on_alarm)
    signal.setitimer(signal.ITIMER_VIRTUAL, timeout)
    try:
        return "ok", max_flow(g, a, b)
    except _Timeout:
        return "timeout", None
    except Exception as e:  # noqa
        return "exc", f"raised {type(e).__name__}: {e}"
    finally:
        signal.setitimer(signal.ITIMER_VIRTUAL, 0)


_DEF = object()  # "not given" (None is a legal node label)


def judge_call(g, lab, back, n, s, t, brute=True, timeout=TIMEOUT_S, arcs=None, src=_DEF, snk=_DEF, frame=False):
    """One max_flow call on the graph object g, judged against the arcs g holds right now (or against `arcs`, the plain
    instance a presented graph was made from).  src / snk: how source and sink are spelled in the call (default lab[s], lab[t]).
    frame=True: also the two frame clauses - g prints the same after the call, and a second identical call returns the same.
    Returns (list of (obligation, detail), info, result summary or None)."""
    from oracles.flow_exact import edmonds_karp, min_cut_brute, st_flow_defects

    if arcs is None:
        arcs = snapshot(g, back)
    src = lab[s] if src is _DEF else src
    snk = lab[t] if snk is _DEF else snk
    tr = {}
    value, _fl, closed, used_rev = edmonds_karp(n, arcs, s, t, tr)
    if brute and n <= 8:
        bv, _ = min_cut_brute(n, arcs, s, t)
        if bv != value:
            raise AssertionError(f"oracles disagree: Edmonds-Karp {value}, brute-force min cut {bv} on {(n, arcs, s, t)}")
    info = {"value": value, "used_reverse": used_rev, "reopened": tr["reopened"], "augmentations": tr["augmentations"]}
    before = fp.snap(g) if frame else None
    st, res = _guarded(g, src, snk, timeout)
    if st == "timeout":
        info["timeout"] = True
        return [], info, None
    out = []
    if frame:
        after = fp.snap(g)
        if after != before:
            out.append((P + "frame:inputs-unchanged", f"the caller's graph was {before[0][:400]} before the call and is "
                        f"{after[0][:400]} after it"))
    if st == "exc":
        return out + [(P + "ensures:returns", res)], info, None
    if frame:
        st2, res2 = _guarded(g, src, snk, timeout)
        if st2 == "timeout":
            info["timeout"] = True
        elif st2 == "exc":
            out.append((P + "frame:same-call-same-answer", f"the first call returned objective {res.objective!r}, the same call "
                        f"again {res2}"))
        elif (res2.objective, res2.solution) != (res.objective, res.solution):
            out.append((P + "frame:same-call-same-answer", f"the first call returned objective {res.objective!r} flow "
                        f"{str(res.solution)[:200]}, the same call again objective {res2.objective!r} flow {str(res2.solution)[:200]}"))
    sol = res.solution
    if not isinstance(sol, dict):
        return out + [(P + "ensures:returns", f"solution is {type(sol).__name__}, not a flow dictionary")], info, None
    fl = {}
    for key, f in sol.items():
        try:
            ok = isinstance(key, tuple) and len(key) == 2 and key[0] in back and key[1] in back
        except TypeError:  # unhashable
            ok = False
        if not ok:
            out.append((P + "ensures:capacity", f"flow key {key!r} is not a pair of nodes of the graph"))
            continue
        k2 = (back[key[0]], back[key[1]])
        if k2 in fl:  # two spellings of the same arc (2 and 2.0): their flows add up
            fl[k2] = fl[k2] + f
        else:
            fl[k2] = f
    bad, net_t, _net_s, augmenting = st_flow_defects(n, arcs, s, t, fl)
    for b in bad[:4]:
        ob = "ensures:conservation" if b.startswith("conservation") else "ensures:capacity"
        out.append((P + ob, b))
    if res.objective != net_t:
        out.append((P + "ensures:objective", f"objective {res.objective!r} but net inflow at the sink is {net_t}"))
    if res.objective != value:
        cs = closed if len(closed) <= 12 else f"{closed[:12]}... ({len(closed)} nodes)"
        out.append((P + "ensures:maximum", f"objective {res.objective!r}, minimum cut {value} (closed set {cs})"))
    if not bad and augmenting:
        out.append((P + "ensures:no-augmenting-path",
                    f"sink still reachable in the residual network of the returned flow (value {net_t}, max {value})"))
    summary = [res.objective, sorted([list(k), f] for k, f in fl.items())]
    return out, info, summary


def present(case):
    """kind 'present' -> (graph object in the presentation, labels, back map, source spelling, sink spelling)."""
    lab = [mk_label(x) for x in case["labels"]]
    back = {l: i for i, l in enumerate(lab)}
    alias = case.get("alias", {})
    g = fp.present_graph(case["n"], case["arcs"], case["labels"], alias, case["pres"], junk=case.get("form", 2) - 2)
    return (g, lab, back, fp.call_label(case["s"], case["labels"], alias, case["pres"]),
            fp.call_label(case["t"], case["labels"], alias, case["pres"]))


_HANGS = 0  # per worker process: presented instances that ran out of PRESENT_RETRY_S as well
_FROZEN = False


def _freeze_once():
    """Pool workers are forked from a parent that may hold millions of objects by then (thorough tier); a full garbage
    collection walking them costs 0.1-0.3 CPU-s and would be charged to whatever call it interrupts."""
    global _FROZEN
    if not _FROZEN:
        import gc
        gc.freeze()
        _FROZEN = True


def eval_present(case):
    global _HANGS
    arcs = [tuple(a[:3]) for a in case["arcs"]]
    g, lab, back, src, snk = present(case)
    out, info, _ = judge_call(g, lab, back, case["n"], case["s"], case["t"], arcs=arcs, src=src, snk=snk, frame=True,
                              timeout=PRESENT_TIMEOUT_S)
    if info.get("timeout") and _HANGS < 2:  # once more on newly built objects with a larger budget before it counts
        g, lab, back, src, snk = present(case)
        out, info, _ = judge_call(g, lab, back, case["n"], case["s"], case["t"], arcs=arcs, src=src, snk=snk, frame=True,
                                  timeout=PRESENT_RETRY_S)
        _HANGS += bool(info.get("timeout"))
    return out, info


def eval_case(case):
    """Returns (list of (obligation, detail), info dict).  info: value, used_reverse, reopened, nontrivial."""
    if case.get("kind") == "history":
        return eval_history(case)
    if case.get("kind") == "present":
        return eval_present(case)
    g, lab = build_graph(case)
    back = {l: i for i, l in enumerate(lab)}
    big = case["n"] > 40
    out, info, _ = judge_call(g, lab, back, case["n"], case["s"], case["t"],
                              timeout=ladder_timeout(case["n"]) if big else TIMEOUT_S)
    return out, info


# ------------------------------------------------------------------------------------------------ history mode
def apply_edit(g, lab, ed):
    """In-place edits of the caller's graph dict (the object identity of the dict and of its lists is kept)."""
    op = ed[0]
    if op == "cap":  # replace the capacity of the i-th arc out of u
        _, u, i, c = ed
        old = g[lab[u]][i]
        g[lab[u]][i] = (old[0], c) + tuple(old[2:])
    elif op == "add":
        _, u, v, c, form = ed
        g.setdefault(lab[u], []).append((lab[v], c) if form == 2 else (lab[v], c, 1))
    elif op == "del":
        _, u, i = ed
        del g[lab[u]][i]
    elif op == "rot":  # same arcs, other adjacency order
        _, u = ed
        g[lab[u]].append(g[lab[u]].pop(0))
    elif op == "rekey":  # same list object under the same key, moved to the end of the dict
        _, u = ed
        g[lab[u]] = g.pop(lab[u])
    else:
        raise ValueError(op)


def eval_history(case, want_last=False):
    """case: kind 'history', n, arcs, labels, form, isolated, steps [{"edits": [...], "s": s, "t": t}, ...].
    One graph dict is built once and then only edited in place; max_flow is called after every step."""
    g, lab = build_graph(case)
    back = {l: i for i, l in enumerate(lab)}
    out = []
    info = {"value": 0, "used_reverse": False, "reopened": 0, "calls": 0, "augmentations": 0}
    last = None
    for k, step in enumerate(case["steps"]):
        for ed in step["edits"]:
            apply_edit(g, lab, ed)
        o, i, summ = judge_call(g, lab, back, case["n"], step["s"], step["t"])
        info["calls"] += 1
        info["value"] = max(info["value"], i["value"])
        info["used_reverse"] |= i["used_reverse"]
        info["reopened"] += i["reopened"]
        info["augmentations"] = max(info["augmentations"], i["augmentations"])
        if i.get("timeout"):
            info["timeout"] = True
        why = "first call" if k == 0 else ("same call again" if not step["edits"] and (step["s"], step["t"]) ==
                                           (case["steps"][k - 1]["s"], case["steps"][k - 1]["t"]) else
                                           "after in-place edits " + json.dumps(step["edits"]) if step["edits"]
                                           else "other source/sink on the unchanged object")
        out += [(ob, f"call #{k + 1} ({why}) on the same dict object, graph now "
                     f"{ {u: g[u] for u in list(g)[:12]} }, {lab[step['s']]!r}->{lab[step['t']]!r}: {d}") for ob, d in o]
        last = {"graph": [[back[u], [[back[a[0]]] + list(a[1:]) for a in g[u]]] for u in g], "labels": case["labels"],
                "n": case["n"], "s": step["s"], "t": step["t"], "result": summ}
    if want_last:
        return out, info, last
    return out, info


def fresh_eval(item):
    """Run in a NEW interpreter: build an equal dict from scratch, one max_flow call, return the result summary."""
    from solvor.flow import max_flow
    lab = [mk_label(x) for x in item["labels"]]
    back = {l: i for i, l in enumerate(lab)}
    g = {lab[u]: [(lab[a[0]],) + tuple(a[1:]) for a in lst] for u, lst in item["graph"]}
    res = max_flow(g, lab[item["s"]], lab[item["t"]])
    try:
        return [res.objective, sorted([[back[k[0]], back[k[1]]], f] for k, f in res.solution.items())]
    except Exception as e:  # noqa
        return ["unreadable", repr(e)]


def fresh_process(items):
    """items -> list of result summaries computed by `python -m checks.C08 --fresh` (new process, same tree)."""
    if not items:
        return []
    env = dict(os.environ)
    here = os.path.dirname(os.path.dirname(os.path.abspath(__file__)))
    p = subprocess.run([sys.executable, "-m", "checks.C08", "--fresh"], input=json.dumps(items), capture_output=True,
                       text=True, cwd=here, env=env, timeout=600)
    if p.returncode != 0:
        raise RuntimeError("fresh-process helper failed: " + p.stderr[-800:])
    return json.loads(p.stdout)


def case_key(case):
    if case.get("kind") == "history":
        return hash(json.dumps(case, sort_keys=True))
    return hash((case["n"], case["s"], case["t"], tuple(map(tuple, case["arcs"])), repr(case["labels"]),
                 case.get("form", 2), tuple(case.get("isolated", [])),
                 json.dumps([case.get("pres"), case.get("alias")], sort_keys=True)))


def run_cases(cases, lasts=None):
    """Worker body: list of cases -> (n_eval, nontrivial keys, violations, [n_reverse, n_reopened, n_calls], timeouts).
    lasts: list that receives (case, last-call record) of history cases for the fresh-process comparison."""
    keys, viol, touts = [], [], []
    nrev = nreo = ncalls = maxaug = 0
    per_ob = {}
    tripped = False  # a big call timed out in this job: the remaining big cases of the job are not run (recorded as undecided)
    small_to = skipped_present = 0  # presented instances: after 2 time-outs in one job the rest of the job is not run either
    for case in cases:
        if small_to >= 2 and case.get("kind") == "present":
            skipped_present += 1
            continue
        if tripped and case["n"] > 40:
            touts.append({"n": case["n"], "gen": case.get("gen"), "skipped": "after a time-out in the same worker job"})
            continue
        if lasts is not None and case.get("kind") == "history":
            out, info, last = eval_history(case, want_last=True)
            if last["result"] is not None:
                lasts.append((case, last))
        else:
            out, info = eval_case(case)
        if info.get("timeout"):
            touts.append(case if case["n"] <= 40 else {"n": case["n"], "gen": case.get("gen")})
            tripped = tripped or case["n"] > 40
            small_to += case.get("kind") == "present"
        if info["value"] >= 1:
            keys.append(case_key(case))
        if info["used_reverse"]:
            nrev += 1
        if info["reopened"]:
            nreo += 1
        ncalls += info.get("calls", 1)
        maxaug = max(maxaug, info.get("augmentations", 0))
        seen_here = set()
        for ob, detail in out:
            if ob in seen_here:
                continue
            seen_here.add(ob)
            per_ob[ob] = per_ob.get(ob, 0) + 1
            if per_ob[ob] <= 3:
                viol.append((ob, case, detail))
    if skipped_present:
        touts.append({"kind": "present", "not_run_after_2_time-outs_in_the_same_worker_job": skipped_present})
    return len(cases) - skipped_present, keys, viol, [nrev, nreo, ncalls, maxaug], touts, per_ob


# --------------------------------------------------------------------------------------------------- scopes
def arc_types(n, caps):
    return [(u, v, c) for u in range(n) for v in range(n) if u != v for c in caps]


def w_exhaustive(job):
    """job = (n, k, prefix, caps, variant).  All multisets (non-decreasing index tuples) of k arc types that start
    with `prefix` (a non-decreasing tuple of at most 2 indices)."""
    n, k, prefix, caps, variant = job
    types = arc_types(n, caps)
    cases = []
    lo = prefix[-1] if prefix else 0
    for rest in itertools.combinations_with_replacement(range(lo, len(types)), k - len(prefix)):
        arcs = [list(types[i]) for i in prefix + rest]
        if variant == "rev":
            arcs.reverse()
        cases.append({"n": n, "arcs": arcs, "s": 0, "t": n - 1, "labels": list(range(n)), "form": 2})
    return run_cases(cases)


def exhaustive_jobs(n, k, caps, variant):
    T = len(arc_types(n, caps))
    if k <= 2:
        return [(n, k, (), caps, variant)]
    return [(n, k, (i, j), caps, variant) for i in range(T) for j in range(i, T)]


# the 6-node crossing template: s=0 a=1 c=2 b=3 e=4 t=5.  BFS finds s-a-b-t first when a precedes c in s's list
# and b precedes e in a's list; the maximum needs s-c-b ~> a-e-t, i.e. cancelling a->b over the residual twin b->a.
T6_BASE = [(0, 1), (0, 2), (1, 3), (1, 4), (2, 3), (3, 5), (4, 5)]


def t6_cases():
    cases = []
    for caps in itertools.product((1, 2), repeat=7):
        for s_order in (0, 1):
            for a_order in (0, 1):
                for rev in (None, 0, 1):  # anti-parallel arc b->a absent / capacity 0 / capacity 1
                    arcs = {u: [] for u in range(6)}
                    for (u, v), c in zip(T6_BASE, caps):
                        arcs[u].append([u, v, c])
                    if s_order:
                        arcs[0].reverse()
                    if a_order:
                        arcs[1].reverse()
                    if rev is not None:
                        arcs[3].append([3, 1, rev])
                    flat = [a for u in range(6) for a in arcs[u]]
                    cases.append({"n": 6, "arcs": flat, "s": 0, "t": 5, "labels": list(range(6)), "form": 2})
    return cases


def gen_layered(rng):
    """Layered graph with crossing arcs: forward arcs between consecutive layers with small capacities (so that
    the first shortest augmenting paths saturate them) plus skip / back / in-layer arcs; adjacency order shuffled."""
    widths = [rng.randint(1, 3) for _ in range(rng.randint(2, 4))]
    layers = [[0]]
    nid = 1
    for w in widths:
        layers.append(list(range(nid, nid + w)))
        nid += w
    layers.append([nid])
    n = nid + 1
    s, t = 0, nid
    arcs = []
    capmax = rng.choice((1, 1, 2, 3))
    for a, b in zip(layers, layers[1:]):
        for u in a:
            for v in b:
                if rng.random() < 0.75:
                    arcs.append([u, v, rng.randint(1, capmax)])
    for i in range(len(layers)):
        for u in layers[i]:
            r = rng.random()
            if r < 0.25 and i + 2 < len(layers):  # skip arc
                arcs.append([u, rng.choice(layers[i + 2]), rng.randint(1, capmax)])
            elif r < 0.45 and i >= 1:  # back arc (may be anti-parallel, may enter the source), sometimes capacity 0
                arcs.append([u, rng.choice(layers[i - 1]), rng.choice((0, 1, capmax))])
            elif r < 0.55 and len(layers[i]) > 1:  # inside the layer
                v = rng.choice([x for x in layers[i] if x != u])
                arcs.append([u, v, rng.randint(1, capmax)])
    if rng.random() < 0.2 and arcs:  # a parallel arc
        u, v, c = rng.choice(arcs)
        arcs.append([u, v, rng.randint(0, capmax)])
    rng.shuffle(arcs)
    return {"n": n, "arcs": arcs, "s": s, "t": t, "labels": labels_for(rng.choice(("int", "int", "str")), n, s, t),
            "form": rng.choice((2, 3))}


def gen_random(rng, nmax):
    n = rng.randint(2, nmax)
    s = rng.randrange(n)
    t = rng.choice([x for x in range(n) if x != s])
    style = rng.random()
    m = rng.randint(0, 3 * n) if style < 0.7 else rng.randint(n, n * (n - 1))
    big = rng.random() < 0.1
    arcs = []
    for _ in range(m):
        r = rng.random()
        if arcs and r < 0.12:  # parallel
            u, v, _c = rng.choice(arcs)
        elif arcs and r < 0.3:  # anti-parallel
            v, u, _c = rng.choice(arcs)
        elif r < 0.38:  # into the source
            v = s
            u = rng.choice([x for x in range(n) if x != s])
        elif r < 0.46:  # out of the sink
            u = t
            v = rng.choice([x for x in range(n) if x != t])
        else:
            u = rng.randrange(n)
            v = rng.choice([x for x in range(n) if x != u])
        c = rng.choice((0, 1, 1, 1, 2, 2, 3, 5)) if not big else rng.choice((0, 1, 10 ** 6, 10 ** 12 + 7, 3))
        arcs.append([u, v, c])
    iso = [x for x in range(n) if rng.random() < 0.1]
    scheme = rng.choice(LABEL_SCHEMES)
    return {"n": n, "arcs": arcs, "s": s, "t": t, "labels": labels_for(scheme, n, s, t), "form": rng.choice((2, 3)),
            "isolated": iso}


def degenerate_cases():
    out = []
    for scheme in LABEL_SCHEMES:
        lab = labels_for(scheme, 3, 0, 2)
        out.append({"n": 3, "arcs": [], "s": 0, "t": 2, "labels": lab, "form": 2})  # empty graph
        out.append({"n": 3, "arcs": [[1, 2, 2]], "s": 0, "t": 2, "labels": lab, "form": 3})  # source absent
        out.append({"n": 3, "arcs": [[0, 1, 2]], "s": 0, "t": 2, "labels": lab, "form": 2})  # sink absent
        out.append({"n": 3, "arcs": [[0, 1, 2], [1, 2, 0]], "s": 0, "t": 2, "labels": lab, "form": 2})  # zero cut
        out.append({"n": 3, "arcs": [[2, 1, 2], [1, 0, 3]], "s": 0, "t": 2, "labels": lab, "form": 2})  # all backwards
        out.append({"n": 3, "arcs": [[0, 2, 1], [0, 2, 0], [0, 2, 2], [2, 0, 5]], "s": 0, "t": 2, "labels": lab, "form": 3})
        out.append({"n": 3, "arcs": [[0, 1, 1], [1, 2, 1]], "s": 0, "t": 2, "labels": lab, "form": 2, "isolated": [2, 1, 0]})
    return out


# ------------------------------------------------------------------------- round 2: beyond the small scope
BIG_CAPS = (1, 1, 1, 2, 3, 7, 2 ** 53 + 1)


class _Net:
    """Small builder: named nodes -> ids in order of creation, arcs in order of creation."""

    def __init__(self):
        self.n = 0
        self.arcs = []

    def node(self):
        self.n += 1
        return self.n - 1

    def chain(self, a, b, inner, cap):
        """a -> x1 -> ... -> x_inner -> b, every arc with capacity cap(); returns the inner nodes."""
        xs = [self.node() for _ in range(inner)]
        seq = [a] + xs + [b]
        for u, v in zip(seq, seq[1:]):
            self.arcs.append([u, v, cap()])
        return xs


def _reopen_gadget(net, rng, s, t, k):
    """One contested arc u->w with a short route through it, two medium by-passes (into w, out of u) and two long detours
    (into u, out of w).  With shortest augmenting paths the arc is filled by the short route; when the detours are long
    enough the next path walks w->u backwards (cancels) and the last one needs u->w again."""
    def cap():
        r = rng.random()
        return k if r < 0.8 else k * 2 if r < 0.9 else k + 1

    u, w = net.node(), net.node()
    a1, b1 = rng.choice((0, 0, 0, 1)), rng.choice((0, 0, 0, 1))
    A, B = rng.choice((0, 1, 1, 1, 2, 3)), rng.choice((0, 1, 1, 1, 2, 3))
    C, D = A + rng.choice((0, 1, 2, 2, 2, 3, 4)), B + rng.choice((0, 1, 2, 2, 2, 3, 4))
    groups = [
        lambda: net.chain(s, u, a1, cap), lambda: net.arcs.append([u, w, cap()]), lambda: net.chain(w, t, b1, cap),
        lambda: net.chain(s, w, A, cap), lambda: net.chain(u, t, B, cap),
        lambda: net.chain(s, u, C, cap), lambda: net.chain(w, t, D, cap),
    ]
    if rng.random() < 0.4:
        rng.shuffle(groups)
    for f in groups:
        f()
    if rng.random() < 0.15:  # explicit anti-parallel arc next to the residual twin
        net.arcs.append([w, u, rng.choice((0, 1, k))])


def gen_reopen(rng):
    net = _Net()
    s, t = net.node(), net.node()
    k = rng.choice(BIG_CAPS)
    shape = rng.random()
    _reopen_gadget(net, rng, s, t, k)
    if shape < 0.15:  # a second gadget between the same terminals
        _reopen_gadget(net, rng, s, t, rng.choice((k, 1)))
    elif shape < 0.3:  # two gadgets in series
        t2 = net.node()
        _reopen_gadget(net, rng, t, t2, k)
        t = t2
    for _ in range(rng.choice((0, 0, 1, 2, 3))):  # noise arcs
        x, y = rng.sample(range(net.n), 2)
        net.arcs.append([x, y, rng.choice((0, 1, 2, 3))])
    arcs = net.arcs
    if rng.random() < 0.3:
        rng.shuffle(arcs)
    perm = list(range(net.n))
    if rng.random() < 0.5:
        rng.shuffle(perm)
    arcs = [[perm[a], perm[b], c] for a, b, c in arcs]
    return {"n": net.n, "arcs": arcs, "s": perm[s], "t": perm[t], "form": rng.choice((2, 2, 3)),
            "labels": labels_for(rng.choice(("int", "int", "str", "tuple")), net.n, perm[s], perm[t])}


def gen_paths(rng, n_target=None):
    """Path system: several source-sink chains of different lengths plus crossing arcs between them (capacities mostly equal,
    so that a crossing path saturates and later paths have to undo it)."""
    net = _Net()
    s, t = net.node(), net.node()
    k = rng.choice((1, 1, 1, 2, 3))
    cap = lambda: k if rng.random() < 0.85 else rng.randint(1, 2 * k)  # noqa
    chains = []
    if n_target is None:
        for _ in range(rng.randint(2, 5)):
            chains.append([s] + net.chain(s, t, rng.choice((0, 1, 1, 2, 2, 3, 4, 5, 6)), cap) + [t])
    else:
        while net.n < n_target:
            chains.append([s] + net.chain(s, t, rng.randint(1, max(2, min(40, n_target // 6))), cap) + [t])
    inner = [x for ch in chains for x in ch[1:-1]]
    ncross = rng.randint(1, 2 * len(chains)) if n_target is None else rng.randint(len(chains), 3 * len(chains))
    for _ in range(ncross if len(inner) >= 2 else 0):
        x, y = rng.sample(inner, 2)
        net.arcs.append([x, y, cap()])
    arcs = net.arcs
    if rng.random() < 0.5:
        rng.shuffle(arcs)
    return {"n": net.n, "arcs": arcs, "s": s, "t": t, "form": 2,
            "labels": labels_for(rng.choice(("int", "str")), net.n, s, t)}


LADDER_STYLES = ("layered", "bipartite", "sparse", "paths")


def gen_ladder(rng, n, style):
    """Networks of about n nodes.  layered: sqrt(n) layers, 2-3 arcs per node to the next layer plus skip/back arcs;
    bipartite: unit-capacity matching network with hub source and sink; sparse: 3n random arcs; paths: path system."""
    if style == "paths":
        c = gen_paths(rng, n)
        c["gen"] = ["paths", n]
        return c
    arcs = []
    s, t = 0, n - 1
    if style == "layered":
        L = max(2, int(round((n - 2) ** 0.5)))
        inner = list(range(1, n - 1))
        layers = [[s]] + [inner[i::L] for i in range(L)] + [[t]]
        layers = [l for l in layers if l]
        cmax = rng.choice((1, 2, 3))
        for a, b in zip(layers, layers[1:]):
            for u in a:
                for v in rng.sample(b, min(len(b), rng.randint(2, 3))):
                    arcs.append([u, v, rng.randint(1, cmax)])
            for v in b:  # every node can be entered
                if rng.random() < 0.5:
                    arcs.append([rng.choice(a), v, rng.randint(1, cmax)])
        for i, a in enumerate(layers):
            for u in a:
                r = rng.random()
                if r < 0.1 and i + 2 < len(layers):
                    arcs.append([u, rng.choice(layers[i + 2]), rng.randint(1, cmax)])
                elif r < 0.2 and i >= 2:
                    arcs.append([u, rng.choice(layers[i - 1]), rng.choice((0, 1, cmax))])
    elif style == "bipartite":
        k = (n - 2) // 2
        left = list(range(1, 1 + k))
        right = list(range(1 + k, 1 + 2 * k))
        for u in left:
            arcs.append([s, u, 1])
        for u in left:
            for v in rng.sample(right, min(k, rng.randint(1, 3))):
                arcs.append([u, v, 1])
        for v in right:
            arcs.append([v, t, 1])
    else:
        for _ in range(3 * n):
            u = rng.randrange(n)
            v = rng.randrange(n)
            if u != v:
                arcs.append([u, v, rng.choice((0, 1, 1, 2, 3))])
        for _ in range(3):
            arcs.append([s, rng.randrange(1, n), rng.randint(1, 3)])
            arcs.append([rng.randrange(0, n - 1), t, rng.randint(1, 3)])
    if rng.random() < 0.5:
        rng.shuffle(arcs)
    return {"n": n, "arcs": arcs, "s": s, "t": t, "form": 2, "gen": [style, n],
            "labels": labels_for(rng.choice(("int", "str", "tuple")), n, s, t)}


def gen_history(rng):
    """A small network and 2..5 max_flow calls on the same dict object with in-place edits between the calls."""
    r = rng.random()
    base = gen_layered(rng) if r < 0.45 else gen_random(rng, 7) if r < 0.9 else gen_reopen(rng)
    if base["form"] == 3:  # keep one tuple form per object; 3-tuples carry a cost that max_flow must ignore
        base["form"] = 3
    n = base["n"]
    lab = base["labels"]
    mirror = {}  # u -> list of [v, cap] in list order (what the dict holds)
    order = []
    for x in base.get("isolated", []):
        if x not in mirror:
            mirror[x] = []
            order.append(x)
    for u, v, c in base["arcs"]:
        if u not in mirror:
            mirror[u] = []
            order.append(u)
        mirror[u].append([v, c])
    s, t = base["s"], base["t"]
    steps = [{"edits": [], "s": s, "t": t}]
    for _ in range(rng.randint(1, 4)):
        edits = []
        kind = rng.random()
        tails = [u for u in mirror if mirror[u]]
        if kind < 0.12 or not tails:
            pass  # the same call again
        elif kind < 0.2:  # other terminals, object untouched
            s, t = rng.sample(range(n), 2)
        else:
            for _ in range(rng.choice((1, 1, 1, 2, 3))):
                tails = [u for u in mirror if mirror[u]]
                if not tails:
                    break
                op = rng.random()
                u = rng.choice(tails)
                i = rng.randrange(len(mirror[u]))
                if op < 0.45:  # new capacity on an existing arc (widen, narrow, close, open)
                    old = mirror[u][i][1]
                    c = rng.choice([x for x in (0, 1, 2, 3, old + 1, old + 2, max(old - 1, 0), 5) if x != old])
                    mirror[u][i][1] = c
                    edits.append(["cap", u, i, c])
                elif op < 0.6:  # swap the capacities of two arcs: arc count and capacity total unchanged
                    u2 = rng.choice(tails)
                    j = rng.randrange(len(mirror[u2]))
                    ci, cj = mirror[u][i][1], mirror[u2][j][1]
                    mirror[u][i][1], mirror[u2][j][1] = cj, ci
                    edits += [["cap", u, i, cj], ["cap", u2, j, ci]]
                elif op < 0.72:
                    x, y = rng.sample(range(n), 2)
                    c = rng.choice((1, 1, 2, 3))
                    if x not in mirror:
                        mirror[x] = []
                    mirror[x].append([y, c])
                    edits.append(["add", x, y, c, base["form"]])
                elif op < 0.82:
                    del mirror[u][i]
                    edits.append(["del", u, i])
                elif op < 0.9:  # delete one arc and add another: counts unchanged
                    del mirror[u][i]
                    edits.append(["del", u, i])
                    x, y = rng.sample(range(n), 2)
                    c = rng.choice((1, 2, 3))
                    if x not in mirror:
                        mirror[x] = []
                    mirror[x].append([y, c])
                    edits.append(["add", x, y, c, base["form"]])
                elif op < 0.95:
                    mirror[u].append(mirror[u].pop(0))
                    edits.append(["rot", u])
                else:
                    mirror[u] = mirror.pop(u)
                    edits.append(["rekey", u])
        steps.append({"edits": edits, "s": s, "t": t})
    return {"kind": "history", "n": n, "arcs": base["arcs"], "labels": lab, "form": base["form"],
            "isolated": base.get("isolated", []), "s": base["s"], "t": base["t"], "steps": steps}


def w_seeded(job):
    kind, seed, count, nmax = job
    rng = random.Random(seed)
    lasts = None
    if kind == "layered":
        cases = [gen_layered(rng) for _ in range(count)]
    elif kind == "random":
        cases = [gen_random(rng, nmax) for _ in range(count)]
    elif kind == "reopen":
        cases = [gen_reopen(rng) for _ in range(count)]
    elif kind == "paths":
        cases = [gen_paths(rng) for _ in range(count)]
    elif kind == "history":
        cases = [gen_history(rng) for _ in range(count)]
        lasts = []
    elif kind.startswith("ladder:"):
        cases = [gen_ladder(rng, nmax, kind.split(":")[1]) for _ in range(count)]
    else:
        raise ValueError(kind)
    r = run_cases(cases, lasts)
    if lasts is not None:
        keep = lasts[:: max(1, len(lasts) // 12)][:12]  # a sample of every job goes to the fresh-process comparison
        return r + (keep,)
    return r


# ------------------------------------------------------------------------- round 3: presentation diversity
def dress(base, rng, scheme=None):
    """A structural instance (nodes 0..n-1, int capacities) in a randomly chosen presentation (checks/flow_present.py)."""
    n, s, t = base["n"], base["s"], base["t"]
    scheme = scheme or rng.choice(fp.LABEL_SCHEMES)
    labels, alias = fp.labels_for(scheme, n, s, t, rng)
    return {"kind": "present", "n": n, "arcs": [list(a[:3]) for a in base["arcs"]], "s": s, "t": t, "labels": labels,
            "alias": alias, "pres": fp.random_pres(rng, scheme), "form": rng.choice((2, 2, 3, 4))}


def pres_counts(cases):
    c = {}
    for case in cases:
        pr = case["pres"]
        for k in ("scheme", "map", "adj", "arc", "num", "keys"):
            key = f"{k}={pr[k]}"
            c[key] = c.get(key, 0) + 1
        key = f"fields={case['form']}"
        c[key] = c.get(key, 0) + 1
    return c


def w_present_exh(job):
    """job = (n, k, prefix, caps, seed, reps): every multiset of k arc types starting with `prefix`, each in `reps`
    presentations (label schemes taken round robin, the rest drawn per instance)."""
    _freeze_once()
    n, k, prefix, caps, seed, reps = job
    rng = random.Random(seed)
    types = arc_types(n, caps)
    cases = []
    lo = prefix[-1] if prefix else 0
    i = rng.randrange(len(fp.LABEL_SCHEMES))
    for rest in itertools.combinations_with_replacement(range(lo, len(types)), k - len(prefix)):
        arcs = [list(types[j]) for j in prefix + rest]
        rng.shuffle(arcs)
        for _ in range(reps):
            i += 1
            cases.append(dress({"n": n, "arcs": arcs, "s": 0, "t": n - 1}, rng, fp.LABEL_SCHEMES[i % len(fp.LABEL_SCHEMES)]))
    return run_cases(cases) + ([], pres_counts(cases))


def w_present_list(job):
    _freeze_once()
    bases, seed, reps = job
    rng = random.Random(seed)
    cases = []
    i = rng.randrange(len(fp.LABEL_SCHEMES))
    for b in bases:
        for _ in range(reps):
            i += 1
            cases.append(dress(b, rng, fp.LABEL_SCHEMES[i % len(fp.LABEL_SCHEMES)]))
    return run_cases(cases) + ([], pres_counts(cases))


def w_present_seeded(job):
    _freeze_once()
    kind, seed, count, nmax = job
    rng = random.Random(seed)
    gen = {"layered": gen_layered, "random": lambda r: gen_random(r, nmax), "reopen": gen_reopen, "paths": gen_paths}[kind]
    i = rng.randrange(len(fp.LABEL_SCHEMES))
    cases = []
    for _ in range(count):
        i += 1
        cases.append(dress(gen(rng), rng, fp.LABEL_SCHEMES[i % len(fp.LABEL_SCHEMES)]))
    return run_cases(cases) + ([], pres_counts(cases))


def w_list(cases):
    return run_cases(cases)


# ------------------------------------------------------------------------------------------------------ run
def _merge(ctx, results, tally):
    for r in results:
        n_eval, keys, viol, (nrev, nreo, ncalls, maxaug), touts, per_ob = r[:6]
        tally["maxaug"] = max(tally["maxaug"], maxaug)
        tally["lasts"] += r[6] if len(r) > 6 else []
        for k, c in (r[7] if len(r) > 7 else {}).items():
            tally["pres"][k] = tally["pres"].get(k, 0) + c
        tally["eval"] += n_eval
        tally["rev"] += nrev
        tally["reo"] += nreo
        tally["calls"] += ncalls
        ctx.count(n_eval, keys)
        for ob, c in per_ob.items():
            tally["fails"][ob] = tally["fails"].get(ob, 0) + c
        for ob, case, detail in viol:
            tally["viol"].append((ob, case, detail))
        for c in touts:
            ctx.undecided.append({"obligation": P + "call-returns", "why": f"no result within the CPU budget ({TIMEOUT_S} s; more than 40 "
                                  f"nodes: max(2, (n/100)^2/5) s; presented instances: {PRESENT_TIMEOUT_S} s, then {PRESENT_RETRY_S} s) on {c}"})


def _size(case):
    return (case["n"], len(case["arcs"]) + sum(len(st["edits"]) + 1 for st in case.get("steps", [])),
            sum(a[2] for a in case["arcs"]))


def run(ctx: Ctx):
    use_repo()
    import solvor.flow  # noqa: imported before forking so that the pool workers inherit it
    import oracles.flow_exact  # noqa
    rng = random.Random(ctx.seed)
    notes = {}
    lasts_all = []

    def scope_run(name, results, **desc):
        tally = {"eval": 0, "rev": 0, "reo": 0, "calls": 0, "maxaug": 0, "fails": {}, "viol": [], "lasts": [], "pres": {}}
        _merge(ctx, results, tally)
        if tally["pres"]:
            desc["presentations_measured"] = dict(sorted(tally["pres"].items()))
            tally["calls"] *= 2  # every presented instance is solved twice (frame:same-call-same-answer)
        ctx.scope(name, evaluations=tally["eval"], max_flow_calls=tally["calls"],
                  needed_reverse_arc_in_reference_run=tally["rev"],
                  saturated_then_cancelled_then_reused_arc_in_reference_run=tally["reo"],
                  most_augmenting_paths_in_a_reference_run=tally["maxaug"],
                  failing_by_obligation=tally["fails"], **desc)
        notes[name] = {"evaluations": tally["eval"], "failing_by_obligation": tally["fails"]}
        lasts_all.extend(tally["lasts"])
        # report the smallest failing cases first
        tally["viol"].sort(key=lambda v: _size(v[1]))
        seen = {}
        for ob, case, detail in tally["viol"]:
            seen[ob] = seen.get(ob, 0) + 1
            if seen[ob] <= 2:
                ctx.violation(ob, case, detail)

    # 1. exhaustive small scope
    caps = (0, 1, 2)
    K = 4 if ctx.quick else 5
    jobs = []
    for n in (2, 3, 4):
        for k in range(0, K + 1):
            jobs += exhaustive_jobs(n, k, caps, "fwd")
    if not ctx.quick:  # reversed insertion order of the same multisets (changes BFS order)
        for n in (3, 4):
            for k in range(2, 5):
                jobs += exhaustive_jobs(n, k, caps, "rev")
    rng.shuffle(jobs)
    scope_run("exhaustive multisets of arcs", pmap(w_exhaustive, jobs), nodes="2..4", max_arcs=K,
              capacities=list(caps), source=0, sink="n-1", arcs="all ordered pairs incl. into-source/out-of-sink, "
              "parallel and anti-parallel", exhaustive=True)

    # 2. targeted: exhaustive 6-node crossing template + degenerate shapes
    t6 = t6_cases()
    chunks = [t6[i::32] for i in range(32)]
    scope_run("6-node crossing template (targeted, exhaustive)", pmap(w_list, chunks, chunksize=1),
              template="s->a,s->c,a->b,a->e,c->b,b->t,e->t", capacities=[1, 2], adjacency_orders=4,
              antiparallel_b_to_a=["absent", 0, 1], exhaustive=True)
    scope_run("degenerate shapes x label schemes", [w_list(degenerate_cases())], exhaustive=True)

    # 3. targeted random: layered graphs with crossing arcs
    per = 250
    nj = 120 if ctx.quick else 2400
    jobs = [("layered", rng.randrange(1 << 60), per, 0) for _ in range(nj)]
    scope_run("layered graphs with crossing arcs (targeted, seeded)", pmap(w_seeded, jobs), runs=nj * per,
              nodes="4..14", capacities="0..3")

    # 4. seeded random digraphs with every feature of the quantifier
    nj = 120 if ctx.quick else 2400
    nmax = 9 if ctx.quick else 10
    jobs = [("random", rng.randrange(1 << 60), per, nmax) for _ in range(nj)]
    scope_run("random digraphs", pmap(w_seeded, jobs), runs=nj * per, nodes=f"2..{nmax}",
              features="parallel, anti-parallel, into-source, out-of-sink, unreachable parts, zero and huge capacities, "
                       "isolated keys, 6 label schemes, 2- and 3-tuples")

    # 5. round 2 - re-open gadgets and path systems: saturate an arc, cancel it over the twin, need it again
    nj = 64 if ctx.quick else 1600
    jobs = [("reopen", rng.randrange(1 << 60), per, 0) for _ in range(nj)]
    scope_run("re-open gadgets (targeted, seeded)", pmap(w_seeded, jobs), runs=nj * per, nodes="6..40",
              structure="contested arc u->w; short route s~u->w~t, by-passes s~w and u~t (0..3 inner nodes), detours s~u and "
                        "w~t (by-pass length + 0..4); 1-2 gadgets in parallel or series; noise arcs; shuffled orders and ids",
              capacities="k (80%), 2k, k+1 with k in {1,2,3,7,2^53+1}; noise 0..3")
    nj = 64 if ctx.quick else 1600
    jobs = [("paths", rng.randrange(1 << 60), per, 0) for _ in range(nj)]
    scope_run("path systems with crossing arcs (seeded)", pmap(w_seeded, jobs), runs=nj * per, nodes="2..32",
              structure="2..5 source-sink chains with 0..6 inner nodes, 1..2*chains crossing arcs between inner nodes",
              capacities="k (85%) or 1..2k, k in {1,2,3}")

    # 6. round 2 - size ladder; verdict from the certificate on the returned flow + reference Edmonds-Karp (no brute force)
    if ctx.quick:
        ladder = [(10, 40), (11, 40), (12, 40), (33, 24), (65, 16), (129, 8), (140, 8), (260, 4), (520, 2)]
    else:
        ladder = [(10, 400), (11, 400), (12, 400), (33, 300), (65, 200), (129, 120), (130, 120), (140, 120), (260, 60),
                  (520, 40), (600, 40), (1040, 16), (2100, 8)]
    jobs = []
    for n, reps in ladder:
        for style in LADDER_STYLES:
            per_job = max(1, min(reps, 2000 // n))
            for _ in range(max(1, reps // per_job)):
                jobs.append(("ladder:" + style, rng.randrange(1 << 60), per_job, n))
    jobs.sort(key=lambda j: -j[3] * j[2])
    scope_run("size ladder (certifying oracle)", pmap(w_seeded, jobs, chunksize=1),
              sizes={str(n): reps * len(LADDER_STYLES) for n, reps in ladder}, styles=list(LADDER_STYLES),
              arcs="about 3n (bipartite: unit capacities, hub source and sink; others capacities 0..3)",
              oracle="returned flow checked directly: capacity, conservation, objective, no augmenting path in its residual "
                     "network; value compared with the reference Edmonds-Karp, which asserts its own saturated cut")

    # 7. round 2 - history mode: one dict object, in-place edits between calls, every call judged on its own
    nj = 64 if ctx.quick else 1200
    jobs = [("history", rng.randrange(1 << 60), per, 0) for _ in range(nj)]
    scope_run("history mode: same graph object, in-place edits between calls (seeded)", pmap(w_seeded, jobs),
              sequences=nj * per, calls_per_sequence="2..5",
              edits="capacity replaced in place (widen/narrow/close/open), capacities of two arcs swapped (counts and total "
                    "unchanged), arc added, arc deleted, delete+add, list rotated, key re-inserted; same call repeated; other "
                    "source/sink on the untouched object", base="layered / random digraphs (<= 14 nodes) and re-open gadgets")
    fresh = fresh_process([l for _c, l in lasts_all])
    n_diff = 0
    for (case, last), got in zip(lasts_all, fresh):
        if got != json.loads(json.dumps(last["result"])):
            n_diff += 1
            if n_diff <= 2:
                ctx.violation(P + "frame:result-independent-of-call-history", case,
                              f"last call of the sequence returned {str(last['result'])[:200]}; a fresh interpreter on an equal, newly "
                              f"built dict returns {str(got)[:200]}")
    ctx.count(len(fresh), ())
    ctx.scope("history mode: last call of a sequence vs. fresh process", evaluations=len(fresh), differing=n_diff,
              how="`python -m checks.C08 --fresh`: new interpreter, equal dict built from scratch (same key and list order), "
                  "one max_flow call; objective and flow dictionary must be identical")

    # 8. round 3 - presentation diversity: the small-scope and mid-size instances in other legal spellings
    what = dict(labels={k: fp.SCHEME_DOC[k] for k in fp.LABEL_SCHEMES},
                numbers="capacities all int | all float with integral value | mixed, an int first (ints that would leave the exact "
                        "float range stay ints)",
                containers="dict | defaultdict(list) | OrderedDict; adjacency list | tuple; arc records tuple | list | mixed, 2..4 "
                           "numeric fields", keys=fp.KEY_DOC,
                clauses="the five ensures clauses on the instance mapped back to 0..n-1 + frame:inputs-unchanged + "
                        "frame:same-call-same-answer")
    reps = 1 if ctx.quick else len(fp.LABEL_SCHEMES)
    KP = 3
    jobs = []
    for n in (2, 3, 4):
        for k in range(0, KP + 1):
            pres_ = [()] if k <= 2 else [(i,) for i in range(len(arc_types(n, caps)))]
            jobs += [(n, k, pre, caps, rng.randrange(1 << 60), reps * (3 if n < 4 else 1)) for pre in pres_]
    rng.shuffle(jobs)
    scope_run("presentation diversity: exhaustive multisets of arcs", pmap(w_present_exh, jobs), nodes="2..4", max_arcs=KP,
              capacities=list(caps), presentations_per_instance=f"{reps} (4 nodes), {3 * reps} (2-3 nodes); label schemes round "
              "robin, arc order shuffled, the other transformers drawn per instance", exhaustive=True, **what)
    bases = t6 + degenerate_cases()
    chunks = [(bases[i::32], rng.randrange(1 << 60), 1 if ctx.quick else 6) for i in range(32)]
    scope_run("presentation diversity: crossing template and degenerate shapes", pmap(w_present_list, chunks, chunksize=1),
              bases=len(bases), presentations_per_instance=1 if ctx.quick else 6, **what)
    plan = (("layered", 16, 0), ("random", 28, 9), ("reopen", 8, 0), ("paths", 8, 0)) if ctx.quick else \
           (("layered", 600, 0), ("random", 900, 10), ("reopen", 300, 0), ("paths", 300, 0))
    jobs = [(kind, rng.randrange(1 << 60), per, nmax) for kind, nj, nmax in plan for _ in range(nj)]
    scope_run("presentation diversity: layered / random / re-open / path-system networks (seeded)", pmap(w_present_seeded, jobs),
              runs={kind: nj * per for kind, nj, _ in plan}, nodes="2..40", **what)

    ctx.exhaustive = True
    ctx.notes["scope_results"] = notes
    sample_rng = random.Random(ctx.seed + 1)
    ctx.count(0, (), [t6[5], gen_layered(sample_rng), gen_random(sample_rng, 7), gen_reopen(sample_rng),
                      gen_history(sample_rng)])
    ctx.rule = ("every case = (graph dict in a fixed insertion order, source, sink); max_flow is called once and its Result "
                "checked against the five ensures clauses with the exact minimum cut as oracle. A history case = one graph "
                "dict + a list of steps (in-place edits, source, sink); max_flow is called after every step on the same object "
                "and judged against the arcs the dict holds at that moment. non-trivial = minimum cut >= 1 at some call "
                "(flow has to be routed); distinct = different (node count, source, sink, ordered arc list, labels, "
                "tuple form, steps). Per scope the evidence also counts the cases in which the reference Edmonds-Karp had to "
                "traverse a residual twin (maximum unreachable by forward arcs only in that BFS order) and those in which "
                "it saturated an arc, cancelled flow on it and pushed over it again. Size-ladder cases (10..2100 nodes) are "
                "decided by certificate, not by enumeration. A presented case (kind 'present') = plain instance + label specs + "
                "presentation record (dict kind, adjacency kind, arc-record kind, number types, key mode, seed): the graph object is "
                "built from it deterministically, max_flow is called twice on it, the answer is mapped back to 0..n-1 and judged "
                "on the plain instance; distinct also by labels and presentation record.")
    ctx.assumptions += [
        "domain: source != sink (a source-sink cut must exist); capacities are Python ints >= 0",
        "node labels are hashable and pairwise different as Python values (int, str, tuple, negative, falsy labels tried; round 3: "
        "None, frozensets, pairs of nodes, str()-colliding, hash-colliding, and one node spelled by equal values of different "
        "type such as 2 / 2.0 / True - Python's dict semantics make those the same node)",
        "presentation diversity reads the signature `dict[Node, list[tuple[Node, int, ...]]]` by duck typing: dict subclasses, a "
        "tuple as adjacency, a list as arc record and integral floats as capacities are accepted spellings; one-shot iterables, "
        "bool and non-integral capacities are not used",
        "max-flow/min-cut weak duality (a feasible flow of value v and a cut of capacity v prove each other optimal)",
    ]
    ctx.assumptions += [
        "history mode: the caller edits the dict and its lists in place between calls (tuples replaced, appended, deleted, "
        "rotated; keys re-inserted); each call is an input inside the quantifier and is judged on its own",
        "size ladder: a call that needs more than max(2, (n/100)^2/5) CPU-seconds (>= 40x the slowest call on the unchanged tree) is "
        "recorded as undecided, not judged; the remaining ladder cases of that worker job are then skipped and recorded likewise",
    ]
    ctx.trusted += ["oracles/flow_exact.py: edmonds_karp (self-certifying: asserts its own saturated cut), "
                    "min_cut_brute (n <= 8 cross-check), st_flow_defects (residual reachability on the returned flow)"]


def replay(rec):
    use_repo()
    case = rec["case"]
    if rec.get("obligation", "").endswith("frame:result-independent-of-call-history"):
        _o, _i, last = eval_history(case, want_last=True)
        got = fresh_process([last])[0]
        print("in-process, last call of the sequence:", last["result"])
        print("fresh process, equal dict           :", got)
        return 1 if got != json.loads(json.dumps(last["result"])) else 0
    out, info = eval_case(case)
    if case.get("kind") == "present":
        g, lab, _back, src, snk = present(case)
        print(f"presentation {case['pres']}\nmax_flow({g!r}, {src!r}, {snk!r})")
        print("plain instance: n", case["n"], "arcs", case["arcs"], "source", case["s"], "sink", case["t"])
    else:
        g, lab = build_graph(case)
    if case["n"] <= 40 and case.get("kind") != "present":
        print("graph:" if case.get("kind") != "history" else "initial graph:", g, "source:", lab[case["s"]], "sink:",
              lab[case["t"]])
    for k, st in enumerate(case.get("steps", [])):
        print(f"  call #{k + 1}: edits {st['edits']} then max_flow(g, {lab[st['s']]!r}, {lab[st['t']]!r})")
    print("oracle max flow:", info["value"])
    if info.get("timeout"):
        print("replay: no result within", TIMEOUT_S, "s")
        return 1
    for ob, d in out:
        print("replay:", ob, "::", d)
    if not out:
        print("replay: no violation")
    return 1 if out else 0


if __name__ == "__main__":
    if sys.argv[1:] == ["--fresh"]:
        use_repo()
        print(json.dumps([fresh_eval(it) for it in json.load(sys.stdin)]))

"""C14 - SCC, topological order and condensation match their definitions.   Bounded back end.

The graph of a case is: node set V (an iterable handed to the function) and the edges u -> w with u in V, w in
neighbors(u) and w in V (duplicates kept; neighbours outside V are not nodes, hence not edges).  Oracle: Boolean
transitive closure (oracles/digraph.py).  Contract, from the property statement:

  strongly_connected_components  the listed components contain only nodes of V, every node of V exactly once, no empty
                                 component (partition); each component is exactly a class of mutual reachability;
                                 sinks first: no edge from a component to a component listed later.
  topological_sort               graph acyclic  -> not INFEASIBLE, solution = every node of V exactly once, every edge
                                                   u -> w has u before w;
                                 graph cyclic (self loops count) -> status INFEASIBLE.
  condense                       condensed nodes (frozensets) = the classes of mutual reachability, each once; the
                                 adjacency has an edge A -> B (A != B) exactly when some edge u -> w has u in A, w in B;
                                 all adjacency entries are condensed nodes; the condensed graph is acyclic.
  *_edges(n, edges, backend="python")  the same contracts on V = 0..n-1 with the given edge list.

Round 2 (checks/C14_round2.py, oracles/digraph_big.py): a size ladder far beyond the small scope (10 .. 50000 nodes: long
cycles / paths / lassos with DFS depth = n, planted SCC structure, deep and layered DAGs, G(n, c/n), dense tournaments)
judged by linear certificates against an independent iterative Kosaraju (every edge forward in the order; same component
iff same class; no edge from an earlier to a later component; condensed edge set), and a history mode (one node list /
adjacency dict / neighbour function / edge list object edited in place between calls, every call twice, last answers
recomputed in a fresh process).

Round 3 (checks/C14_round3.py, checks/present3.py): presentation diversity - the small-scope and seeded digraphs once more,
each through a presentation drawn per instance (node labels None / falsy / tuples / pairs whose first entry is a node / mixed
types / equal-but-differently-typed spellings; outside neighbours None / () / pairs (node, tag) / look-alikes placed anywhere
in a neighbour list; one-shot and view containers, the callback's persistent list; *_edges through the default call), plus
the frame clauses 'callback-owned and caller-owned data unchanged' and 'same answer when the call is repeated'.
"""
from __future__ import annotations

import itertools
import random
from collections import Counter

from vf.core import Ctx, use_repo
from vf.pool import pmap
from oracles import digraph as D
from checks import C14_round2 as R2
from checks import C14_round3 as R3

LEVEL = "exploration"
SCHEMES = ("int", "intneg", "str", "tuple", "mixed", "frozenset")
OUT_TAG = "[neighbours-outside-node-set]"


class OutsideNodeSet(LookupError):
    """raised by a strict neighbour function when it is asked about something that is not a node"""


def label(scheme, i):
    if scheme == "int":
        return i
    if scheme == "intneg":
        return 11 - 3 * i
    if scheme == "str":
        return "v%d" % i
    if scheme == "tuple":
        return (i // 2, i % 2)
    if scheme == "frozenset":
        return frozenset((i, i + 1))
    if scheme == "mixed":
        return (i, "n%d" % i, (i, "t"), frozenset((i,)), i + 0.5)[i % 5]
    raise ValueError(scheme)


# ------------------------------------------------------------------ oracle data of a graph
class G:
    __slots__ = ("n", "succ", "masks", "reach", "cls", "acyclic", "cedges", "classes", "has_out", "nontrivial")

    def __init__(self, n, adj):
        self.n = n
        self.succ = [[j for j in a if j < n] for a in adj]
        self.has_out = any(j >= n for a in adj for j in a)
        self.masks = D.succ_masks(n, self.succ)
        self.reach = D.closure_masks(n, self.masks)
        self.cls = D.class_masks(n, self.reach)
        self.acyclic = D.acyclic(n, self.reach)
        self.cedges = D.condensation_edges(n, self.masks, self.cls)
        self.classes = set(self.cls)
        self.nontrivial = any(self.masks[u] & ~(1 << u) for u in range(n))


def bits(m):
    return [i for i in range(m.bit_length()) if (m >> i) & 1]


# ------------------------------------------------------------------ building the arguments of a case
def make_inputs(case):
    """(nodes factory, neighbour function, labels, label -> index)"""
    n, adj, scheme = case["n"], case["adj"], case["scheme"]
    n_all = max([n] + [j + 1 for a in adj for j in a])
    strict = case["outmode"] == "strict"
    nbrs_as = case["nbrs_as"]
    if scheme == "int":
        lab = list(range(n_all))
        idx = IDX if n_all <= len(IDX) else {i: i for i in range(n_all)}
        table = adj
        if nbrs_as == "list":
            if not strict:
                nb = (adj + [()] * (n_all - n)).__getitem__
            else:
                def nb(v):
                    if v >= n:
                        raise OutsideNodeSet(v)
                    return adj[v]
        else:
            table = {i: adj[i] for i in range(n)}
    else:
        lab = [label(scheme, i) for i in range(n_all)]
        idx = {l: i for i, l in enumerate(lab)}
        table = {lab[i]: [lab[j] for j in adj[i]] for i in range(n)}
    if scheme != "int" or nbrs_as != "list":
        def nb(v):
            lst = table.get(v)
            if lst is None:
                if strict:
                    raise OutsideNodeSet(v)
                return ()
            if nbrs_as == "list":
                return lst
            if nbrs_as == "tuple":
                return tuple(lst)
            if nbrs_as == "iter":
                return iter(lst)
            return (x for x in lst)  # "gen"
    order = [lab[i] for i in case["order"]]
    nodes_as = case["nodes_as"]
    if nodes_as == "list":
        nodes = lambda: order  # noqa: E731
    elif nodes_as == "tuple":
        nodes = lambda: tuple(order)  # noqa: E731
    elif nodes_as == "iter":
        nodes = lambda: iter(order)  # noqa: E731
    elif nodes_as == "dictkeys":
        nodes = lambda: dict.fromkeys(order).keys()  # noqa: E731
    else:
        nodes = lambda: (x for x in order)  # noqa: E731
    return nodes, nb, lab, idx


IDX = {i: i for i in range(64)}


# ------------------------------------------------------------------ the contracts
def exc_obl(exc, g):
    if isinstance(exc, OutsideNodeSet):
        return ("ensures:returns" + OUT_TAG, f"called the neighbour function on {exc.args[0]!r}, which is not a node")
    return ("ensures:returns", f"raised {type(exc).__name__}: {exc}")


def chk_scc(res, g, idx):
    n = g.n
    sol = res.solution
    if not isinstance(sol, (list, tuple)):
        return [("ensures:partition-of-the-node-set", f"solution is {sol!r}")]
    out = []
    seen = 0
    pos = [-1] * n
    cmasks = []
    foreign = []
    for ci, comp in enumerate(sol):
        m = 0
        for x in comp:
            try:
                i = idx.get(x, -1)
            except TypeError:
                i = -1
            if i < 0 or i >= n:
                foreign.append(x)
                continue
            b = 1 << i
            if seen & b:
                out.append(("ensures:partition-of-the-node-set", f"node {x!r} is listed more than once: {sol!r}"))
            seen |= b
            m |= b
            pos[i] = ci
        if m == 0 and not any(True for _ in comp):
            out.append(("ensures:partition-of-the-node-set", f"empty component in {sol!r}"))
        cmasks.append(m)
    if foreign:
        out.append(("ensures:components-contain-only-nodes-of-the-node-set" + OUT_TAG,
                    f"{foreign!r} not in the node set, components {sol!r}"))
    if seen != (1 << n) - 1:
        out.append(("ensures:partition-of-the-node-set", f"nodes with index {bits(((1 << n) - 1) & ~seen)} are in no component: {sol!r}"))
    cls = g.cls
    for m in cmasks:
        if m and m != cls[(m & -m).bit_length() - 1]:
            out.append(("ensures:components==classes-of-mutual-reachability",
                        f"component with node indices {bits(m)} but the class is {bits(cls[(m & -m).bit_length() - 1])}: {sol!r}"))
            break
    succ = g.succ
    for u in range(n):
        pu = pos[u]
        if pu < 0:
            continue
        for w in succ[u]:
            if pos[w] > pu:
                out.append(("ensures:sinks-first", f"edge index {u}->{w} goes from component #{pu} to the later component #{pos[w]}: {sol!r}"))
                return out
    return out


def chk_topo(res, g, idx):
    from solvor.types import Status
    n = g.n
    if not g.acyclic:
        if res.status != Status.INFEASIBLE:
            return [("ensures:cyclic=>INFEASIBLE", f"graph has a cycle, status {res.status!r}, solution {res.solution!r}")]
        return []
    sol = res.solution
    if res.status == Status.INFEASIBLE or not isinstance(sol, (list, tuple)):
        return [("ensures:acyclic=>ordering", f"graph is acyclic, status {res.status!r}, solution {sol!r}")]
    pos = [-1] * n
    out = []
    for p, x in enumerate(sol):
        try:
            i = idx.get(x, -1)
        except TypeError:
            i = -1
        if i < 0 or i >= n or pos[i] >= 0:
            out.append(("ensures:ordering-is-a-permutation-of-the-nodes", f"{x!r} is not a node or repeated: {sol!r}"))
            return out
        pos[i] = p
    if len(sol) != n:
        return [("ensures:ordering-is-a-permutation-of-the-nodes", f"{len(sol)} entries for {n} nodes: {sol!r}")]
    succ = g.succ
    for u in range(n):
        for w in succ[u]:
            if pos[u] >= pos[w]:
                return [("ensures:every-edge-points-forward", f"edge index {u}->{w} but order is {sol!r}")]
    return out


def chk_condense(res, g, idx):
    n = g.n
    sol = res.solution
    try:
        cn, adjd = sol
        cn = list(cn)
        items = list(adjd.items())
    except Exception:  # noqa: BLE001
        return [("ensures:condensed-nodes==components", f"solution is {sol!r}")]
    out = []
    foreign = []

    def mask(fs):
        m = 0
        for x in fs:
            try:
                i = idx.get(x, -1)
            except TypeError:
                i = -1
            if i < 0 or i >= n:
                foreign.append(x)
            else:
                m |= 1 << i
        return m

    nm = []
    for fs in cn:
        if not isinstance(fs, frozenset):
            out.append(("ensures:condensed-nodes==components", f"condensed node {fs!r} is not a frozenset"))
        nm.append(mask(fs))
    got_nodes = [m for m in nm if m]
    if len(set(got_nodes)) != len(got_nodes) or set(got_nodes) != g.classes:
        out.append(("ensures:condensed-nodes==components",
                    f"condensed nodes {cn!r}, classes of mutual reachability (by node index) {sorted(bits(m) for m in g.classes)}"))
    nodeset = set(cn)
    got = set()
    for a, lst in items:
        if a not in nodeset:
            out.append(("ensures:condensed-edges-join-condensed-nodes", f"adjacency key {a!r} is not a condensed node"))
            continue
        am = mask(a)
        for b in lst:
            if b not in nodeset:
                out.append(("ensures:condensed-edges-join-condensed-nodes", f"successor {b!r} of {a!r} is not a condensed node"))
                continue
            bm = mask(b)
            if am and bm:
                got.add((am, bm))
    if foreign:
        out.append(("ensures:condensed-nodes-contain-only-nodes-of-the-node-set" + OUT_TAG,
                    f"{sorted(set(map(repr, foreign)))} not in the node set: {sol!r}"))
    loops = [e for e in got if e[0] == e[1]]
    if loops:
        out.append(("ensures:condensed-graph-acyclic", f"self loop on condensed node with indices {bits(loops[0][0])}: {sol!r}"))
    got_x = {e for e in got if e[0] != e[1]}
    if got_x != g.cedges:
        miss = g.cedges - got_x
        extra = got_x - g.cedges
        out.append(("ensures:condensed-edge<=>some-original-edge-joins-them",
                    f"missing {[(bits(a), bits(b)) for a, b in miss]}, spurious {[(bits(a), bits(b)) for a, b in extra]}: {sol!r}"))
    # acyclicity of what was returned, by closure on the returned condensed graph
    ms = sorted({m for e in got for m in e})
    if ms and not loops:
        k = {m: i for i, m in enumerate(ms)}
        sm = [0] * len(ms)
        for a, b in got:
            sm[k[a]] |= 1 << k[b]
        if not D.acyclic(len(ms), D.closure_masks(len(ms), sm)):
            out.append(("ensures:condensed-graph-acyclic", f"returned condensed graph has a cycle: {sol!r}"))
    return out


CHK = {"scc": chk_scc, "topo": chk_topo, "condense": chk_condense, "scc_edges": chk_scc, "topo_edges": chk_topo}
FULL = {"scc": "strongly_connected_components", "topo": "topological_sort", "condense": "condense",
        "scc_edges": "strongly_connected_components_edges", "topo_edges": "topological_sort_edges"}


# A change that makes one of the functions run for ever must end in a verdict, not in a hung check: every call gets a CPU-time
# budget (ITIMER_VIRTUAL: independent of machine load; milliseconds are normal), a function that exceeded it once is not called
# again in this worker (its violation 'ensures:returns' is already recorded).
_DEAD: set = set()


class _Skip(Exception):
    pass


def call_guarded(fn, f, n, *args, **kw):
    if fn in _DEAD:
        raise _Skip()
    try:
        with R3.cpu_guard(5 + n // 1000):
            return f(*args, **kw)
    except R3.CpuBudget:
        _DEAD.add(fn)
        raise


def run_callback(case, g, fns=("scc", "topo", "condense")):
    """[(fn, obligation suffix, detail)] for the callback API functions on one case."""
    from solvor.scc import condense, strongly_connected_components, topological_sort
    F = {"scc": strongly_connected_components, "topo": topological_sort, "condense": condense}
    nodes, nb, lab, idx = make_inputs(case)
    out = []
    for fn in fns:
        try:
            res = call_guarded(fn, F[fn], g.n, nodes(), nb)
        except _Skip:
            continue
        except Exception as e:  # noqa: BLE001
            o, d = exc_obl(e, g)
            out.append((fn, o, d))
            continue
        for o, d in CHK[fn](res, g, idx):
            out.append((fn, o, d))
    return out


def run_edges(case, g, fns=("scc_edges", "topo_edges")):
    from solvor.scc import strongly_connected_components_edges, topological_sort_edges
    F = {"scc_edges": strongly_connected_components_edges, "topo_edges": topological_sort_edges}
    edges = [tuple(e) for e in case["edges"]]
    out = []
    for fn in fns:
        try:
            res = call_guarded(fn, F[fn], case["n"], case["n"], edges, backend="python")
        except _Skip:
            continue
        except Exception as e:  # noqa: BLE001
            out.append((fn, "ensures:returns", f"raised {type(e).__name__}: {e}"))
            continue
        for o, d in CHK[fn](res, g, IDX if case["n"] <= len(IDX) else {i: i for i in range(case["n"])}):
            out.append((fn, o, d))
    return out


# ------------------------------------------------------------------ accumulation
class Acc:
    def __init__(self):
        self.evals = 0
        self.cases = 0
        self.nontrivial = 0
        self.keys = set()
        self.viol = []
        self.per_obl = Counter()
        self.samples = []
        self.with_out = 0
        self.with_dup = 0
        self.cyclic = 0

    def add(self, bad, case):
        for fn, o, d in bad:
            name = f"C14/{FULL[fn]}/{o}"
            self.per_obl[name] += 1
            if self.per_obl[name] <= 3:
                c = dict(case)
                c["fn"] = fn
                self.viol.append((name, c, d))

    def data(self):
        return {k: getattr(self, k) for k in ("evals", "cases", "nontrivial", "keys", "viol", "samples", "with_out",
                                              "with_dup", "cyclic")} | {"per_obl": dict(self.per_obl)}


def cb_case(n, adj, order=None, scheme="int", nodes_as="list", nbrs_as="list", outmode="lenient"):
    return {"api": "callback", "n": n, "adj": adj, "order": list(range(n)) if order is None else order,
            "scheme": scheme, "nodes_as": nodes_as, "nbrs_as": nbrs_as, "outmode": outmode}


def edge_case(n, adj, rng=None):
    per = [[(u, w) for w in adj[u]] for u in range(n)]
    if rng is None:
        edges = [e for p in per for e in p]
    else:  # random interleaving that keeps each node's neighbour order
        ptr = [0] * n
        pool = [u for u in range(n) for _ in per[u]]
        rng.shuffle(pool)
        edges = []
        for u in pool:
            edges.append(per[u][ptr[u]])
            ptr[u] += 1
    return {"api": "edges", "n": n, "edges": [list(e) for e in edges]}


def do_case(acc, g, case, count, edges_too=False, rng=None):
    """Evaluate one callback case (and optionally the *_edges functions on the same adjacency)."""
    bad = run_callback(case, g)
    acc.evals += 3
    acc.cases += 1
    if bad:
        acc.add(bad, case)
    if edges_too and not g.has_out:
        ec = edge_case(g.n, case["adj"], rng)
        bad = run_edges(ec, g)
        acc.evals += 2
        if bad:
            acc.add(bad, ec)
    if g.has_out:
        acc.with_out += 1
    if not g.acyclic:
        acc.cyclic += 1
    if g.nontrivial and count:
        acc.nontrivial += 1
    if not acc.samples and g.nontrivial:
        acc.samples.append(case)


# ------------------------------------------------------------------ enumerated scopes
def seqs(alphabet, maxlen):
    out = []
    for ln in range(maxlen + 1):
        out += [list(t) for t in itertools.product(alphabet, repeat=ln)]
    return out


def work_S1(args):
    """n nodes, every node's neighbour list = any sequence of length <= L over V (+ one outside node when with_out);
    require_out: only the cases that have an outside neighbour (the others belong to another S1 item)."""
    _, n, L, with_out, require_out, first, seed = args
    use_repo()
    acc = Acc()
    S = seqs(list(range(n + 1 if with_out else n)), L)
    rest = [S] * (n - 1)
    for tail in itertools.product(*rest):
        adj = [S[first]] + list(tail) if n else []
        g = G(n, adj)
        if require_out and not g.has_out:
            continue
        do_case(acc, g, cb_case(n, adj), True, edges_too=True)
        if any(len(set(a)) != len(a) for a in adj):
            acc.with_dup += 1
        if g.has_out and n <= 2:
            do_case(acc, g, cb_case(n, adj, outmode="strict"), True)
    return acc.data()


def work_S2(args):
    """4 nodes, neighbour lists of length <= 2 over V + one outside node; cases without duplicate and without
    outside neighbour belong to S3 and are skipped here."""
    _, n, L, f0, f1, seed = args
    use_repo()
    acc = Acc()
    S = seqs(list(range(n + 1)), L)
    for tail in itertools.product(S, repeat=n - 2):
        adj = [S[f0], S[f1]] + list(tail)
        dup = any(len(set(a)) != len(a) for a in adj)
        g = G(n, adj)
        if not dup and not g.has_out:
            continue
        if dup:
            acc.with_dup += 1
        do_case(acc, g, cb_case(n, adj), True, edges_too=True)
    return acc.data()


def perms_of_subsets(n):
    P = {}
    for m in range(1 << n):
        P[m] = [list(p) for p in itertools.permutations(bits(m))]
    return P


def work_S3(args):
    """4 nodes, every simple digraph (self loops allowed): ascending, descending and `k` seeded neighbour orders
    (half of them with a seeded node order).  With loopfree=True: every loop-free digraph with EVERY neighbour
    order of every node (16^4 cases)."""
    _, n, fixed, k, loopfree, seed = args
    use_repo()
    acc = Acc()
    rng = random.Random(f"{seed}/S3/{fixed}/{loopfree}")
    P = perms_of_subsets(n)
    for rows in itertools.product(range(1 << n), repeat=n - len(fixed)):
        rows = fixed + rows
        if loopfree:
            if any((m >> i) & 1 for i, m in enumerate(rows)):
                continue
            g = G(n, [P[m][0] for m in rows])
            first = True
            for adj in itertools.product(*[P[m] for m in rows]):
                do_case(acc, g, cb_case(n, list(adj)), True, edges_too=first)
                first = False
            continue
        asc = [P[m][0] for m in rows]
        g = G(n, asc)
        loops = any((m >> i) & 1 for i, m in enumerate(rows))
        done = set()
        cands = [(asc, None), ([P[m][-1] for m in rows], None)]
        for j in range(k):
            cands.append(([rng.choice(P[m]) for m in rows], rng.sample(range(n), n) if j % 2 else None))
        for adj, order in cands:
            key = (tuple(map(tuple, adj)), tuple(order) if order else None)
            if key in done or (not loops and order is None):  # loop-free + identity order belongs to the full scope
                continue
            done.add(key)
            do_case(acc, g, cb_case(n, adj, order), True, edges_too=order is None)
    return acc.data()


def work_S4(args):
    """5 nodes, every loop-free simple digraph, ascending neighbour order (thorough only)."""
    _, n, pre, plen, seed = args
    use_repo()
    acc = Acc()
    pairs = [(u, v) for u in range(n) for v in range(n) if u != v]
    for tail in itertools.product((0, 1), repeat=len(pairs) - plen):
        b = pre + tail
        adj = [[] for _ in range(n)]
        for (u, v), x in zip(pairs, b):
            if x:
                adj[u].append(v)
        g = G(n, adj)
        do_case(acc, g, cb_case(n, adj), True, edges_too=True)
    return acc.data()


# ------------------------------------------------------------------ seeded families
def fam_general(rng):
    n = rng.randint(6, 12)
    p = rng.choice((0.06, 0.12, 0.2, 0.35))
    adj = [[v for v in range(n) if rng.random() < p] for _ in range(n)]
    return n, adj


def fam_dag(rng):
    n = rng.randint(1, 12)
    perm = list(range(n))
    rng.shuffle(perm)
    p = rng.choice((0.15, 0.3, 0.6))
    adj = [[] for _ in range(n)]
    for i in range(n):
        for j in range(i + 1, n):
            if rng.random() < p:
                adj[perm[i]] += [perm[j]] * rng.choice((1, 1, 2, 3))
    if n > 1 and rng.random() < 0.35:
        i = rng.randrange(1, n)
        adj[perm[i]].append(perm[rng.randrange(0, i + 1)])  # one back edge or self loop
    return n, adj


def fam_chain(rng):
    """blocks (cycles with chords, singletons with or without loop) joined by forward edges"""
    sizes = [rng.choice((1, 1, 2, 3, 4)) for _ in range(rng.randint(1, 5))]
    n = sum(sizes)
    ids = list(range(n))
    rng.shuffle(ids)
    blocks = []
    k = 0
    for s in sizes:
        blocks.append(ids[k:k + s])
        k += s
    adj = [[] for _ in range(n)]
    for b in blocks:
        if len(b) == 1:
            if rng.random() < 0.3:
                adj[b[0]].append(b[0])
        else:
            for i, u in enumerate(b):
                adj[u].append(b[(i + 1) % len(b)])
            for _ in range(rng.randint(0, len(b))):
                adj[rng.choice(b)].append(rng.choice(b))
    for i in range(len(blocks)):
        for j in range(i + 1, len(blocks)):
            for _ in range(rng.choice((0, 0, 1, 1, 2))):
                adj[rng.choice(blocks[i])].append(rng.choice(blocks[j]))
    return n, adj


def fam_parts(rng):
    parts = [rng.choice((fam_dag, fam_chain, fam_tiny))(rng) for _ in range(rng.randint(2, 3))]
    n = sum(p[0] for p in parts)
    ids = list(range(n))
    rng.shuffle(ids)
    adj = [[] for _ in range(n)]
    k = 0
    for pn, padj in parts:
        m = ids[k:k + pn]
        k += pn
        for u in range(pn):
            adj[m[u]] = [m[w] for w in padj[u]]
    return n, adj


def fam_tiny(rng):
    n = rng.randint(0, 5)
    adj = [[rng.randrange(n) for _ in range(rng.choice((0, 1, 1, 2, 3)))] for _ in range(n)]
    return n, adj


def fam_five(rng):
    n = 5
    p = rng.choice((0.1, 0.2, 0.3, 0.5))
    adj = [[v for v in range(n) if rng.random() < p] for _ in range(n)]
    return n, adj


FAMILIES = {"general": fam_general, "dag": fam_dag, "chain": fam_chain, "parts": fam_parts, "tiny": fam_tiny,
            "five": fam_five}


def decorate(n, adj, rng):
    """duplicates, outside neighbours, shuffled neighbour order; returns adj (outside nodes have index >= n)"""
    adj = [list(a) for a in adj]
    if n and rng.random() < 0.4:
        for _ in range(rng.randint(1, 3)):
            u = rng.randrange(n)
            if adj[u]:
                adj[u].append(rng.choice(adj[u]))
    if n and rng.random() < 0.35:
        k = rng.randint(1, 2)
        for _ in range(rng.randint(1, 3)):
            adj[rng.randrange(n)].append(n + rng.randrange(k))
    for a in adj:
        rng.shuffle(a)
    return adj


def work_R(args):
    _, fam, seed, lo, hi = args
    use_repo()
    acc = Acc()
    for i in range(lo, hi):
        rng = random.Random(f"{seed}/R/{fam}/{i}")
        n, adj = FAMILIES[fam](rng)
        adj = decorate(n, adj, rng)
        g = G(n, adj)
        # n <= 5 with plain int labels is the territory of the enumerated scopes: use other labels there
        scheme = rng.choice(SCHEMES if n >= 6 else SCHEMES[1:])
        order = rng.sample(range(n), n)
        case = cb_case(n, adj, order, scheme, rng.choice(("list", "tuple", "iter", "gen", "dictkeys")),
                       rng.choice(("list", "tuple", "iter", "gen")),
                       "strict" if g.has_out and rng.random() < 0.4 else "lenient")
        do_case(acc, g, case, False, edges_too=True, rng=rng)
        if any(len(set(a)) != len(a) for a in adj):
            acc.with_dup += 1
        if g.nontrivial:
            acc.keys.add(hash((n, tuple(map(tuple, adj)), tuple(order), scheme, case["nodes_as"], case["nbrs_as"], case["outmode"])))
    return acc.data()


WORKERS = {"S1": work_S1, "S2": work_S2, "S3": work_S3, "S4": work_S4, "R": work_R, "L": R2.work_ladder,
           "H": R2.work_history, "P": R3.work_present}


def work(args):
    return WORKERS[args[0]](args)


# ------------------------------------------------------------------ driver
def run(ctx: Ctx):
    from vf.prove import prove
    prove(ctx, ["specs.toposort"], "C14", lemma_groups=("topo",))  # deductive part: Kahn's topological_sort (specs/toposort.py)
    ctx.assumptions.append("specs/toposort.py: `nodes` yields pairwise distinct hashable labels (ghost posf), `neighbors` is a pure function "
                           "returning a finite sequence; topological_sort_edges, strongly_connected_components and condense have no contract (bounded only)")
    use_repo()
    ctx.notes["oracle_self_test_graphs"] = D.self_test()
    q = ctx.quick
    seed = ctx.seed
    items = []
    L1 = 3
    for n in (0, 1, 2, 3):
        if q and n == 3:  # quick: length <= 3 without outside node, length <= 2 with it
            items += [("S1", n, L1, False, False, f, seed) for f in range(len(seqs(list(range(n)), L1)))]
            items += [("S1", n, 2, True, True, f, seed) for f in range(len(seqs(list(range(n + 1)), 2)))]
        else:
            ns = len(seqs(list(range(n + 1)), L1))
            items += [("S1", n, L1, True, False, f, seed) for f in (range(ns) if n else [0])]
    ctx.scope("S1: every neighbour-list assignment (sequences with repetition, one outside node)", nodes="0..3",
              max_list_length=L1 if not q else "3 (0..2 nodes; 3 nodes: 3 without / 2 with outside neighbours)",
              out_of_set_neighbours=True, functions="all five (the *_edges ones when no outside neighbour)",
              strict_neighbour_function="also, for <= 2 nodes", exhaustive=True)
    L2 = 1 if q else 2  # quick: 6^4 assignments; thorough: 31^4
    ns = len(seqs(list(range(5)), L2))
    items += [("S2", 4, L2, a, b, seed) for a in range(ns) for b in range(ns)]
    ctx.scope("S2: 4 nodes, neighbour lists over V + one outside node, restricted to cases with a duplicate or an "
              "outside neighbour", max_list_length=L2, exhaustive=True)
    k3 = 2 if q else 10
    items += [("S3", 4, (a, b), k3, False, seed) for a in range(16) for b in range(16)]
    items += [("S3", 4, (a, b), 0, True, seed) for a in range(16) if not a & 1 for b in range(16) if not b & 2]
    ctx.scope("S3a: every loop-free digraph on 4 nodes (4096) with every neighbour order of every node (65536 cases)",
              exhaustive=True)
    ctx.scope("S3b: every digraph on 4 nodes (self loops allowed, 65536 adjacency matrices)",
              neighbour_orders=f"ascending, descending, {k3} seeded (half of them with a seeded node order)",
              exhaustive=True)
    if not q:
        plen = 8
        items += [("S4", 5, pre, plen, seed) for pre in itertools.product((0, 1), repeat=plen)]
        ctx.scope("S4: every loop-free simple digraph on 5 nodes (2^20), ascending neighbour order", exhaustive=True)
    plan = {"general": 3000 if q else 30000, "dag": 5000 if q else 40000, "chain": 5000 if q else 40000,
            "parts": 2000 if q else 20000, "tiny": 4000 if q else 20000, "five": 6000 if q else 30000}
    for fam, cnt in plan.items():
        items += [("R", fam, seed, lo, min(cnt, lo + 250)) for lo in range(0, cnt, 250)]
    ctx.scope("seeded random families", counts=plan,
              description={"general": "6..12 nodes, density 0.06..0.35", "dag": "1..12 nodes, hidden order, parallel edges, "
                           "sometimes one back edge or self loop", "chain": "up to 5 blocks (cycles with chords / singletons) "
                           "joined forward", "parts": "2..3 weakly connected parts", "tiny": "0..5 nodes", "five": "5 nodes",
                           "all": "plus duplicates, 1..2 outside neighbours (lenient or strict neighbour function), shuffled "
                                  "node and neighbour order, label scheme int/negative int/str/tuple/frozenset/mixed, nodes "
                                  "as list/tuple/iterator/generator/dict keys, neighbours as list/tuple/iterator/generator"})
    # round 2: size ladder (linear certificates) and history mode (checks/C14_round2.py)
    ctx.notes["oracle_self_test_graphs_big"] = R2.DB.self_test()
    lspecs = R2.ladder_specs(q, seed)
    lspecs.sort(key=lambda sp: -(sp["size"] ** 2 if sp["family"] in ("complete", "tournament") else sp["size"]))
    nbig = sum(1 for sp in lspecs if sp["size"] >= 2000)
    lchunks = [("L", [sp]) for sp in lspecs[:nbig]] + [("L", lspecs[i:i + 8]) for i in range(nbig, len(lspecs), 8)]
    hspecs = R2.history_specs(q, seed)
    hdeep = [("H", [h]) for h in hspecs if h["size"] != "small"]
    hsmall = [h for h in hspecs if h["size"] == "small"]
    hchunks = [("H", hsmall[i:i + 50]) for i in range(0, len(hsmall), 50)]
    # round 3: presentation diversity (checks/C14_round3.py)
    pchunks, pplan, _nenum = R3.specs(q, seed)
    items = lchunks[:nbig] + hdeep + items + lchunks[nbig:] + hchunks + pchunks
    results = pmap(work, items, chunksize=1)
    tot = Counter()
    keys = set()
    per_obl = Counter()
    viol = []
    samples = []
    sampled = set()
    r2 = Counter()
    r3 = Counter()
    lasts = []
    for it, r in zip(items, results):
        for k in ("evals", "cases", "nontrivial", "with_out", "with_dup", "cyclic"):
            tot[k] += r[k]
        keys |= r["keys"]
        per_obl.update(r["per_obl"])
        viol += r["viol"]
        for k, v in r.get("r2", {}).items():
            if k.startswith("ladder_max"):
                r2[k] = max(r2[k], v)
            else:
                r2[k] += v
        r3.update(r.get("r3", {}))
        lasts += r.get("lasts", [])
        kind = (it[0], it[1] if it[0] not in ("L", "H") else None)
        if kind not in sampled and r["samples"]:
            sampled.add(kind)
            samples.append(r["samples"][0])
    # history mode: the last answers of a sample of sessions, recomputed in a fresh interpreter on newly built arguments
    import json as _json
    try:
        fresh = R2.fresh_process([l for _h, l in lasts])
        for (hs, last), ans in zip(lasts, fresh):
            r2["history_fresh_process_comparisons"] += 1
            here = _json.loads(_json.dumps(last["answers"]))
            for fn in here:
                if here[fn] != ans.get(fn):
                    name = f"C14/{FULL[fn]}/ensures:same-answer-in-a-fresh-process"
                    per_obl[name] += 1
                    viol.append((name, {"fn": fn, "api": "history", "history": hs, "upto": None, "fresh": True},
                                 f"[history, last round] in this process (after the earlier calls and in-place edits) "
                                 f"{R2.short(here[fn], 300)}, in a fresh process on an equal graph {R2.short(ans.get(fn), 300)}"))
    except Exception as e:  # noqa: BLE001
        ctx.defects.append(f"C14 history: fresh-process comparison failed: {e}")
    fam_count = Counter(sp["family"] for sp in lspecs)
    ctx.scope("round 2 size ladder (linear certificates against an independent iterative Kosaraju, cross-checked with "
              "planted classes / Boolean closure <= 700 nodes / sampled forward-backward reachability; oracles/digraph_big.py)",
              graphs=dict(fam_count), max_nodes=r2["ladder_max_nodes"], max_edges=r2["ladder_max_edges"],
              planted_classes_known=r2["ladder_planted_classes"],
              sizes="10,11,12,33,65,129,140,260,520,599..602,650,700,1000,1030,2049,4100,8200" + ("" if q else ",20000,50000"),
              description={"cycle/path/lasso/bipath/two_cycles/cycle_chain": "DFS depth = number of nodes",
                           "planted": "blocks (Hamiltonian cycle + chords) in a hidden order, forward edges, duplicates, "
                                      "self loops, outside neighbours; mixed / all-singleton / few big blocks",
                           "dag_deep": "hidden Hamiltonian path + 2n forward chords, with or without one back edge / self loop",
                           "dag_layers": "sqrt(n)-wide layers, parallel edges", "gnp": "n*c random edges, c in 0.8,1.2,2,4",
                           "complete/tournament": "10..140 (thorough 260) nodes, up to 19460 (thorough 67340) edges; transitive or random",
                           "tree/hub": "binary out-/in-tree; hub with 2-cycles, sources and sinks",
                           "presentations": "per graph: as generated; reversed or shuffled node+neighbour order; relabelled "
                                            "(negative int/str/tuple/frozenset/mixed) or one-shot iterables; strict "
                                            "neighbour function when there are outside neighbours; *_edges on the edge list"})
    ctx.scope("round 2 history mode: one node list, adjacency dict, neighbour function and edge list object; in-place edits "
              "between rounds; all five functions called twice per round and judged against the oracle for the graph as it "
              "is then", sessions=r2["history_sessions"], calls=r2["history_calls"],
              fresh_process_comparisons=r2["history_fresh_process_comparisons"],
              description={"small": "1..8(+) nodes, 3..6 rounds: add/insert/pop/clear/reverse neighbours, new node, node "
                                    "dropped from the node set (its in-edges become outside neighbours), node list rotated",
                           "deep": "path of 580..990 nodes extended in place across 600 / 1000 nodes, closed to a cycle, "
                                   "opened again"})
    ctx.notes["round2"] = dict(r2)
    pick = lambda pre: {k[len(pre):]: v for k, v in r3.items() if k.startswith(pre)}  # noqa: E731
    ctx.scope("round 3 presentation diversity: the digraphs of the small scope and of the seeded families once more, each "
              "through a presentation drawn per instance (checks/C14_round3.py, checks/present3.py)",
              cases=r3["cases"],
              structural_generators={"enumerated": "0..3 nodes, every assignment of neighbour lists of length <= 2 over the "
                                                   "nodes + one outside slot" + ("" if q else " (4 presentations each)"),
                                     "seeded families (with duplicates / outside neighbours / shuffles as in round 1)": pplan},
              transformers={"node labels": pick("labels:"),
                            "equal-but-differently-typed spellings of a node in neighbour lists (1 / 1.0 / True)":
                                r3["with-equal-but-differently-typed-spellings"],
                            "outside neighbours drawn (by kind of value)": pick("outside:"),
                            "nodes as": pick("nodes-as:"), "neighbours as": pick("neighbours-as:"),
                            "neighbour function on non-nodes": pick("neighbour-function:"),
                            "*_edges calls without a backend argument": pick("edges-calls:")},
              cases_with_outside_neighbours=r3["cases-with-outside-neighbours"],
              cases_with_a_node_labelled_None=r3["cases-with-a-node-labelled-None"],
              cases_with_a_pair_node_whose_first_entry_is_a_node=r3["cases-with-a-pair-node-whose-first-entry-is-a-node"],
              calls="strongly_connected_components, topological_sort, condense, each twice; on half of the int-presentable "
                    "cases without outside neighbours also the two *_edges functions without a backend argument",
              frame_clauses=["the callback's own (persistent) neighbour lists unchanged after the call",
                             "the caller's node list unchanged after the call",
                             "same answer when the call is repeated"],
              left_out="unhashable neighbours and NaN labels (membership in the node set is undefined for them), duplicate "
                       "entries in the node iterable, neighbour functions that answer differently on a second call",
              cpu_seconds=round(r3["cpu_ms"] / 1000, 1))
    ctx.notes["round3"] = dict(r3)
    viol.sort(key=lambda v: (v[0], v[1].get("n", 0), len(str(v[1]))))  # smallest graph first
    kept = Counter()
    for name, case, detail in viol:
        kept[name] += 1
        if kept[name] <= 6:
            ctx.violation(name, case, detail)
    ctx.count(tot["evals"], keys, samples)
    ctx.exhaustive = True
    ctx.notes["distinct_nontrivial"] = tot["nontrivial"] + len(keys)
    ctx.notes["cases"] = tot["cases"]
    ctx.notes["cases_with_outside_neighbours"] = tot["with_out"]
    ctx.notes["cases_with_duplicate_edges"] = tot["with_dup"]
    ctx.notes["cases_cyclic"] = tot["cyclic"]
    ctx.notes["violations_by_obligation"] = dict(per_obl)
    ctx.rule = ("case = (node order, neighbour list of every node incl. duplicates and outside neighbours, label scheme, "
                "containers, lenient/strict neighbour function). Enumerated scopes S1..S4 enumerate each case once and are "
                "pairwise disjoint (different node counts; S2 skips the cases of S3), so distinct by construction; random "
                "cases use non-int labels when n <= 5 (disjoint from the int-labelled enumerations) and are de-duplicated "
                "by hash. Non-trivial = at least one edge between two different nodes of the node set. evaluations = "
                "checked calls: strongly_connected_components, topological_sort, condense per case, plus the two *_edges "
                "functions (backend=python) when the case has no outside neighbour. By relabelling symmetry the identity "
                "node order over all labelled digraphs covers every node order of every digraph. Round 2: one case per "
                "(ladder spec, presentation variant), graph regenerated from the spec, counted when non-trivial; one per "
                "history session; distinct by construction; every call of a session is an evaluation. Round 3: case = "
                "(labels, neighbour lists as written incl. outside values and spellings, node order, containers, "
                "lenient/strict), distinct by hash, counted when non-trivial; repeats of a call are not counted.")
    ctx.assumptions += [
        "the graph of a case is the one induced on the node set: neighbours outside the node set are not nodes and "
        "contribute no edges (the reading topological_sort itself uses)",
        "node iterables list every node once (duplicate entries in `nodes` are not generated)",
        "*_edges variants are exercised only with endpoints in 0..n-1; with backend='python' everywhere, and in round 3 also "
        "through the default call (no backend argument: the Rust adapter when solvor._solvor_rust is importable in the tree "
        "under check, else the Python fallback; the round-3 scope says which ran)",
        "the interpreter recursion limit is raised to (number of nodes + 1000) around every call on a ladder / history "
        "graph, as the module docstring of solvor.scc advises for long paths (Tarjan is recursive); the small scope runs "
        "at the default limit",
    ]
    ctx.trusted += ["oracles/digraph.py: Warshall closure on bit masks, self-tested against the plain Boolean-matrix "
                    "closure on all digraphs with <= 3 nodes and 300 seeded larger ones at every run",
                    "oracles/digraph_big.py: iterative two-pass Kosaraju, self-tested against that closure at every run and "
                    "cross-checked per ladder graph (planted classes, closure <= 700 nodes, forward/backward reachability "
                    "of sampled nodes)",
                    "CPython itertools/random"]


def replay(rec) -> int:
    use_repo()
    case = rec["case"]
    fn = case["fn"]
    if case["api"] == "present":
        return R3.replay(rec)
    if case["api"] == "history" or "ladder" in case or case["n"] > 60:
        return R2.replay(rec)
    if case["api"] == "edges":
        adj = [[] for _ in range(case["n"])]
        for u, v in case["edges"]:
            adj[u].append(v)
        g = G(case["n"], adj)
        bad = run_edges(case, g, (fn,))
    else:
        g = G(case["n"], case["adj"])
        bad = run_callback(case, g, (fn,))
        nodes, nb, lab, idx = make_inputs(case)
        print("nodes:", list(nodes()), " neighbours:", {repr(lab[i]): [lab[j] for j in case["adj"][i]] for i in range(case["n"])})
    print(f"replay {FULL[fn]}: acyclic={g.acyclic} classes(by index)={sorted(bits(m) for m in g.classes)}")
    for f, o, d in bad:
        print(f"  violated C14/{FULL[f]}/{o}: {d}")
    print("replay:", "still violates" if bad else "no violation")
    return 1 if bad else 0

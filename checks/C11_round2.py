"""C11 round 2 - families beyond the small scope of checks/C11.py (same contract, same judges, same run_probe):

* size ladder   : digraphs with 10 .. 2000 nodes and 1000 .. 50000+ arcs (sizes around powers of two and round numbers),
                  dense and sparse, label-lowering-heavy weights (cost ~ squared distance on a hidden line / in the plane,
                  so that many-hop routes beat direct arcs and almost every label is lowered again and again), uniform
                  weights, {0,1} ties, chains with shortcuts in the worst relaxation order, negative weights built from
                  potentials with planted negative / zero cycles.  Oracle: oracles/shortest_paths.Distances - array
                  Dijkstra (O(n^2), no heap), Johnson potentials + exact integer Bellman-Ford for negative weights - and
                  every distance vector used is passed through the potential/tight-arc certificate (O(m)).  Returned
                  paths are validated arc by arc by the same judge as in the small scope.
* magnitude ladder: small graphs (the generators of the small scope) whose integer weights c are replaced by c*2^k,
                  c*10^k, c*B+e (large offsets with unit differences) and (c*2^k+e)/2^k (gaps of 2^-k): all partial sums
                  stay exactly representable, so '==' remains the contract.  Plus negative cycles of total -1 entered at
                  a large distance, and exhaustive n=3 scopes over weights {0, B, B+1, 2B+1} / {-B-1, -B, B, B+1, 2B-1}.
* history mode  : one adjacency dict / one edge list / one neighbours callable / one heuristic callable / one goal
                  predicate reused through a stream of calls with in-place edits between them; every answer judged
                  against the oracle for the graph as it is at that call; the same call repeated; the last call compared
                  with a freshly imported solvor in a fresh process.
* grid ladder   : astar_grid on grids 12x12 .. 129x129+, oracle = heap Dijkstra in Z[sqrt 2] whose result is accepted only
                  through the exact certificate.
* long runs     : implicit chains with 30 000 .. 1 000 000+ nodes (dead heap entries accumulate; default max_iter crossed).
"""
from __future__ import annotations

import heapq
import os
import pickle
import random
import sys
import traceback

from checks import C11 as B
from oracles import shortest_paths as O

P = B.P
FINF = B.FINF


# ====================================================================== big graphs: oracle view
class BigG(B.G):
    """G with the polynomial oracle (the small-scope G uses the walk DP / brute force)."""

    def __init__(self, d):
        super().__init__(d)
        self.eng = O.Distances(self.n, self.arcs)
        self._ueng = None
        self._rev = None
        self._succ = None
        self._tg = {}
        self.skip_fw = not d.get("fw")

    def dist(self, s):
        if s not in self._dist:
            d, neg = self.eng.dist(s)
            if not neg and not O.certify(self.n, self.arcs, s, d):
                raise AssertionError(f"oracle certificate rejected (size ladder) spec={self.d.get('spec')} s={s}")
            self._dist[s] = (d, neg)
        return self._dist[s]

    def hops(self, s):
        if s not in self._hops:
            if self._succ is None:
                self._succ = [[] for _ in range(self.n)]
                for u, v, _ in self.arcs:
                    self._succ[u].append(v)
            self._hops[s] = O.bfs_levels(self.n, self._succ, [s])
        return self._hops[s]

    def und(self, s):
        if self._ueng is None:
            self._ueng = O.Distances(self.n, self.arcs + [(v, u, w) for u, v, w in self.arcs])
        if s not in self._und:
            self._und[s] = self._ueng.dist(s)
        return self._und[s]

    def to_goal(self, T):
        key = tuple(sorted(T))
        if key not in self._tg:
            if not self.nonneg:
                raise AssertionError("to_goal on a graph with negative weights")
            if self._rev is None:
                self._rev = [[] for _ in range(self.n)]
                for u, v, w in self.arcs:
                    self._rev[v].append((u, w))
            self._tg[key] = O.array_dijkstra(self.n, self._rev, key)
        return self._tg[key]

    def selfcheck(self, brute=False):
        pass  # dist() certifies every vector it hands out


def _mk(n, E, rng, spec, srcs, labels=None):
    return {"n": n, "edges": E, "labels": labels or spec.get("labels") or rng.choice(("int", "str", "tuple", "neg", "rev")),
            "gen": bool(spec.get("gen", rng.random() < 0.25)), "fw": bool(spec.get("fw")), "srcs": srcs, "spec": spec}


def gen_big(spec):
    """deterministic: spec -> graph dict (replay regenerates the instance from the spec)"""
    rng = random.Random(spec["seed"])
    fam, n = spec["fam"], spec["n"]
    E = []
    srcs = None
    if fam in ("line2", "plane2"):
        # nodes on a hidden line / in the plane, arc cost ~ a * squared distance + noise: many-hop routes beat direct arcs
        a = spec.get("a", 10)
        p = spec.get("p", 1.0)
        perm = list(range(n))
        rng.shuffle(perm)
        if fam == "line2":
            pos = {v: (k, 0) for k, v in enumerate(perm)}
            near = 4
        else:
            side = max(2, int(n ** 0.5) * 2)
            pts = rng.sample([(x, y) for x in range(side) for y in range(side)], n)
            pts.sort()
            pos = {v: pts[k] for k, v in enumerate(perm)}
            near = max(4, (side * side * 6) // n)
        for i in range(n):
            xi, yi = pos[i]
            row = []
            for j in range(n):
                if i == j:
                    continue
                d2 = (xi - pos[j][0]) ** 2 + (yi - pos[j][1]) ** 2
                if p >= 1.0 or d2 <= near or rng.random() < p:
                    row.append([i, j, a * d2 + rng.randrange(a)])
            if spec.get("order") == "shuffle":
                rng.shuffle(row)
            elif spec.get("order") == "desc":
                row.sort(key=lambda e: -e[2])
            E.extend(row)
        srcs = [perm[0], perm[rng.randrange(n)]]
    elif fam == "uniform":
        p = spec.get("p", 1.0)
        lo, hi = spec.get("W", (1, 1000))
        for i in range(n):
            for j in range(n):
                if i != j and (p >= 1.0 or rng.random() < p):
                    E.append([i, j, rng.randint(lo, hi)])
        if spec.get("order") == "shuffle":
            rng.shuffle(E)
    elif fam == "sparse":
        # m random arcs (self loops and parallel arcs allowed), weights from a pool
        pool = spec.get("W", (0, 1, 2, 5))
        for _ in range(spec["m"]):
            E.append([rng.randrange(n), rng.randrange(n), rng.choice(pool)])
    elif fam == "chain":
        # a long cheap chain against shortcuts that tie / barely win / barely lose, far end of the chain first (every
        # Bellman-Ford round then moves the frontier by one node)
        perm = list(range(n))
        rng.shuffle(perm)
        pool = spec.get("W", (1, 2, 3, 7))
        cw = [rng.choice(pool) for _ in range(n - 1)]
        pre = [0]
        for w in cw:
            pre.append(pre[-1] + w)
        for i in range(n - 1):
            E.append([perm[i], perm[i + 1], cw[i]])
        for _ in range(spec.get("m", 3 * n) - (n - 1)):
            i = rng.randrange(n - 1)
            j = min(n - 1, i + 1 + int(rng.expovariate(1.0 / spec.get("span", 12))))
            seg = pre[j] - pre[i]
            E.append([perm[i], perm[j], max(0, seg + rng.choice((-1, 0, 0, 1, 2, 5)))])
        order = spec.get("order", "rev")
        rank = {v: k for k, v in enumerate(perm)}
        if order == "rev":
            E.sort(key=lambda e: -rank[e[0]])
        elif order == "shuffle":
            rng.shuffle(E)
        srcs = [perm[0], perm[n // 3]]
    elif fam == "negpot":
        # non-negative base graph + potentials: w' = w + p[u] - p[v] has negative arcs but no negative cycle; then a planted
        # cycle of total -1 (reachable / in a part the sources cannot reach) or 0.  The oracle decides, not the plan.
        base = dict(spec["base"])
        base["seed"] = rng.randrange(1 << 30)
        g0 = gen_big(base)
        E = [list(e) for e in g0["edges"]]
        srcs = g0["srcs"]
        Pm = spec.get("P", 50)
        pot = [rng.randint(0, Pm) for _ in range(n)]
        cyc = spec.get("cyc")
        if cyc == "unreach":
            a = max(2, (3 * n) // 4)
            E = [e for e in E if not (e[0] < a <= e[1])]  # nothing leads from the low part into the high part
            srcs = [s if s < a else rng.randrange(a) for s in (srcs or [0, rng.randrange(a)])]
        E = [[u, v, w + pot[u] - pot[v]] for u, v, w in E]
        if cyc:
            k = rng.randint(2, min(8, max(2, n // 8)))
            if cyc == "unreach":
                nodes = rng.sample(range(a, n), min(k, n - a))
            else:
                nodes = rng.sample(range(n), k)
            tot = 0
            extra = []
            for i in range(len(nodes) - 1):
                r = rng.randint(0, 9)
                tot += r
                extra.append([nodes[i], nodes[i + 1], r + pot[nodes[i]] - pot[nodes[i + 1]]])
            last = -tot - (0 if cyc == "zero" else 1)
            extra.append([nodes[-1], nodes[0], last + pot[nodes[-1]] - pot[nodes[0]]])
            if cyc == "reach" and srcs:
                extra.append([srcs[0], nodes[0], rng.randint(0, 9) + pot[srcs[0]] - pot[nodes[0]]])
            for e in extra:
                E.insert(rng.randrange(len(E) + 1), e)
    else:
        raise ValueError(fam)
    if srcs is None:
        srcs = [0, rng.randrange(n)]
    srcs = list(dict.fromkeys(srcs))
    return _mk(n, E, rng, spec, srcs)


def battery_big(Gr, gd, rng):
    """probes on one big graph; cost is kept proportional to spec['level'] (targets per source)"""
    n, spec = Gr.n, gd["spec"]
    nt = spec.get("targets", 4)
    probes = []
    srcs = gd["srcs"]
    m = len(Gr.edges)
    for si, s in enumerate(srcs):
        d, neg = Gr.dist(s)
        hp = Gr.hops(s)
        reach = [v for v in range(n) if hp[v] is not None and v != s]
        unre = [v for v in range(n) if hp[v] is None]
        if Gr.nonneg:
            far = max(reach, key=lambda v: (d[v], v)) if reach else s
            deep = max(reach, key=lambda v: (hp[v], v)) if reach else s
            k = nt if si == 0 else max(2, nt // 2)
            tg = list(dict.fromkeys([far, deep] + (rng.sample(reach, min(len(reach), k)) if reach else []) + unre[:1] + [s]))[:k + 2]
            for ti, t in enumerate(tg):
                probes.append({"k": "dijkstra", "s": s, "T": [t]})
                probes.append({"k": "dijkstra", "s": s, "T": [t], "pred": True})
                for hi, hn in enumerate(("zero", "half", "exact", "floor2")):
                    h = B.h_values(Gr, [t], hn, rng)
                    probes.append({"k": "astar", "s": s, "T": [t], "h": h, "pred": hi % 2 == 1})
                    if hn in ("zero", "half"):
                        probes.append({"k": "astar", "s": s, "T": [t], "h": h, "pred": hi % 2 == 0})
                probes.append({"k": "dijkstra_edges", "s": s, "t": t})
                for kk in ("bfs", "dfs"):
                    probes.append({"k": kk, "s": s, "T": [t], "pred": ti % 2 == 1})
                    probes.append({"k": kk + "_edges", "s": s, "t": t})
            probes.append({"k": "dijkstra_edges", "s": s, "t": None})
            probes.append({"k": "bfs_edges", "s": s, "t": None})
            probes.append({"k": "dfs_edges", "s": s, "t": None})
            # goal sets through a predicate
            for _ in range(2):
                T = sorted(rng.sample(range(n), min(n, rng.randint(2, 4))))
                probes.append({"k": "dijkstra", "s": s, "T": T, "pred": True})
                probes.append({"k": "astar", "s": s, "T": T, "pred": True, "h": B.h_values(Gr, T, rng.choice(("half", "exact0", "floor2")))})
                probes.append({"k": "bfs", "s": s, "T": T, "pred": True})
                probes.append({"k": "dfs", "s": s, "T": T, "pred": True})
            # limits around the far target
            if reach and si == 0:
                dl = d[far]
                hh = B.h_values(Gr, [far], "half")
                for Mx in (dl, dl - 1, dl + 1):
                    if Mx >= 0:
                        probes.append({"k": "dijkstra", "s": s, "T": [far], "max_cost": Mx})
                        probes.append({"k": "astar", "s": s, "T": [far], "max_cost": Mx, "h": hh})
                nr = Gr.nreach(s)
                for mi in sorted({1, nr - 1, nr, nr + 1, 1025} - {0}):
                    probes.append({"k": "dijkstra", "s": s, "T": [far], "max_iter": mi})
                    probes.append({"k": "astar", "s": s, "T": [far], "max_iter": mi, "h": [0.0] * n})
                    probes.append({"k": "bfs", "s": s, "T": [deep], "max_iter": mi})
                    probes.append({"k": "dfs", "s": s, "T": [deep], "max_iter": mi})
            bft = [far] + tg[2:3] + unre[:1]
        else:
            bft = (rng.sample(reach, min(len(reach), nt)) if reach else []) + unre[:1] + [s]
        if spec.get("bf", True) and (si == 0 or not Gr.nonneg):
            probes.append({"k": "bf", "s": s, "t": None})
            for t in bft:
                probes.append({"k": "bf", "s": s, "t": t})
    if gd.get("fw"):
        probes.append({"k": "fw", "directed": True})
        if spec.get("fw_und"):
            probes.append({"k": "fw", "directed": False})
    return probes, srcs


BIG_BUDGET = 600.0  # CPU s for one call on the size ladder (slowest call on the unchanged tree: floyd_warshall n=260, ~15 s)


def check_big(spec, out):
    gd = gen_big(spec)
    Gr = BigG(gd)
    rng = random.Random(spec["seed"] ^ 0x5EED)
    probes, srcs = battery_big(Gr, gd, rng)
    with B.cpu_budget(BIG_BUDGET):
        B.run_battery(Gr, probes, srcs, lambda p: {"kind": "big", "spec": spec, "nodes": gd["n"], "arcs": len(gd["edges"]), "probe": p}, out)
    out["keys"].append(B.key64(("big", sorted(spec.items(), key=repr))))
    if out["sample"] is None:
        out["sample"] = {"kind": "big", "spec": spec, "n": gd["n"], "arcs": len(gd["edges"])}


# ====================================================================== magnitude ladder (small graphs, big numbers)
LIM_NONNEG = 1 << 51
LIM_NEG = 1 << 50


def _fits(n, Wints, neg):
    """every label the solvers can form stays an exactly representable integer (times one common power of two)"""
    mx = max([abs(w) for w in Wints] or [0])
    if neg:
        return mx * n * max(1, len(Wints)) < LIM_NEG  # Bellman-Ford labels: walks of <= (n-1)*m arcs
    return 2 * mx * n < LIM_NONNEG  # simple paths; one spare bit for f = g + h/2


def magnify(gd, rng, kind=None):
    """gd with small int weights -> a copy whose weights are large / fine-grained but still exact in float arithmetic.
    Returns None if the graph has non-integer weights or nothing fits."""
    E = gd["edges"]
    if any(not isinstance(w, int) for _, _, w in E) or not E:
        return None
    n = gd["n"]
    neg = any(w < 0 for _, _, w in E)
    kind = kind or rng.choice(("scale2", "scale10", "offset10", "offset10", "offset2", "fine", "fine", "tiny"))
    for _ in range(30):
        if kind == "scale2":
            k = rng.randint(20, 46)
            W, shift, tag = [w << k for _, _, w in E], 0, f"c*2^{k}"
        elif kind == "tiny":  # everything far below thresholds like 1e-9
            k = rng.randint(31, 45)
            W, shift, tag = [w for _, _, w in E], k, f"c/2^{k}"
        elif kind == "scale10":
            k = rng.randint(6, 15)
            W, shift, tag = [w * 10 ** k for _, _, w in E], 0, f"c*10^{k}"
        elif kind in ("offset10", "offset2", "fine"):
            if kind == "offset10":
                k = rng.randint(9, 14)
                Bv = 10 ** k
                name = f"10^{k}"
            else:
                k = rng.randint(30, 44)
                Bv = 1 << k
                name = f"2^{k}"
            es = [rng.randint(-3, 3) for _ in E]
            W = []
            for (_, _, w), e in zip(E, es):
                x = w * Bv + e
                if not neg and x < 0:
                    x = w * Bv
                W.append(x)
            shift = k if kind == "fine" else 0
            tag = f"c*{name}+e" + (f" over 2^{k}" if shift else "")
        else:
            raise ValueError(kind)
        if _fits(n, W, neg):
            break
    else:
        return None
    asfloat = rng.random() < 0.6 or shift
    E2 = []
    for (u, v, _), x in zip(E, W):
        if shift:
            y = x / (1 << shift)  # exact: x has < 52 bits
            assert O.exact(y) * (1 << shift) == x
        else:
            y = float(x) if asfloat else x
            assert int(y) == x
        E2.append([u, v, y])
    out = dict(gd)
    out["edges"] = E2
    out["mag"] = tag
    return out


def far_cycle(rng):
    """a chain of big arcs from node 0 into a cycle of total -1 / 0 / +1 / -2: detection at a large distance"""
    k = rng.randint(1, 4)
    L = rng.randint(1, 4)
    n = L + k
    Bv = rng.choice([10 ** rng.randint(9, 12), 1 << rng.randint(30, 40)])
    E = [[i, i + 1, rng.choice((Bv * rng.randint(1, 3), Bv * rng.randint(1, 3), rng.randint(0, 9)))] for i in range(L)]
    cyc = list(range(L, n))
    ws = [Bv * rng.randint(1, 2) * rng.choice((1, 1, -1)) for _ in cyc]
    ws[-1] += rng.choice((-1, -1, 0, 1, -2)) - sum(ws)
    for i, c in enumerate(cyc):
        E.append([c, cyc[(i + 1) % k], ws[i]])
    for _ in range(rng.randint(0, 2)):
        E.append([rng.randrange(n), rng.randrange(n), Bv * rng.randint(2, 3) + rng.randint(0, 3)])
    rng.shuffle(E)
    if not _fits(n, [w for _, _, w in E], True):
        return None
    fl = rng.random() < 0.6
    return {"n": n, "edges": [[u, v, float(w) if fl else w] for u, v, w in E], "labels": "int", "mag": "far cycle"}


INT_WPOOLS = [(0, 1, 2, 5), (1,), (0, 1), (1, 2, 3), (0, 0, 0, 1), (1, 1, 2, 2, 4), (3, 7, 10, 17, 20), (0, 5)]
INT_NPOOLS = [(-2, -1, 0, 1, 2, 3), (-1, 1), (-3, 1, 2, 4), (-1, 0, 0, 1), (-5, 2, 3, 4)]


def mag_graphs(rng, count):
    out = []
    while len(out) < count:
        i = len(out)
        if i % 8 == 7:
            g = far_cycle(rng)
        else:
            neg = i % 3 == 2
            saveW, saveN = B.WPOOLS, B.NPOOLS
            B.WPOOLS, B.NPOOLS = INT_WPOOLS, INT_NPOOLS
            try:
                g0 = B.rand_graph(rng, neg=neg)
            finally:
                B.WPOOLS, B.NPOOLS = saveW, saveN
            g = magnify(g0, rng)
        if g is not None:
            out.append(g)
    return out


# ====================================================================== history mode
class HistMixin:
    """oracle data from the snapshot, but the arguments handed to the solvers are the stream's shared objects"""

    def bind(self, sh):
        self.sh = sh
        return self

    def nb_w(self):
        return self.sh["nb_w"]

    def nb_u(self):
        return self.sh["nb_u"]

    def edge_arg(self):
        return self.sh["E"]

    def uedge_arg(self):
        return self.sh["UE"]

    def h_arg(self, h):
        H = self.sh["H"]
        H.clear()
        for i, x in enumerate(h):
            H[self.labels[i]] = x
        return self.sh["hfun"]

    def goal_arg(self, T, pred):
        if pred:
            GS = self.sh["GS"]
            GS.clear()
            GS.update(self.labels[t] for t in T)
            return self.sh["gfun"]
        (t,) = T
        return self.labels[t]


class HistG(HistMixin, B.G):
    pass


class HistBigG(HistMixin, BigG):
    pass


def _shared(labels, n, edges, tuples):
    """the persistent objects of one stream, built once"""
    adj_w = {labels[i]: [] for i in range(n)}
    adj_u = {labels[i]: [] for i in range(n)}
    for u, v, w in edges:
        adj_w[labels[u]].append((labels[v], w))
        adj_u[labels[u]].append(labels[v])
    H, GS = {}, set()
    sh = {"adj_w": adj_w, "adj_u": adj_u, "H": H, "GS": GS,
          "E": [tuple(e) if tuples else list(e) for e in edges], "UE": [(e[0], e[1]) for e in edges],
          "nb_w": lambda x: adj_w[x], "nb_u": lambda x: adj_u[x], "hfun": lambda x: H[x], "gfun": lambda x: x in GS}
    return sh


def _edit(rng, st, sh, negs, big):
    """one in-place edit of model (st) and shared objects (sh); returns a description"""
    L, E = st["labels"], st["edges"]
    n = st["n"]
    W = st["W"]
    ops = ["setw", "setw", "setw", "add", "add", "del", "swap", "redirect"]
    if n < st["nmax"]:
        ops.append("node")
    op = rng.choice(ops if E else ["add", "add"] + (["node"] if n < st["nmax"] else []))

    def pos(i):
        """position of arc i inside the adjacency list of its tail (model order == adjacency order)"""
        u = E[i][0]
        return sum(1 for e in E[:i] if e[0] == u)

    def rm_adj(i):
        u = E[i][0]
        k = pos(i)
        del sh["adj_w"][L[u]][k]
        del sh["adj_u"][L[u]][k]

    if op == "setw":  # same objects, same lengths, one weight changed in place
        i = rng.randrange(len(E))
        u, v, w = E[i]
        w2 = rng.choice(W)
        if big:
            w2 = max(0, w + rng.choice((-7, -3, -1, 1, 5, 40)))
        sh["adj_w"][L[u]][pos(i)] = (L[v], w2)
        E[i] = [u, v, w2]
        if isinstance(sh["E"][i], list):
            sh["E"][i][2] = w2
        else:
            sh["E"][i] = (u, v, w2)
        return f"w[{u}->{v}] {w}->{w2}"
    if op == "add":
        u, v, w = rng.randrange(n), rng.randrange(n), rng.choice(W)
        E.append([u, v, w])
        sh["adj_w"][L[u]].append((L[v], w))
        sh["adj_u"][L[u]].append(L[v])
        sh["E"].append([u, v, w] if sh["E"] and isinstance(sh["E"][0], list) else (u, v, w))
        sh["UE"].append((u, v))
        return f"add {u}->{v} w={w}"
    if op == "del":
        i = rng.randrange(len(E))
        rm_adj(i)
        u, v, w = E.pop(i)
        del sh["E"][i]
        del sh["UE"][i]
        return f"del {u}->{v}"
    if op == "swap":  # two arcs exchange their weights: same multiset of weights, same length
        i, j = rng.randrange(len(E)), rng.randrange(len(E))
        if i != j and E[i][2] != E[j][2]:
            for a_, b_ in ((i, E[j][2]), (j, E[i][2])):
                u, v, w = E[a_]
                sh["adj_w"][L[u]][pos(a_)] = (L[v], b_)
                E[a_] = [u, v, b_]
                sh["E"][a_] = [u, v, b_] if isinstance(sh["E"][a_], list) else (u, v, b_)
        return f"swap weights of arcs {i},{j}"
    if op == "redirect":  # an arc gets another head: same length, same weights
        i = rng.randrange(len(E))
        u, v, w = E[i]
        v2 = rng.randrange(n)
        rm_adj(i)
        sh["adj_w"][L[u]].append((L[v2], w))
        sh["adj_u"][L[u]].append(L[v2])
        E[i] = [u, v2, w]
        sh["E"][i] = [u, v2, w] if isinstance(sh["E"][i], list) else (u, v2, w)
        sh["UE"][i] = (u, v2)
        # keep the edge order of the model equal to the adjacency order: move the arc to the end of u's arcs
        e = E.pop(i)
        se, su = sh["E"].pop(i), sh["UE"].pop(i)
        E.append(e)
        sh["E"].append(se)
        sh["UE"].append(su)
        return f"redirect {u}->{v} to {u}->{v2}"
    if op == "node":
        st["n"] = n + 1
        sh["adj_w"][L[n]] = []
        sh["adj_u"][L[n]] = []
        u = rng.randrange(n)
        w = rng.choice(W)
        E.append([u, n, w])
        sh["adj_w"][L[u]].append((L[n], w))
        sh["adj_u"][L[u]].append(L[n])
        sh["E"].append([u, n, w] if sh["E"] and isinstance(sh["E"][0], list) else (u, n, w))
        sh["UE"].append((u, n))
        return f"new node {n}, arc {u}->{n} w={w}"
    raise ValueError(op)


def _mirror_ok(st, sh):
    """harness self-test: the shared objects say exactly what the model says"""
    L, n = st["labels"], st["n"]
    aw = {L[i]: [] for i in range(n)}
    for u, v, w in st["edges"]:
        aw[L[u]].append((L[v], w))
    if aw != sh["adj_w"]:
        return False
    if [tuple(e) for e in sh["E"]] != [tuple(e) for e in st["edges"]]:
        return False
    if sh["UE"] != [(u, v) for u, v, _ in st["edges"]]:
        return False
    return all([y for y, _ in sh["adj_w"][k]] == sh["adj_u"][k] for k in sh["adj_w"])


def _snapshot(st, sh):
    """graph dict whose edge list is in adjacency order of the shared dict == order of the shared edge list"""
    return {"n": st["n"], "edges": [list(e) for e in st["edges"]], "labels": st["scheme"]}


def hist_stream(spec, upto=None, want_last=False):
    """Run one stream.  Returns {"viol": [(step, obligation, probe, detail, snapshot)], "n": evaluations, "last": ...}."""
    B.M()
    rng = random.Random(spec["seed"])
    big = spec.get("big")
    neg = bool(spec.get("neg"))
    if big:
        gd = gen_big(big)
        scheme = gd["labels"]
        W = (1, 5, 20, 100)
        nmax = gd["n"]
    else:
        saveW, saveN = B.WPOOLS, B.NPOOLS
        B.WPOOLS, B.NPOOLS = INT_WPOOLS, INT_NPOOLS
        try:
            gd = B.rand_graph(rng, neg=neg)
        finally:
            B.WPOOLS, B.NPOOLS = saveW, saveN
        scheme = gd["labels"] if gd["labels"] != "rev" else "neg"  # labels of a stream must not depend on the node count
        W = rng.choice(INT_NPOOLS if neg else INT_WPOOLS)
        nmax = min(12, gd["n"] + 2)
    labels = B.make_labels(scheme, nmax)
    st = {"n": gd["n"], "edges": [list(e) for e in gd["edges"]], "labels": labels, "scheme": scheme, "W": W, "nmax": nmax}
    tuples = rng.random() < 0.5
    sh = _shared(labels, nmax if big else gd["n"], st["edges"], tuples=tuples)
    out = {"viol": [], "n": 0, "last": None, "trace": []}
    cls = HistBigG if big else HistG
    steps = spec["steps"] if upto is None else upto + 1
    for step in range(steps):
        if step:
            desc = _edit(rng, st, sh, neg, big)
            out["trace"].append(desc)
        if not _mirror_ok(st, sh):
            raise AssertionError(f"history harness: shared objects diverged from the model at step {step} of {spec}")
        snap = _snapshot(st, sh)
        if big:
            snap.update(fw=False, srcs=gd["srcs"], spec=big)
        Gr = cls(snap).bind(sh)
        if big:
            probes = _hist_probes_big(Gr, gd, rng)
        else:
            probes, _ = B.battery(Gr, "rand", rng)
            k = spec.get("per_step", 8)
            if len(probes) > k:
                probes = rng.sample(probes, k)
            probes = probes + [probes[rng.randrange(len(probes))]]  # the same call repeated
        with B.cpu_budget(BIG_BUDGET if big else B.BUDGET[0]):
            for p in probes:
                try:
                    v, summ = B.run_probe(Gr, p)
                except B.Inconsistent:
                    continue
                except B.SolverRaised as e:
                    v, summ = [(f"{P}/{p['k']}/ensures:returns-a-result", str(e))], None
                out["n"] += 1
                if not _mirror_ok(st, sh):
                    # the call changed an object that belongs to the caller (frame clause, round 3): report it and go on with
                    # freshly built shared objects (the stream's model is the reference)
                    v = list(v) + [(f"{P}/{p['k']}/frame:caller-owned-inputs-unchanged",
                                    "the shared adjacency lists / edge list differ from the caller's model after this call")]
                    sh = _shared(labels, nmax if big else st["n"], st["edges"], tuples=tuples)
                    Gr.bind(sh)
                for obl, det in v:
                    out["viol"].append((step, obl, p, det, snap))
                if summ is not None and p["k"] != "fw" and not big:
                    out["last"] = (step, p, summ, snap)
    return out


def _hist_probes_big(Gr, gd, rng):
    s = gd["srcs"][0]
    d = Gr.dist(s)[0]
    reach = [v for v in range(Gr.n) if d[v] is not None and v != s]
    far = max(reach, key=lambda v: (d[v], v)) if reach else s
    t2 = rng.choice(reach) if reach else s
    pr = []
    for t in (far, t2):
        pr.append({"k": "dijkstra", "s": s, "T": [t]})
        pr.append({"k": "astar", "s": s, "T": [t], "h": [0.0] * Gr.n})
        pr.append({"k": "astar", "s": s, "T": [t], "h": B.h_values(Gr, [t], "half"), "pred": True})
        pr.append({"k": "dijkstra_edges", "s": s, "t": t})
        pr.append({"k": "bfs", "s": s, "T": [t]})
        pr.append({"k": "dfs", "s": s, "T": [t], "pred": True})
    pr.append({"k": "bf", "s": s, "t": far})
    pr.append({"k": "dijkstra", "s": s, "T": [far]})
    return pr


def _fresh_summary(arg):
    """child process: forget every solvor module, import the tree under check again, answer one query"""
    snap, p = arg
    for k in list(sys.modules):
        if k == "solvor" or k.startswith("solvor."):
            del sys.modules[k]
    B._M = None
    Gr = B.G(snap)
    try:
        v, summ = B.run_probe(Gr, p)
    except B.SolverRaised as e:
        return ("raised", str(e))
    return summ


def in_fresh_process(fn, arg):
    r, w = os.pipe()
    pid = os.fork()
    if pid == 0:
        code = 0
        try:
            os.close(r)
            try:
                payload = ("ok", fn(arg))
            except BaseException:  # noqa: BLE001
                payload = ("err", traceback.format_exc()[-2000:])
            with os.fdopen(w, "wb") as f:
                f.write(pickle.dumps(payload))
        except BaseException:  # noqa: BLE001
            code = 1
        finally:
            os._exit(code)
    os.close(w)
    with os.fdopen(r, "rb") as f:
        data = f.read()
    os.waitpid(pid, 0)
    if not data:
        return ("err", "child process died without an answer")
    return pickle.loads(data)


def check_history(spec, out):
    r = hist_stream(spec)
    out["n"] += r["n"]
    seen = set()
    for step, obl, p, det, snap in r["viol"]:
        if obl in seen or len(out["viol"]) >= B.MAXV:
            continue
        seen.add(obl)
        # shrink: does the call violate on its own, on a fresh graph object?
        big = bool(spec.get("big"))
        try:
            with B.cpu_budget(BIG_BUDGET if big else B.BUDGET[0]):
                v2, _ = B.run_probe(BigG(snap) if big else B.G(snap), p)
        except B.SolverRaised:
            v2 = [(obl, "")]
        except B.Inconsistent:
            v2 = []
        alone = any(o == obl for o, _ in v2)
        if big:  # too many arcs to store: replay regenerates the graph and repeats the edits
            out["viol"].append((obl, {"kind": "history", "spec": spec, "step": step, "probe": p},
                                det + f" [step {step} of a stream on shared objects, {snap['n']} nodes, {len(snap['edges'])} arcs, edits so far: {r['trace'][:step]}; "
                                + ("also reproduces" if alone else "NOT reproduced") + " as an isolated call on the graph as edited]"))
        elif alone:
            out["viol"].append((obl, {"kind": "graph", "graph": snap, "probe": p}, det + f" [found at step {step} of history stream {spec}; reproduces as an isolated call]"))
        else:
            out["viol"].append((obl, {"kind": "history", "spec": spec, "step": step, "probe": p},
                                det + f" [step {step} of a stream on shared objects, edits so far: {r['trace'][:step]}; NOT reproduced by the isolated call]"))
    if spec.get("fresh") and r["last"] is not None and r["last"][3] is not None:
        step, p, summ, snap = r["last"]
        st, ans = in_fresh_process(_fresh_summary, (snap, p))
        out["n"] += 1
        if st != "ok":
            raise AssertionError(f"fresh-process child failed: {ans}")
        if repr(ans) != repr(summ) and p["k"] not in ("dfs", "dfs_edges"):
            out["viol"].append((f"{P}/history/ensures:same-answer-as-fresh-process",
                                {"kind": "history", "spec": spec, "step": step, "probe": p, "fresh": True},
                                f"in the stream: {summ}, freshly imported solvor in a fresh process: {ans}"))
    out["keys"].append(B.key64(("hist", sorted(spec.items(), key=repr))))


# ====================================================================== history mode on grids
def grid_stream(spec, upto=None):
    """one grid (list of lists), one costs dict and one blocked set handed to astar_grid again and again, edited in place
    between the calls; every answer judged on a copy of the arguments as they are at that call"""
    m = B.M()
    rng = random.Random(spec["seed"])
    rows, cols = rng.randint(1, 6), rng.randint(1, 6)
    multi = rng.random() < 0.5
    grid = [[rng.choice((0, 0, 1, 2, 3)) if multi else int(rng.random() < 0.3) for _ in range(cols)] for _ in range(rows)]
    costs = {2: 2.0, 3: 3} if multi else {}
    blocked = {1}
    cells = [(r, c) for r in range(rows) for c in range(cols)]
    out = {"viol": [], "n": 0, "trace": []}
    steps = spec["steps"] if upto is None else upto + 1
    for step in range(steps):
        if step:
            op = rng.choice(("cell", "cell", "cell", "cost", "block") if multi else ("cell",))
            if op == "cell":
                r, c = rng.choice(cells)
                old = grid[r][c]
                grid[r][c] = rng.choice([x for x in ((0, 1, 2, 3) if multi else (0, 1)) if x != old])
                out["trace"].append(f"grid[{r}][{c}] {old}->{grid[r][c]}")
            elif op == "cost":
                k = rng.choice((2, 3))
                costs[k] = rng.choice((1, 1.5, 2.0, 3, 4))
                out["trace"].append(f"costs[{k}]={costs[k]}")
            else:
                k = rng.choice((2, 3))
                (blocked.discard if k in blocked else blocked.add)(k)
                out["trace"].append(f"blocked={sorted(blocked)}")
        free = [rc for rc in cells if grid[rc[0]][rc[1]] not in blocked]
        if not free:
            continue
        snap = [list(r) for r in grid]
        cache = {}
        for _ in range(spec.get("per_step", 6)):
            dirs = rng.choice((4, 8))
            p = {"dirs": dirs, "start": list(rng.choice(free)), "goal": list(rng.choice(cells) if rng.random() < 0.2 else rng.choice(free)),
                 "heuristic": rng.choice(B.ADM[dirs]), "blocked": sorted(blocked)}
            if costs:
                p["costs"] = [[k, v] for k, v in sorted(costs.items())]
            ck = dirs
            if ck not in cache:
                cache[ck] = B.GridO(snap, dirs, set(blocked), dict(costs))
            go = cache[ck]
            kw = {"costs": costs} if costs else {}
            try:
                res = m["astar_grid"](grid, tuple(p["start"]), tuple(p["goal"]), directions=dirs, heuristic=p["heuristic"], blocked=blocked, **kw)
                v = B.judge_grid(go, res, tuple(p["start"]), tuple(p["goal"]))
            except B.SolverRaised as e:
                v = [(f"{P}/astar_grid/ensures:returns-a-result", str(e))]
            out["n"] += 1
            if grid != snap or set(blocked) != set(p["blocked"]) or sorted(costs.items()) != [tuple(x) for x in p.get("costs", [])]:
                # the call changed an argument that belongs to the caller (frame clause, round 3): report it, restore, go on
                v = list(v) + [(f"{P}/astar_grid/frame:caller-owned-inputs-unchanged", "grid / costs / blocked differ after the call")]
                for r_, row in enumerate(snap):
                    grid[r_][:] = row
                blocked.clear()
                blocked.update(p["blocked"])
                costs.clear()
                costs.update({k_: v_ for k_, v_ in p.get("costs", [])})
            for obl, det in v:
                out["viol"].append((step, obl, p, det, snap))
    return out


def check_grid_history(spec, out):
    r = grid_stream(spec)
    out["n"] += r["n"]
    seen = set()
    for step, obl, p, det, snap in r["viol"]:
        if obl in seen or len(out["viol"]) >= B.MAXV:
            continue
        seen.add(obl)
        v2, _ = B.run_grid_probe(snap, p)
        if any(o == obl for o, _ in v2):
            out["viol"].append((obl, {"kind": "grid", "grid": snap, "probe": p}, det + f" [found at step {step} of grid history stream {spec}; reproduces as an isolated call]"))
        else:
            out["viol"].append((obl, {"kind": "gridhist", "spec": spec, "step": step, "probe": p},
                                det + f" [step {step} of a stream on one grid / costs / blocked object, grid now {snap}, edits so far: {r['trace'][:step]}; NOT reproduced by the isolated call]"))
    out["keys"].append(B.key64(("gridhist", sorted(spec.items()))))


# ====================================================================== grid ladder
def heap_grid_dist(n, out, s):
    """heap Dijkstra in Z[sqrt 2] ordered by the float value; NOT trusted: the caller certifies the result exactly"""
    d = [None] * n
    d[s] = O.Q2()
    pq = [(0.0, s)]
    done = [False] * n
    while pq:
        _, u = heapq.heappop(pq)
        if done[u]:
            continue
        done[u] = True
        du = d[u]
        for v, w in out[u]:
            if done[v]:
                continue
            c = du + w
            if d[v] is None or c < d[v]:
                d[v] = c
                heapq.heappush(pq, (float(c), v))
    return d


class BigGridO(B.GridO):
    def dist(self, s):
        if s not in self._d:
            d = heap_grid_dist(self.n, self.out, s)
            arcs = [(u, v, w) for u, lst in enumerate(self.out) for v, w in lst]
            if not O.certify(self.n, arcs, s, d, O.Q2()):
                raise AssertionError(f"grid certificate rejected (grid ladder) {self.rows}x{self.cols} dirs={self.dirs} s={s}")
            self._d[s] = d
        return self._d[s]


def gen_grid(spec):
    rng = random.Random(spec["seed"])
    rows, cols, style = spec["rows"], spec["cols"], spec["style"]
    if style == "bin":
        p = spec.get("p", 0.3)
        grid = [[1 if rng.random() < p else 0 for _ in range(cols)] for _ in range(rows)]
    elif style == "maze":  # walls with single gaps: long detours, goal far in path length
        grid = [[0] * cols for _ in range(rows)]
        for r in range(1, rows, 2):
            gap = rng.choice((0, cols - 1)) if rng.random() < 0.7 else rng.randrange(cols)
            for c in range(cols):
                if c != gap:
                    grid[r][c] = 1
    elif style == "multi":
        grid = [[rng.choice((0, 0, 0, 1, 2, 3)) for _ in range(cols)] for _ in range(rows)]
    else:
        grid = [[0] * cols for _ in range(rows)]
    return grid


def check_grid_big(spec, out):
    grid = gen_grid(spec)
    rng = random.Random(spec["seed"] ^ 77)
    rows, cols = spec["rows"], spec["cols"]
    cells = [(r, c) for r in range(rows) for c in range(cols)]
    opts = []
    for dirs in (4, 8):
        opts.append({"dirs": dirs})
        opts.append({"dirs": dirs, "heuristic": rng.choice(B.ADM[dirs])})
        if spec["style"] == "multi":
            opts.append({"dirs": dirs, "blocked": [1], "costs": [[2, 2], [3, 5]]})
            opts.append({"dirs": dirs, "blocked": [], "costs": [[0, 1.0], [1, 4], [2, 2.0], [3, 3]], "heuristic": rng.choice(B.ADM[dirs])})
    with B.cpu_budget(BIG_BUDGET):
        for opt in opts:
            bl = opt.get("blocked", 1)
            bset = {bl} if isinstance(bl, int) else set(bl)
            free = [rc for rc in cells if grid[rc[0]][rc[1]] not in bset]
            if not free:
                continue
            cd = {int(a): b for a, b in opt["costs"]} if opt.get("costs") else None
            # start in a large region: best of a few candidates (a random cell of a dense layout is often walled in)
            go = BigGridO(grid, opt["dirs"], bset, cd)
            best = None
            for cand in [free[0]] + [rng.choice(free) for _ in range(3)]:
                dd = go.dist(cand[0] * cols + cand[1])
                nr = sum(1 for x in dd if x is not None)
                if best is None or nr > best[0]:
                    best = (nr, cand, dd)
            _, s, d = best
            reach = [rc for rc in free if d[rc[0] * cols + rc[1]] is not None]
            far = max(reach, key=lambda rc: float(d[rc[0] * cols + rc[1]]))
            goals = [far, free[-1], rng.choice(cells)] + [rng.choice(reach) for _ in range(spec.get("goals", 5))]
            for t in goals:
                p = dict(opt)
                p.update(start=list(s), goal=list(t))
                try:
                    v = B.judge_grid(go, _call_grid(grid, p, bset, cd), s, t)
                except B.SolverRaised as e:
                    v = [(f"{P}/astar_grid/ensures:returns-a-result", str(e))]
                out["n"] += 1
                for obl, det in v:
                    if len(out["viol"]) < B.MAXV:
                        out["viol"].append((obl, {"kind": "gridbig", "spec": spec, "probe": p}, det))
    out["keys"].append(B.key64(("gridbig", sorted(spec.items()))))


def _call_grid(grid, p, bset, cd):
    m = B.M()
    kw = {}
    if cd:
        kw["costs"] = cd
    if "blocked" in p:
        kw["blocked"] = bset
    return m["astar_grid"](grid, tuple(p["start"]), tuple(p["goal"]), directions=p["dirs"], heuristic=p.get("heuristic", "auto"), **kw)


def replay_grid_big(case):
    spec, p = case["spec"], case["probe"]
    grid = gen_grid(spec)
    bl = p.get("blocked", 1)
    bset = {bl} if isinstance(bl, int) else set(bl)
    cd = {int(a): b for a, b in p["costs"]} if p.get("costs") else None
    go = BigGridO(grid, p["dirs"], bset, cd)
    with B.cpu_budget(BIG_BUDGET):
        try:
            return B.judge_grid(go, _call_grid(grid, p, bset, cd), tuple(p["start"]), tuple(p["goal"]))
        except B.SolverRaised as e:
            return [(f"{P}/astar_grid/ensures:returns-a-result", str(e))]


# ====================================================================== long runs on implicit graphs
def check_implicit(spec, out):
    """nodes 0..N-1, arcs i->i+1 (1), i->i+2 (2), i->i+3 (4): delta(0, t) = t, the label of i+3 is lowered after it was
    pushed (one dead heap entry per node, for the whole run); unit version for bfs/dfs: hops(0, t) = ceil(t/3)."""
    m = B.M()
    St = m["Status"]
    N, t = spec["N"], spec["t"]
    nbw = lambda i: [(j, w) for j, w in ((i + 3, 4), (i + 2, 2), (i + 1, 1)) if j < N]
    nbu = lambda i: [j for j in (i + 1, i + 2, i + 3) if j < N]
    wt = {1: 1, 2: 2, 3: 4}
    goal = (lambda x: x == t) if spec.get("pred") else t
    k = spec["k"]
    name = k
    with B.cpu_budget(BIG_BUDGET):
        try:
            if k == "dijkstra":
                res = m[k](0, goal, nbw)
            elif k == "astar":
                c = spec.get("c", 0.5)
                res = m[k](0, goal, nbw, lambda i: c * max(0, t - i))
            else:
                res = m[k](0, goal, nbu)
        except B.SolverRaised as e:
            out["viol"].append((f"{P}/{name}/ensures:returns-a-result", {"kind": "implicit", "spec": spec}, str(e)))
            out["n"] += 1
            return
    out["n"] += 1
    case = {"kind": "implicit", "spec": spec}
    bad = []
    reachable = t < N
    unit = k in ("bfs", "dfs")
    if res.status == St.MAX_ITER:
        if N < 1_000_000:
            bad.append((f"{P}/{name}/ensures:MAX_ITER-only-when-budget-binds", f"MAX_ITER with the default max_iter on {N} nodes"))
    elif res.solution is None or res.status == St.INFEASIBLE:
        if reachable:
            bad.append((f"{P}/{name}/ensures:INFEASIBLE-iff-unreachable", f"INFEASIBLE but target {t} is reachable"))
    else:
        path = res.solution
        if not reachable:
            bad.append((f"{P}/{name}/ensures:INFEASIBLE-iff-unreachable", f"target {t} >= N={N} but a path was returned"))
        elif not isinstance(path, list) or not path or path[0] != 0:
            bad.append((f"{P}/{name}/ensures:path-starts-at-source", f"path starts {path[:3] if isinstance(path, list) else path!r}"))
        elif path[-1] != t:
            bad.append((f"{P}/{name}/ensures:path-ends-at-target", f"path ends at {path[-1]}"))
        else:
            tot = 0
            for a, b in zip(path, path[1:]):
                if b - a not in wt or not b < N:
                    bad.append((f"{P}/{name}/ensures:path-uses-existing-edges", f"step {a}->{b}"))
                    break
                tot += 1 if unit else wt[b - a]
            else:
                if tot != res.objective:
                    bad.append((f"{P}/{name}/ensures:path-weights-sum-to-distance", f"path sums to {tot}, reported {res.objective}"))
            want = (t + 2) // 3 if unit else t
            if k != "dfs" and res.objective != want:
                bad.append((f"{P}/{name}/ensures:distance-is-shortest", f"reported {res.objective} for 0->{t}, shortest is {want}"))
    for obl, det in bad:
        out["viol"].append((obl, case, det))
    out["keys"].append(B.key64(("implicit", sorted(spec.items()))))


# ====================================================================== work items
def work2(case):
    B.M()
    out = {"viol": [], "n": 0, "keys": [], "sample": None}
    kind = case["kind"]
    if kind == "big":
        check_big(case["spec"], out)
    elif kind == "hist":
        for spec in case["specs"]:
            check_history(spec, out)
    elif kind == "gridbig":
        check_grid_big(case["spec"], out)
    elif kind == "gridhist":
        for spec in case["specs"]:
            check_grid_history(spec, out)
    elif kind == "implicit":
        for spec in case["specs"]:
            check_implicit(spec, out)
    else:
        raise ValueError(kind)
    return out


def cost(case):
    """rough relative cost of a heavy work item (only used to start the biggest ones first)"""
    if case["kind"] == "big":
        s = case["spec"]
        n = s["n"]
        m = s.get("m") or n * n * s.get("p", 1.0 if s["fam"] in ("line2", "plane2", "uniform") else 0.02)
        return n * n * 8 + m * 60 + (n ** 3 if s.get("fw") else 0)
    if case["kind"] == "gridbig":
        return case["spec"]["rows"] * case["spec"]["cols"] * 2000
    if case["kind"] == "implicit":
        return max(s["N"] for s in case["specs"]) * 20
    return 0


# ====================================================================== case tables
def big_specs(q, rng):
    """(family, n, ...) ladder.  Arcs: complete n=60 -> 3540, 100 -> 9900, 140 -> 19460, 200 -> 39800, 230 -> 52670."""
    S = []

    def add(**kw):
        kw["seed"] = rng.randrange(1 << 30)
        S.append(kw)

    # --- dense, label-lowering-heavy: more than 1024 / 2048 / ... / 50000 arcs
    for n in ((60, 65, 80, 100, 129, 140, 200) if q else (60, 65, 70, 80, 90, 100, 110, 120, 129, 133, 140, 160, 180, 200, 230)):
        for rep in range((3 if n <= 100 else 2 if n <= 140 else 1) if q else (6 if n <= 140 else 3)):
            add(fam="line2", n=n, a=rng.choice((10, 10, 3, 1)), order=rng.choice(("nat", "nat", "shuffle")), targets=5 if q else 6,
                fw=n <= (65 if q else 133) or (n == 129 and rep == 0), fw_und=n <= 65, bf=n <= 140)
    for n in ((64, 100, 130, 200) if q else (64, 100, 130, 150, 200, 230)):
        for rep in range(1 if q else 3):
            add(fam="plane2", n=n, a=rng.choice((10, 4)), order=rng.choice(("nat", "shuffle")), targets=4 if q else 6, fw=n <= 64, bf=n <= 130)
    # --- the same cost structure, sparse: n up to 400, 6000..50000 arcs
    for n, p in (((260, 0.12), (400, 0.06)) if q else ((260, 0.12), (260, 0.5), (400, 0.06), (400, 0.3), (520, 0.1), (600, 0.05))):
        add(fam="line2", n=n, p=p, a=10, order="nat", targets=3 if q else 5, bf=n * n * p < 30000)
        if not q:
            add(fam="plane2", n=n, p=p, a=10, order="shuffle", targets=4, bf=False)
    # --- uniform random weights (few improvements), ties
    for n, p, W in (((70, 1.0, (1, 1000)), (129, 0.5, (0, 1)), (140, 1.0, (1, 3))) if q else
                    ((70, 1.0, (1, 1000)), (129, 0.5, (0, 1)), (140, 1.0, (1, 3)), (200, 1.0, (1, 10 ** 6)), (260, 0.3, (0, 2)), (400, 0.25, (1, 50)))):
        add(fam="uniform", n=n, p=p, W=W, order="shuffle", targets=3 if q else 5, fw=n <= 70, bf=n <= 140)
    # --- sparse ladder over n: 10-12, 33, 65, 129-140, 260, 520-600, 1000+  (1000..3000+ arcs)
    for n in ((10, 11, 12, 33, 65, 129, 260, 520, 1100) if q else (10, 11, 12, 13, 31, 32, 33, 64, 65, 66, 127, 128, 129, 130, 140, 255, 256, 257, 260, 511,
                                                                  512, 513, 520, 600, 1000, 1024, 1025, 1100, 2000)):
        for W in ((0, 1, 2, 5), (1,)) if (q and n <= 260) or not q else ((0, 1, 2, 5),):
            m = max(3 * n, 1100) if n >= 33 else rng.choice((20, 40, 120))
            add(fam="sparse", n=n, m=m, W=W, targets=3 if q else 4, fw=n <= (130 if q else 260), fw_und=n <= 66, bf=True)
    # --- chain vs shortcuts, worst relaxation order (Bellman-Ford needs ~n rounds)
    for n in ((33, 65, 130, 260) if q else (12, 33, 64, 65, 128, 129, 140, 260, 520, 600, 1030)):
        add(fam="chain", n=n, m=4 * n, order=rng.choice(("rev", "rev", "shuffle")), targets=3, fw=n <= (130 if q else 260), bf=True)
    # --- negative weights from potentials; planted cycles
    for n in ((33, 65, 130) if q else (12, 33, 64, 65, 100, 129, 140, 200, 260)):
        for cyc in (None, "reach", "unreach", "zero"):
            if q and n == 130 and cyc in ("zero",):
                continue
            base = rng.choice(({"fam": "sparse", "n": n, "m": max(4 * n, 200), "W": (0, 1, 2, 5, 9)},
                               {"fam": "chain", "n": n, "m": 4 * n, "order": "rev"},
                               {"fam": "line2", "n": n, "p": min(1.0, 12.0 / n), "a": 3}))
            add(fam="negpot", n=n, base=base, cyc=cyc, P=rng.choice((5, 50, 1000)), targets=3, fw=n <= (130 if q else 140), fw_und=False)
    return S


def hist_specs(q, rng):
    S = []
    R = 480 if q else 8000
    for i in range(R):
        S.append({"seed": rng.randrange(1 << 30), "steps": rng.randint(4, 10), "neg": i % 3 == 2, "per_step": 8, "fresh": i % (6 if q else 4) == 0})
    for i in range(3 if q else 24):  # more than 1024 arcs, edited between calls
        n = rng.choice((60, 70)) if q else rng.choice((60, 70, 90, 129))
        S.append({"seed": rng.randrange(1 << 30), "steps": 3 if q else 5,
                  "big": {"fam": "line2", "n": n, "a": 10, "order": "nat", "seed": rng.randrange(1 << 30), "labels": "str", "gen": False}})
    return S


def grid_specs(q, rng):
    S = []
    shapes = ((12, 12), (33, 33), (10, 65), (65, 65), (130, 129)) if q else ((12, 12), (11, 33), (33, 33), (32, 32), (10, 65), (65, 65), (64, 64), (129, 129), (8, 260), (140, 130))
    for r, c in shapes:
        for style in (("bin", "maze", "multi") if not q or r * c <= 5000 else ("bin", "maze")):
            S.append({"rows": r, "cols": c, "style": style, "p": rng.choice((0.1, 0.2, 0.3)), "seed": rng.randrange(1 << 30)})
    return S


def implicit_specs(q):
    S = []
    for N in ((100_000,) if q else (100_000, 300_000)):
        for k in ("dijkstra", "astar", "bfs", "dfs"):
            S.append({"N": N, "t": N - 1 - (N % 7), "k": k, "pred": k in ("astar", "dfs")})
        S.append({"N": N, "t": N + 5, "k": "dijkstra"})
    # the default max_iter = 1 000 000 is reached: the target is the last node that is still settled in time
    for k in ("bfs", "dijkstra") if q else ("bfs", "dijkstra", "astar", "dfs"):
        S.append({"N": 1_000_050, "t": 999_999, "k": k})
    return S


def build_cases2(ctx, rng):
    q = ctx.quick
    cases = []
    bs = big_specs(q, rng)
    for s in bs:
        cases.append({"kind": "big", "spec": s})
    ctx.scope("size ladder: generated digraphs judged by the polynomial oracle + certificate", instances=len(bs),
              nodes="10..%d" % max(s["n"] for s in bs), families="line2/plane2 (cost ~ a*squared distance + noise, complete and sparse), uniform, "
              "{0,1} ties, sparse random (self loops, parallel arcs), chain vs shortcuts in worst relaxation order, negative weights from "
              "potentials with planted -1 / 0 cycles (reachable and unreachable)",
              arcs="up to ~%d" % (39800 if q else 52670),
              queries="per source: far/deep/random/unreachable targets as value and predicate, astar h in {0, h*/2, h*, floor(h*/2)}, goal sets, "
              "max_cost at delta/delta+-1, max_iter at 1/nreach+-1/1025, bfs/dfs on the same structure, bellman_ford, floyd_warshall up to %d nodes, "
              "agreement" % (130 if q else 260))
    # magnitude ladder: random small graphs
    R = 1800 if q else 40000
    gs = mag_graphs(rng, R)
    for ch in B.chunks(gs, 25):
        cases.append({"kind": "graphs", "graphs": ch, "mode": "rand", "seed": rng.randrange(1 << 30), "brute": False})
    ctx.scope("magnitude ladder: random structured graphs n<=9 with exactly representable large / fine-grained weights", runs=R,
              transforms="c*2^k (k 20..46), c*10^k (k 6..15), c*10^k+e (k 9..14), c*2^k+e (k 30..44), (c*2^k+e)/2^k (gaps 2^-30..2^-44), e in -3..3; "
              "negative cycles of total -2..+1 entered behind arcs of 1e9..1e12; all sums < 2^50 (negative) / 2^51", negative_share="1/3")
    # magnitude ladder: exhaustive n=3
    arcs3 = [(u, v) for u in range(3) for v in range(3)]
    import itertools
    for Bv in ((10 ** 10,) if q else (10 ** 10, 1 << 40, 10 ** 12 + 1)):
        for k in range(1, 4):
            for sub in itertools.combinations(arcs3, k):
                cases.append({"kind": "enum", "n": 3, "arcs": list(sub), "W": (0, float(Bv), Bv + 1, float(2 * Bv + 1)), "orders": ["fwd", "rev"], "mode": "lite"})
                cases.append({"kind": "enum", "n": 3, "arcs": list(sub), "W": (-Bv - 1, float(-Bv), Bv, float(Bv + 1), 2 * Bv - 1), "orders": ["fwd", "rev"], "mode": "neg"})
    ctx.scope("magnitude ladder exhaustive: n=3, arc sets of size<=3 (self loops), both edge orders, every weighting", exhaustive=True,
              weights="{0,B,B+1,2B+1} (all solvers) and {-B-1,-B,B,B+1,2B-1} (bellman_ford, floyd_warshall)", B="1e10" if q else "1e10, 2^40, 1e12+1")
    hs = hist_specs(q, rng)
    for ch in B.chunks(hs[:-3 if q else -24], 12):
        cases.append({"kind": "hist", "specs": ch})
    for s in hs[-3 if q else -24:]:
        cases.append({"kind": "hist", "specs": [s]})
    ctx.scope("history mode: streams of calls on ONE adjacency dict / edge list / neighbours, heuristic and goal callables with in-place edits "
              "(weight change, arc added/deleted/redirected, weights swapped, node added) between calls", streams=len(hs),
              steps="4..10 (3..5 on the >1024-arc graphs)", per_step="8 probes drawn from the random battery + one repeated call",
              fresh_process="last answer of every %s stream compared with a freshly imported solvor in a forked child" % ("6th" if q else "4th"))
    GH = 200 if q else 4000
    gh = [{"seed": rng.randrange(1 << 30), "steps": rng.randint(4, 9), "per_step": 6} for _ in range(GH)]
    for ch in B.chunks(gh, 20):
        cases.append({"kind": "gridhist", "specs": ch})
    ctx.scope("history mode on grids: one grid (list of lists), one costs dict, one blocked set reused by astar_grid with in-place edits between calls",
              streams=GH, grids="1..6 x 1..6, 0/1 or multi-valued", steps="4..9", per_step="6 calls (random start/goal/directions/admissible heuristic)")
    gsp = grid_specs(q, rng)
    for s in gsp:
        cases.append({"kind": "gridbig", "spec": s})
    ctx.scope("grid ladder: astar_grid on generated grids, oracle = heap Dijkstra in Z[sqrt2] accepted only through the exact certificate",
              grids=len(gsp), shapes="12x12 .. %s" % ("65x65, 130x129" if q else "129x129, 140x130, 8x260"), styles="random obstacles, serpentine maze, multi-valued with costs")
    isp = implicit_specs(q)
    for ch in B.chunks(isp, 2):
        cases.append({"kind": "implicit", "specs": ch})
    ctx.scope("long runs: implicit chain i->i+1 (1), i+2 (2), i+3 (4); distance known by construction", N="100000, 1000050 (default max_iter reached: target = the last node settled in time)" if q else "100000, 300000, 1000050 (same)",
              solvers="dijkstra, astar (h = (t-i)/2), bfs, dfs")
    return cases


def replay2(case):
    """-> list of (obligation, detail)"""
    kind = case["kind"]
    if kind == "big":
        Gr = BigG(gen_big(case["spec"]))
        with B.cpu_budget(BIG_BUDGET):
            try:
                return B.run_probe(Gr, case["probe"])[0]
            except B.SolverRaised as e:
                return [(None, str(e))]
    if kind == "history":
        r = hist_stream(case["spec"], upto=case["step"])
        v = [(obl, det) for step, obl, p, det, _ in r["viol"] if step == case["step"]]
        if case.get("fresh") and r["last"] is not None and r["last"][3] is not None:
            step, p, summ, snap = r["last"]
            st, ans = in_fresh_process(_fresh_summary, (snap, p))
            if repr(ans) != repr(summ):
                v.append((f"{P}/history/ensures:same-answer-as-fresh-process", f"stream {summ} vs fresh {ans}"))
        return v
    if kind == "gridbig":
        return replay_grid_big(case)
    if kind == "gridhist":
        r = grid_stream(case["spec"], upto=case["step"])
        return [(obl, det) for step, obl, p, det, _ in r["viol"] if step == case["step"]]
    if kind == "implicit":
        out = {"viol": [], "n": 0, "keys": [], "sample": None}
        check_implicit(case["spec"], out)
        return [(o, d) for o, _, d in out["viol"]]
    raise ValueError(kind)

"""C16, second-round families (imported by checks/C16.py): size ladder, fine-grained numerics, history mode.

Every family evaluates the SAME contract as checks/C16.py (judge_knap / judge_bin); only the inputs and the oracles differ.

size ladder      one call per instance, hundreds to thousands of items, sizes/capacities around powers of two and round numbers.
                 knapsack: optimum from oracles/knapsack_dp.py (row DP over the integer units, no keep table);
                 bin packing: optimum (or a two-sided bound) from oracles/binpack_cert.py: volume bound / big-item bound below,
                 a planted packing (checked, given by value) above.
fine numerics    dyadic grids 1/2^k (k <= 26: every gap is at least 10x the library's documented 1e-9 slack), items one unit above
                 and below a half / a third / the capacity, subsets and bins that sum EXACTLY to the capacity in floating point,
                 weights far below the resolution of the scaled DP next to a tight fit, long decimal exact fills (float noise).
history mode     a program of operations executed in ONE freshly forked process: create argument objects, call, edit the SAME
                 objects in place (reverse / sort / rotate / permute / item assignment / append / pop / slice assignment / move
                 units between two items), change the capacity, repeat a call, drop an object and build another one (id reuse),
                 pass one list as values AND weights.  Every call is judged against the oracle for the contents at that call.
                 The last call (and one earlier call) is repeated as an isolated call on newly built equal objects in another
                 fresh process and must give the identical answer.  A violation is shrunk (isolated call, then greedy removal of
                 operations), every candidate again in a fresh process; the replay file holds the whole remaining program and
                 `replay` re-runs all of it.
"""
from __future__ import annotations

import os
import pickle
import random
import signal
import time
import traceback

P = "C16"
FRESH = "ensures:same-answer-in-a-fresh-process"


def base():
    from checks import C16
    return C16


# ====================================================================================== fresh processes
def in_fresh_process(fn, arg):
    """fn(arg) in a forked child.  The calling process never calls the code under test (history tasks run in their own
    pool), so the child starts with solvor's module state exactly as after import."""
    r, w = os.pipe()
    pid = os.fork()
    if pid == 0:
        code = 0
        try:
            os.close(r)
            # not a verdict: a child that burns 600 CPU-seconds (>100x the largest program) is killed by the default action of
            # SIGVTALRM, the parent then reports "died without an answer" as a harness defect instead of waiting for ever
            signal.setitimer(signal.ITIMER_VIRTUAL, 600)
            try:
                payload = ("ok", fn(arg))
            except BaseException:  # noqa
                payload = ("err", traceback.format_exc()[-3000:])
            with os.fdopen(w, "wb") as f:
                f.write(pickle.dumps(payload))
        except BaseException:  # noqa
            code = 1
        finally:
            os._exit(code)
    os.close(w)
    with os.fdopen(r, "rb") as f:
        data = f.read()
    os.waitpid(pid, 0)
    if not data:
        return ("err", "child process died without an answer")
    return pickle.loads(data)


# ====================================================================================== history interpreter
class HarnessError(Exception):
    """the program itself is ill-formed (only happens to candidates produced by shrinking)"""


EDITS = ("reverse", "sort", "sortd", "rotate", "perm", "set", "append", "pop", "delitem", "assign", "swap", "move")


def _apply_edit(op, obj, units, conv):
    """the same in-place edit on the live argument object and on its integer mirror."""
    k = op[0]
    n = len(units)
    if k == "reverse":
        obj.reverse(); units.reverse()
    elif k == "sort":
        obj.sort(); units.sort()
    elif k == "sortd":
        obj.sort(reverse=True); units.sort(reverse=True)
    elif k == "rotate":
        r = op[2] % n if n else 0
        obj[:] = obj[r:] + obj[:r]; units[:] = units[r:] + units[:r]
    elif k == "perm":
        p = op[2]
        if sorted(p) != list(range(n)):
            raise HarnessError("perm does not match the list")
        obj[:] = [obj[i] for i in p]; units[:] = [units[i] for i in p]
    elif k == "set":
        if not 0 <= op[2] < n:
            raise HarnessError("index")
        obj[op[2]] = conv(op[3]); units[op[2]] = op[3]
    elif k == "append":
        obj.append(conv(op[2])); units.append(op[2])
    elif k == "pop":
        if not n:
            raise HarnessError("pop from empty")
        obj.pop(); units.pop()
    elif k == "delitem":
        if not 0 <= op[2] < n:
            raise HarnessError("index")
        del obj[op[2]]; del units[op[2]]
    elif k == "assign":
        obj[:] = [conv(u) for u in op[2]]; units[:] = list(op[2])
    elif k == "swap":
        i, j = op[2], op[3]
        if not (0 <= i < n and 0 <= j < n):
            raise HarnessError("index")
        obj[i], obj[j] = obj[j], obj[i]; units[i], units[j] = units[j], units[i]
    elif k == "move":  # move d units from item i to item j
        i, j, d = op[2], op[3], op[4]
        if not (0 <= i < n and 0 <= j < n and i != j and 0 <= d <= units[i]):
            raise HarnessError("move")
        units[i] -= d; units[j] += d
        obj[i] = conv(units[i]); obj[j] = conv(units[j])
    else:
        raise HarnessError(f"unknown edit {k}")


def run_history(spec):
    """Execute the program (runs inside a fresh child).  -> {"calls": [(op index, single-call case, outcome, fails, info)]}
    spec: {"den", "vden", "as_float", "ops": [...]}; see the module docstring and gen_* below for the operations."""
    B = base()
    den, vden, af = spec.get("den", 1), spec.get("vden", 1), bool(spec.get("as_float", False))
    objs = {}  # name -> {"obj", "u", "den", "wit"}  (aliases share the dict)
    calls = []
    upto = spec.get("upto")
    for idx, op in enumerate(spec["ops"]):
        if upto is not None and idx >= upto:
            break
        k = op[0]
        if k == "new":
            _, name, units, kind = op[:4]
            cont = op[4] if len(op) > 4 else "list"
            d = den if kind == "w" else vden
            objs[name] = {"obj": B.make_seq(units, d, af, cont), "u": list(units), "den": d, "wit": None, "cont": cont}
        elif k == "wit":
            objs[_need(objs, op[1])]["wit"] = [list(b) for b in op[2]]
        elif k == "del":
            objs.pop(_need(objs, op[1]))
        elif k == "alias":
            objs[op[1]] = objs[_need(objs, op[2])]
        elif k in EDITS:
            o = objs[_need(objs, op[1])]
            if o["cont"] != "list":
                raise HarnessError("in-place edit of a tuple")
            d = o["den"]
            _apply_edit(op, o["obj"], o["u"], lambda u, d=d: B.num(u, d, af))
            if k in ("set", "append", "pop", "delitem", "assign", "move"):
                o["wit"] = _carried_wit(op)  # a value edit invalidates the planted packing unless the op carries the new one
            if len(o["u"]) <= 64 and list(o["obj"]) != [B.num(u, d, af) for u in o["u"]]:
                raise AssertionError("harness defect: the integer mirror and the live list differ")
        elif k == "knap":
            _, vn, wn, cu, mini = op
            v, w = objs[_need(objs, vn)], objs[_need(objs, wn)]
            case = {"fn": "knapsack", "values_u": list(v["u"]), "weights_u": list(w["u"]), "cap_u": cu, "den": w["den"],
                    "vden": v["den"], "minimize": bool(mini), "as_float": af}
            if v["cont"] != "list":
                case["container"] = v["cont"]
            if v is w:
                case["alias"] = True
            if len(v["u"]) != len(w["u"]):
                raise HarnessError("values and weights of different length")
            out = B.call_knap(case, v["obj"], w["obj"])
            fails, info = B.judge_knap(case, out)
            calls.append((idx, case, _plain(out), fails, info))
        elif k == "bin":
            _, sn, cu, algo = op
            s = objs[_need(objs, sn)]
            if cu <= 0 or any(x > cu for x in s["u"]):
                raise HarnessError("bin call outside the precondition")
            case = {"fn": "bin_pack", "sizes_u": list(s["u"]), "cap_u": cu, "den": s["den"], "algorithm": algo, "as_float": af}
            if s["cont"] != "list":
                case["container"] = s["cont"]
            if s["wit"] is not None:
                case["witness"] = s["wit"]
            out = B.call_bin(case, s["obj"])
            fails, info = B.judge_bin(case, out)
            calls.append((idx, case, _plain(out), fails, info))
        else:
            raise HarnessError(f"unknown operation {k}")
    return {"calls": calls}


def _carried_wit(op):
    last = op[-1]
    return [list(b) for b in last] if isinstance(last, list) and last and isinstance(last[0], list) else None


def _need(objs, name):
    if name not in objs:
        raise HarnessError(f"object {name} does not exist")
    return name


def _plain(out):
    if out[0] != "ok":
        return list(out)
    sol = out[1]
    return ["ok", list(sol) if isinstance(sol, (tuple, list)) else repr(sol), out[2] if isinstance(out[2], (int, float)) else repr(out[2]), out[3]]


def isolated(case):
    """one call on newly built objects (runs inside a fresh child) -> (outcome, fails)"""
    B = base()
    if case["fn"] == "knapsack":
        out = B.call_knap(case)
        return _plain(out), B.judge_knap(case, out)[0]
    out = B.call_bin(case)
    return _plain(out), B.judge_bin(case, out)[0]


def history_violations(spec, compare=()):
    """Run the program in a fresh child; repeat the calls at the op indices `compare` (or "last") as isolated calls in
    further fresh children.  -> (status, [(op index, obligation, detail)], calls)"""
    st, res = in_fresh_process(run_history, spec)
    if st != "ok":
        return "harness" if "HarnessError" in res else "err", res, []
    calls = res["calls"]
    viol = [(idx, ob, det) for idx, _c, _o, fails, _i in calls for ob, det in fails]
    want = set(compare)
    if "last" in want and calls:
        want.discard("last")
        want.add(calls[-1][0])
    for idx, case, out, _f, _i in calls:
        if idx in want:
            st2, res2 = in_fresh_process(isolated, case)
            if st2 != "ok":
                return "err", res2, calls
            if res2[0] != out:
                fn = "solve_knapsack" if case["fn"] == "knapsack" else "solve_bin_pack"
                viol.append((idx, f"{P}/{fn}/{FRESH}",
                             f"operation {idx} of the program returned {_show_out(out)}; the same call on newly built equal "
                             f"arguments in a fresh process returns {_show_out(res2[0])}"))
    return "ok", viol, calls


def _show_out(out):
    B = base()
    if out[0] != "ok":
        return f"raised {out[1]}"
    return f"status {out[3]}, objective {out[2]}, solution {B.brief(out[1])}"


def shrink(spec, idx, ob, budget=40):
    """Smallest program that still ends in a call violating `ob`.
    -> (case for the replay file, how it reproduces, the violation text of the shrunk program or None)"""
    ops = spec["ops"]
    cmp = ("last",) if ob.endswith(FRESH) else ()
    st, res = in_fresh_process(run_history, dict(spec, upto=idx + 1))
    if st == "ok" and res["calls"] and not cmp:
        single = res["calls"][-1][1]
        st2, res2 = in_fresh_process(isolated, single)
        if st2 == "ok" and any(o == ob for o, _ in res2[1]):
            return single, "reproduces as one isolated call in a fresh process", None

    last_detail = [None]

    def bad(cand_ops):
        s, viol, calls = history_violations(dict(spec, ops=cand_ops, upto=None), cmp)
        if s != "ok" or not calls:
            return False
        for i, o, d in viol:
            if i == calls[-1][0] == len(cand_ops) - 1 and o == ob:
                last_detail[0] = d
                return True
        return False

    cur = [list(o) for o in ops[:idx + 1]]
    if not bad(cur):
        return dict(spec, ops=cur), ("observed once; NOT reproduced when the same program was re-run in a fresh process "
                                     "(non-deterministic behaviour)"), None
    changed = True
    while changed and budget > 0:
        changed = False
        for j in range(len(cur) - 2, -1, -1):
            if budget <= 0:
                break
            budget -= 1
            cand = cur[:j] + cur[j + 1:]
            keep = last_detail[0]
            if bad(cand):
                cur, changed = cand, True
            else:
                last_detail[0] = keep
    n_calls = sum(1 for o in cur if o[0] in ("knap", "bin"))
    return dict(spec, ops=cur), (f"HISTORY-DEPENDENT: the final call is correct as an isolated call in a fresh process and wrong "
                                 f"as the last of these {len(cur)} operations ({n_calls} calls) in one process"), last_detail[0]


# ====================================================================================== generators: instances
POW_SIZES_Q = (10, 11, 12, 33, 65, 129, 140, 260, 520, 600, 1030)
POW_SIZES_T = POW_SIZES_Q + (1000, 2050, 4100)
CAPS = (63, 64, 65, 100, 127, 128, 129, 255, 256, 257, 500, 511, 512, 513, 1000, 1023, 1024, 1025, 2000, 2047, 2048, 2049, 4096,
        5000, 10000, 16384, 32768, 65536, 100000)


def cut_bin(rng, cu, pieces):
    pieces = max(1, min(pieces, cu))
    cuts = sorted(rng.sample(range(1, cu), pieces - 1))
    return [b - a for a, b in zip([0] + cuts, cuts + [cu])]


def gen_packing(rng, m, cu, family):
    """-> (sizes in planted order, witness by value).  The witness is checked by oracles/binpack_cert, not trusted."""
    wit = []
    if family == "perfect":  # m completely full bins cut into 1..5 pieces: OPT = m = volume bound
        for _ in range(m):
            wit.append(cut_bin(rng, cu, rng.randint(1, 5)))
    elif family == "many-pieces":  # full bins cut into up to 12 pieces (long float sums)
        for _ in range(m):
            wit.append(cut_bin(rng, cu, rng.randint(4, 12)))
    elif family == "triples":
        # one item just above 1/2, one just above 1/3 (or 1/4), one small: OPT = m by the big-item bound.  Processed in
        # non-decreasing order this is the classical bad case of first fit / best fit (5/3 OPT), so it separates
        # "decreasing" from any other processing order
        for _ in range(m):
            big = cu // 2 + rng.randint(1, max(1, cu // 40))
            mid = min(cu - big - 1, cu // 3 + rng.randint(1, max(1, cu // 40))) if rng.random() < 0.8 else cu // 4 + 1
            mid = max(1, min(mid, cu - big - 1))
            small = rng.randint(max(1, (cu - big - mid) * 3 // 4), cu - big - mid) if cu - big - mid >= 1 else 0
            wit.append([x for x in (big, mid, small) if x > 0])
    elif family == "pairs":  # complementary pairs a + (c - a), many ties
        for _ in range(m):
            a = rng.choice([cu // 2, rng.randint(1, cu - 1), rng.randint(1, cu - 1), 1, cu // 3])
            a = max(1, min(cu - 1, a))
            wit.append([a, cu - a])
    elif family == "near":  # full bins with some pieces removed: only OPT <= m is certified, the lower bound may be smaller
        for _ in range(m):
            b = cut_bin(rng, cu, rng.randint(2, 5))
            if rng.random() < 0.3:
                b.pop(rng.randrange(len(b)))
            wit.append(b)
    else:
        raise ValueError(family)
    if any(sum(b) > cu or min(b) < 0 for b in wit):
        raise AssertionError("generator defect: planted bin over the capacity")
    sizes = [s for b in wit for s in b]
    return sizes, wit


def order_sizes(rng, sizes, order):
    s = list(sizes)
    if order == "shuffled":
        rng.shuffle(s)
    elif order == "ascending":
        s.sort()
    elif order == "descending":
        s.sort(reverse=True)
    elif order == "classes":  # all small ones, then the medium ones, then the big ones, each class shuffled
        s.sort()
        third = max(1, len(s) // 3)
        parts = [s[:third], s[third:2 * third], s[2 * third:]]
        for p in parts:
            rng.shuffle(p)
        s = parts[0] + parts[1] + parts[2]
    return s


def lib_width(cu, den):
    """width of the library's DP table for capacity cu/den with non-integer data (n * width cells are allocated)."""
    if den == 1 or cu <= 0:
        return cu + 1
    cap = cu / den
    return int(cap * min(1000.0, 1e5 / cap)) + 2


def gen_knap(rng, n, cu, flavor):
    """integer-unit knapsack instance; -> (values, weights)."""
    heavy = rng.random() < 0.25
    wmax = max(2, cu if heavy else min(cu, max(3, (rng.choice([2, 3, 6]) * 2 * cu) // max(1, n))))
    ws = [rng.randint(1, wmax) for _ in range(n)]
    if flavor == "uncorrelated":
        vs = [rng.randint(0, rng.choice([9, 99, 1000])) for _ in range(n)]
    elif flavor == "weak":
        vs = [max(0, w + rng.randint(-wmax // 8 - 1, wmax // 8 + 1)) for w in ws]
    elif flavor == "strong":
        k = max(1, wmax // 10)
        vs = [w + k for w in ws]
    elif flavor == "subset-sum":
        vs = list(ws)
    elif flavor == "trap":  # a few dense small items that greedy takes first and that block the exact fill
        vs = [2 * w for w in ws]
        for j in rng.sample(range(n), max(1, n // 10)):
            ws[j] = max(1, cu // 2 + rng.randint(-2, 2))
            vs[j] = 2 * ws[j] + 1
    else:
        raise ValueError(flavor)
    r = rng.random()
    if r < 0.5 and n >= 4 and cu >= 4:  # a planted subset that fills the capacity exactly
        m = rng.randint(2, min(n, 8, cu))
        for j, pw in zip(rng.sample(range(n), m), cut_bin(rng, cu, m)):
            ws[j] = pw
            if flavor == "subset-sum":
                vs[j] = pw
    if rng.random() < 0.3:  # zero weights, zero values, an item over the capacity, an item equal to the capacity
        for j, (w, v) in zip(rng.sample(range(n), min(n, 4)), [(0, rng.randint(1, 5)), (rng.randint(1, wmax), 0), (cu + 1, 10 ** 4), (cu, rng.randint(1, cu + 1))]):
            ws[j], vs[j] = w, v
    if rng.random() < 0.2:  # ties: many equal items
        j = rng.randrange(n)
        for i in range(n):
            if rng.random() < 0.3:
                ws[i], vs[i] = ws[j], vs[j]
    return vs, ws


# ====================================================================================== ladder / fine tasks (one call per case)
def t_kl(seed, n, cu, flavor, den, vden, as_float, minimize_too):
    from oracles import knapsack_dp as kd
    B = base()
    rng = random.Random(seed)
    acc = B.Acc()
    vs, ws = gen_knap(rng, n, cu, flavor)
    opt = kd.dp_max(vs, ws, cu)
    if not kd.certify(vs, ws, cu, opt):
        raise AssertionError("oracle defect: DP optimum above the fractional bound")
    case = {"fn": "knapsack", "values_u": vs, "weights_u": ws, "cap_u": cu, "den": den, "vden": vden, "minimize": False, "as_float": as_float}
    if rng.random() < 0.25:
        case["container"] = "tuple"
    variants = [case] + ([dict(case, minimize=True)] if minimize_too else [])
    for c in variants:
        fails, info = B.eval_knap(c, opt=None if c["minimize"] else opt)
        acc.evals += 1
        if info:
            acc.stat("knap-ladder:" + info["status"])
        if fails:
            acc.fail(fails, c, (n, cu, sum(ws), sum(vs)))
        if not c["minimize"] and B.knap_nontrivial(vs, ws, cu, info):
            acc.keys.append(f"KL{den}/{vden}|{n}|{cu}|{flavor}|{seed}")
    acc.samples.append({"fn": "knapsack ladder", "items": n, "capacity_units": cu, "unit": f"1/{den}", "flavor": flavor, "optimum_units": opt})
    return acc.out()


def t_bl(seed, m, cu, family, den, as_float, order):
    B = base()
    from oracles import binpack_cert as bc
    rng = random.Random(seed)
    acc = B.Acc()
    sizes, wit = gen_packing(rng, m, cu, family)
    for _z in range(rng.choice([0, 0, 2])):
        sizes.append(0)
    sizes = order_sizes(rng, sizes, order)
    rng_range = bc.opt_range(sizes, cu, wit)
    if rng_range[1] is None:
        raise AssertionError("generator defect: the planted packing was rejected by the certificate checker")
    algos = B.ALGOS if rng.random() < 0.85 else tuple(B.ALIASES[a] for a in B.ALGOS)
    for algo in algos:
        case = {"fn": "bin_pack", "sizes_u": sizes, "cap_u": cu, "den": den, "algorithm": algo, "as_float": as_float, "witness": wit}
        if rng.random() < 0.2:
            case["container"] = "tuple"
        fails, info = B.eval_bin(case, rng_range)
        acc.evals += 1
        if info:
            acc.stat("bin-ladder:" + info["status"])
            acc.stat("bin-ladder:optimum " + ("known" if info["opt_known"] else "bounded"))
            if info["k"] > info["opt"]:
                acc.stat("bin-ladder:k>OPT")
            acc.keys.append(f"BL{den}|{m}|{cu}|{family}|{order}|{seed}|{algo}")
        if fails:
            acc.fail(fails, case, (len(sizes), cu, sum(sizes)))
    acc.samples.append({"fn": "bin_pack ladder", "bins_planted": m, "items": len(sizes), "capacity_units": cu, "unit": f"1/{den}",
                        "family": family, "order": order, "optimum_range": list(rng_range)})
    return acc.out()


DYADIC = (1, 2, 3, 4, 6, 8, 10, 12, 16, 20, 23, 24, 26)


def t_b_fine(seed, count):
    """dyadic / long-decimal bin packing: gaps of one unit around 1/2, 1/3 and the capacity; bins that sum exactly to the capacity."""
    B = base()
    rng = random.Random(seed)
    acc = B.Acc()
    for _ in range(count):
        if rng.random() < 0.7:
            den = 2 ** rng.choice(DYADIC)
            cu = den * rng.choice([1, 1, 1, 2, 3, 100]) + rng.choice([0, 0, 0, 1, -1])
        else:
            den = rng.choice([10, 100, 1000, 1000, 10 ** 4, 10 ** 5, 10 ** 6])
            cu = rng.choice([den, 3 * den, 7 * den // 10, 3 * den // 10, den + 1, 100 * den])
        cu = max(cu, 4)
        kind = rng.choice(["near-half", "near-third", "exact-cuts", "exact-cuts", "long"])
        wit = []
        if kind == "near-half":  # pairs (h - e, h + e') : fit iff e >= e'
            for _b in range(rng.randint(1, 4)):
                e = rng.choice([0, 1, 1, 2, rng.randint(0, max(1, cu // 8))])
                a = cu // 2 + e
                wit.append([a, cu - a] if a < cu else [cu])
            extra = [cu // 2 + 1] * rng.choice([0, 0, 1, 2])
            wit += [[x] for x in extra]
        elif kind == "near-third":
            for _b in range(rng.randint(1, 3)):
                a = cu // 3 + rng.choice([0, 1, 1, 2])
                b = cu // 3 + rng.choice([0, 1, -1])
                c = cu - a - b
                wit.append([x for x in (a, b, c) if x > 0])
        elif kind == "exact-cuts":  # cuts at coarse positions plus or minus one unit
            for _b in range(rng.randint(1, 4)):
                p = rng.randint(1, 4)
                coarse = max(1, cu // rng.choice([2, 3, 4, 5, 8, 10]))
                cuts = sorted({min(cu - 1, max(1, coarse * rng.randint(1, max(1, cu // coarse)) + rng.choice([0, 1, -1, 2]))) for _c in range(p - 1)})
                wit.append([b - a for a, b in zip([0] + cuts, cuts + [cu])])
        else:  # long exact fills: 8..40 pieces per bin (float subtraction noise accumulates)
            for _b in range(rng.randint(1, 3)):
                p = rng.randint(8, 40)
                if cu > p:
                    if rng.random() < 0.5:  # equal pieces plus remainder, e.g. 0.1 * 10
                        q = cu // p
                        wit.append([q] * (p - 1) + [cu - q * (p - 1)])
                    else:
                        wit.append(cut_bin(rng, cu, p))
                else:
                    wit.append([cu])
        sizes = [s for b in wit for s in b]
        sizes = order_sizes(rng, sizes, rng.choice(["shuffled", "shuffled", "ascending", "descending"]))
        for algo in B.ALGOS:
            case = {"fn": "bin_pack", "sizes_u": sizes, "cap_u": cu, "den": den, "algorithm": algo, "as_float": False, "witness": wit}
            fails, info = B.eval_bin(case)
            acc.evals += 1
            if info:
                acc.stat("bin-fine:" + info["status"])
                acc.stat("bin-fine:optimum " + ("known" if info["opt_known"] else "bounded"))
                if len(sizes) >= 2:
                    acc.keys.append(f"BF{den}|{tuple(sizes)}|{cu}|{algo}")
            if fails:
                acc.fail(fails, case, (len(sizes), cu, sum(sizes)))
        if not acc.samples:
            acc.samples.append({"fn": "bin_pack", "sizes_u": sizes, "cap_u": cu, "den": den, "family": kind})
    return acc.out()


def t_k_fine(seed, count):
    """dyadic knapsack: weights on a 1/2^k grid, tight fits, ties at the capacity, weights far below the DP resolution."""
    B = base()
    rng = random.Random(seed)
    acc = B.Acc()
    for _ in range(count):
        den = 2 ** rng.choice(DYADIC)
        cu = max(2, den * rng.choice([1, 1, 1, 2, 5, 64, 100, 101, 3000]) // rng.choice([1, 1, 1, 2, 4]) + rng.choice([0, 0, 1, -1]))
        n = min(rng.randint(2, 11), max(2, 150_000 // lib_width(cu, den)))
        kind = rng.choice(["exact-fill", "exact-fill", "over-by-units", "tiny+tight", "tiny+tight", "ties", "random"])
        tiny = lambda: rng.randint(1, max(1, min(cu // 8, rng.choice([1, 2, 3, den // 1024 + 1, den // 4096 + 1]))))  # noqa: E731
        ws = [rng.choice([rng.randint(0, cu), rng.randint(0, cu // 2 + 1), tiny()]) for _ in range(n)]
        vs = [rng.randint(0, rng.choice([1, 3, 9])) for _ in range(n)]
        if kind in ("exact-fill", "over-by-units", "ties"):
            m = rng.randint(2, min(n, 5))
            tot = cu + (rng.randint(1, 3) if kind == "over-by-units" else 0)
            parts = cut_bin(rng, tot, m) if tot >= m else [1] * m
            idxs = rng.sample(range(n), m)
            for j, pw in zip(idxs, parts):
                ws[j], vs[j] = pw, max(vs[j], 2)
            if kind == "ties" and n - m >= 2:  # a second exact fill with the same value
                rest = [i for i in range(n) if i not in idxs][:2]
                a = rng.randint(1, cu - 1)
                ws[rest[0]], ws[rest[1]] = a, cu - a
                tv = sum(vs[j] for j in idxs)
                vs[rest[0]], vs[rest[1]] = tv // 2, tv - tv // 2
        elif kind == "tiny+tight":  # big items that leave room for exactly some of the tiny ones
            t = rng.randint(1, min(4, n - 1))
            tw = [tiny() for _t in range(t)]
            room = sum(tw) + rng.choice([0, 0, 0, -1, 1])
            big = cu - room
            if big > 0:
                cutn = rng.randint(1, max(1, min(n - t, 3)))
                parts = cut_bin(rng, big, cutn) if big >= cutn else [big]
                items = [(w, rng.randint(5, 12)) for w in parts] + [(w, rng.randint(1, 3)) for w in tw]
                items += [(rng.randint(0, cu), rng.randint(0, 3)) for _x in range(n - len(items))]
                rng.shuffle(items)
                ws, vs = [w for w, _ in items], [v for _, v in items]
        vden = rng.choice([1, 1, 10])
        case = {"fn": "knapsack", "values_u": vs, "weights_u": ws, "cap_u": cu, "den": den, "vden": vden,
                "minimize": rng.random() < 0.1, "as_float": False}
        fails, info = B.eval_knap(case)
        acc.evals += 1
        if info:
            acc.stat("knap-dyadic:" + info["status"])
        if fails:
            acc.fail(fails, case, (len(vs), cu, sum(ws), sum(vs)))
        if not case["minimize"] and B.knap_nontrivial(vs, ws, cu, info):
            acc.keys.append(f"KF{den}/{vden}|{vs}|{ws}|{cu}")
        if not acc.samples:
            acc.samples.append(case)
    return acc.out()


# ====================================================================================== generators: history programs
def perm_edit(rng, name, n):
    k = rng.choice(["reverse", "reverse", "sort", "sort", "sortd", "rotate", "perm", "swap"])
    if k == "rotate":
        return [k, name, rng.randint(1, max(1, n - 1))]
    if k == "perm":
        p = list(range(n))
        rng.shuffle(p)
        return [k, name, p]
    if k == "swap":
        return [k, name, rng.randrange(n), rng.randrange(n)]
    return [k, name]


def pick_algo(rng, B, decreasing_bias=0.6):
    a = rng.choice(B.ALGOS[2:]) if rng.random() < decreasing_bias else rng.choice(B.ALGOS)
    return B.ALIASES[a] if rng.random() < 0.1 else a


def gen_bin_history(rng, scale):
    """scale "small": <= 9 positive items (exact optimum at every call); "big": planted packings, certificate-preserving edits."""
    B = base()
    den = rng.choice([1, 1, 1, 1, 10, 100, 1000, 4, 2 ** 20])
    af = den == 1 and rng.random() < 0.25
    if scale == "small":
        cu = rng.choice([rng.randint(4, 12), rng.randint(10, 60), 100, den * rng.randint(1, 3)])
        cu = max(cu, 4)
        fam = rng.choice(["triples", "triples", "perfect", "pairs", "random"])
        if fam == "random":
            sizes = [rng.randint(0, cu) for _ in range(rng.randint(2, 9))]
            wit = None
        else:
            m = {"triples": rng.choice([2, 3, 3]), "perfect": rng.randint(1, 3), "pairs": rng.randint(1, 4)}[fam]
            sizes, wit = gen_packing(rng, m, cu, fam)
            while sum(1 for s in sizes if s > 0) > 9:
                wit.pop()
                sizes = [s for b in wit for s in b]
    else:
        cu = rng.choice([rng.randint(20, 200), 100, 128, 1000, 1024])
        fam = rng.choice(["triples", "triples", "perfect", "pairs", "many-pieces", "near"])
        m = rng.choice([6, 12, 33, 65, 129, 140] if scale == "big" else [260, 520])
        sizes, wit = gen_packing(rng, m, cu, fam)
    sizes = order_sizes(rng, sizes, rng.choice(["shuffled", "ascending", "descending", "descending", "classes"]))
    n = len(sizes)
    ops = [["new", "S", list(sizes), "w"]]
    if wit is not None:
        ops.append(["wit", "S", [list(b) for b in wit]])
    pattern = rng.choice(["perm", "perm", "perm", "repeat", "capacity", "values", "algos", "idreuse", "mixed"])
    a0 = pick_algo(rng, B)
    ops.append(["bin", "S", cu, a0])
    cur, curwit = list(sizes), ([list(b) for b in wit] if wit is not None else None)

    def value_edit():
        nonlocal cur, curwit
        choice = rng.choice(["move", "move", "append", "pop", "set", "assign"]) if scale == "small" else rng.choice(["move", "move", "append-bin", "assign"])
        if choice == "move" and curwit and any(len(b) >= 2 for b in curwit):
            # move d units between two items of one planted bin: the planted packing stays a packing, the total is unchanged
            b = rng.choice([b for b in curwit if len(b) >= 2])
            x, y = rng.sample(range(len(b)), 2)
            if b[x] >= 1 and cur.count(b[x]) and cur.count(b[y]):
                d = rng.randint(1, b[x]) if rng.random() < 0.5 else 1
                i = cur.index(b[x])
                js = [j for j, s in enumerate(cur) if s == b[y] and j != i]
                if js:
                    j = rng.choice(js)
                    b[x] -= d; b[y] += d
                    cur[i] -= d; cur[j] += d
                    return [["move", "S", i, j, d, [list(bb) for bb in curwit]]]
        if choice in ("append", "set") and scale == "small":
            v = rng.randint(0, cu)
            if choice == "append" and len([s for s in cur if s > 0]) < 9:
                cur.append(v); curwit = None
                return [["append", "S", v]]
            if cur:
                i = rng.randrange(len(cur))
                cur[i] = v; curwit = None
                return [["set", "S", i, v]]
        if choice == "pop" and len(cur) > 1:
            cur.pop(); curwit = None
            return [["pop", "S"]]
        if choice == "append-bin":
            extra, w2 = gen_packing(rng, 1, cu, "perfect")
            curwit = (curwit or []) + w2 if curwit is not None else None
            out = []
            for t, v in enumerate(extra):
                cur.append(v)
                out.append(["append", "S", v] + ([[list(bb) for bb in curwit]] if curwit is not None and t == len(extra) - 1 else []))
            return out
        # assign: replace the contents by another instance of the same length and total when possible (a permutation), else any
        new = list(cur)
        rng.shuffle(new)
        cur[:] = new
        return [["assign", "S", list(new)] + ([[list(bb) for bb in curwit]] if curwit is not None else [])]

    steps = rng.randint(1, 3)
    for _s in range(steps):
        if pattern == "perm" or (pattern == "mixed" and rng.random() < 0.5):
            e = perm_edit(rng, "S", len(cur))
            _mirror(e, cur)
            ops.append(e)
            ops.append(["bin", "S", cu, a0 if rng.random() < 0.7 else pick_algo(rng, B)])
        elif pattern == "repeat":
            ops.append(["bin", "S", cu, a0])
        elif pattern == "capacity":
            c2 = rng.choice([2 * cu, cu + 1, cu + rng.randint(1, cu), max(max(cur), cu - 1), 3 * cu])
            ops.append(["bin", "S", c2, a0])
            ops.append(["bin", "S", cu, a0])
        elif pattern == "algos":
            for a in rng.sample(list(B.ALGOS), 4):
                ops.append(["bin", "S", cu, a])
        elif pattern == "idreuse":
            ops.append(["del", "S"])
            other = list(cur)
            rng.shuffle(other)
            if rng.random() < 0.4 and other:
                other[rng.randrange(len(other))] = rng.randint(0, cu)
                curwit = None
            cur = other
            cont = rng.choice(["list", "list", "tuple"])
            ops.append(["new", "S", list(cur), "w", cont])
            if curwit is not None:
                ops.append(["wit", "S", [list(b) for b in curwit]])
            ops.append(["bin", "S", cu, a0])
            if cont == "tuple":
                break
        else:  # values / mixed
            ops += value_edit()
            ops.append(["bin", "S", cu, a0 if rng.random() < 0.6 else pick_algo(rng, B)])
    return {"fn": "history", "den": den, "vden": 1, "as_float": af, "ops": ops, "pattern": f"bin/{scale}/{fam}/{pattern}"}


def _mirror(e, cur):
    _apply_edit(e, list(cur), cur, lambda u: u)


def gen_knap_history(rng, scale):
    den = rng.choice([1, 1, 1, 10, 100, 1000, 4, 2 ** 16])
    vden = rng.choice([1, 1, 10])
    af = den == 1 and rng.random() < 0.25
    if scale == "small":
        n = rng.randint(2, 9)
        cu = rng.choice([rng.randint(0, 8), rng.randint(5, 40), den * rng.randint(1, 3), rng.randint(1, 3 * den)])
        vs, ws = gen_knap(rng, n, max(cu, 2), rng.choice(["uncorrelated", "weak", "strong", "subset-sum"]))
    else:
        n = rng.choice([20, 33, 65, 129, 140, 260])
        cu = rng.choice([64, 100, 127, 128, 129, 255, 256, 257, 500, 512, 1000, 1024, 1025])
        n = min(n, max(12, 600_000 // lib_width(2 * cu, den)))
        vs, ws = gen_knap(rng, n, cu, rng.choice(["uncorrelated", "weak", "strong", "subset-sum", "trap"]))
    alias = rng.random() < 0.12
    ops = [["new", "W", ws, "w"]]
    if alias:
        ops.append(["alias", "V", "W"])
        vs = ws
        vden = den
    else:
        ops.append(["new", "V", vs, "v"])
    mini = rng.random() < 0.1
    ops.append(["knap", "V", "W", cu, mini])
    pattern = rng.choice(["repeat", "capacity", "weights", "values", "both", "structure", "idreuse", "mixed", "minimize"])
    n_cur = n
    for _s in range(rng.randint(1, 3)):
        p = pattern if pattern != "mixed" else rng.choice(["capacity", "weights", "values", "both", "structure"])
        c2 = cu
        if p == "repeat":
            pass
        elif p == "capacity":
            c2 = rng.choice([cu + 1, max(0, cu - 1), 2 * cu, cu // 2, cu + rng.randint(1, max(1, cu)), 0])
        elif p == "weights":
            for _e in range(rng.randint(1, 3)):
                ops.append(["set", "W", rng.randrange(n_cur), rng.choice([0, 1, rng.randint(0, max(1, cu)), cu, cu + 1])])
        elif p == "values" and not alias:
            for _e in range(rng.randint(1, 3)):
                ops.append(["set", "V", rng.randrange(n_cur), rng.randint(0, 30)])
        elif p == "both" and not alias:  # the same permutation on both lists: the same multiset of items in another order
            e = perm_edit(rng, "W", n_cur)
            if e[0] in ("sort", "sortd"):
                e = ["reverse", "W"]
            ops.append(e)
            ops.append([e[0], "V"] + e[2:])
        elif p == "structure":
            if rng.random() < 0.5 or n_cur <= 2:
                w = rng.randint(0, max(1, cu))
                ops.append(["append", "W", w])
                if not alias:
                    ops.append(["append", "V", rng.randint(0, 30)])
                n_cur += 1
            else:
                ops.append(["pop", "W"])
                if not alias:
                    ops.append(["pop", "V"])
                n_cur -= 1
        elif p == "idreuse" and not alias:
            ops.append(["del", "W"])
            nw = [rng.randint(0, max(1, cu)) for _ in range(n_cur)]
            ops.append(["new", "W", nw, "w"])
        elif p == "minimize":
            mini = not mini
        ops.append(["knap", "V", "W", c2, mini])
        if p == "capacity" and rng.random() < 0.5:
            ops.append(["knap", "V", "W", cu, mini])
    return {"fn": "history", "den": den, "vden": vden, "as_float": af, "ops": ops, "pattern": f"knap/{scale}/{pattern}"}


def t_history(seed, count, fn, scale):
    """Pool task of the history pool: this process never calls solvor itself."""
    B = base()
    rng = random.Random(seed)
    res = {"evals": 0, "keys": [], "viol": [], "samples": [], "stats": {}, "defects": [], "cpu": 0.0}
    t0 = sum(os.times()[:4])  # this process and the children it has waited for
    for s in range(count):
        spec = gen_bin_history(rng, scale) if fn == "bin" else gen_knap_history(rng, scale)
        ops = spec["ops"]
        call_idx = [i for i, o in enumerate(ops) if o[0] in ("knap", "bin")]
        compare = {"last"} | ({rng.choice(call_idx[:-1])} if len(call_idx) > 1 and rng.random() < 0.4 else set())
        st, viol, calls = history_violations(spec, compare)
        if st != "ok":
            res["defects"].append(f"history program failed ({st}): {spec.get('pattern')}: {str(viol)[-600:]}")
            continue
        res["evals"] += len(calls) + len(compare)
        _st = res["stats"]
        _st[f"history:{fn}/{scale} programs"] = _st.get(f"history:{fn}/{scale} programs", 0) + 1
        _st[f"history:{fn}/{scale} calls"] = _st.get(f"history:{fn}/{scale} calls", 0) + len(calls)
        _st["history:fresh-process comparisons"] = _st.get("history:fresh-process comparisons", 0) + len(compare)
        for idx, case, _out, _f, info in calls:
            if not info:
                continue
            if case["fn"] == "knapsack":
                nt = not case["minimize"] and B.knap_nontrivial(case["values_u"], case["weights_u"], case["cap_u"], info)
            else:
                nt = len(case["sizes_u"]) >= 2 and info["opt"] >= 2
            if nt and idx != call_idx[0]:  # a call that follows earlier calls on the same objects
                res["keys"].append(f"H|{fn}|{scale}|{seed}|{s}|{idx}")
        seen = set()
        for idx, ob, det in viol:
            if ob in seen:
                continue
            seen.add(ob)
            case, how, det2 = shrink(spec, idx, ob)
            if case.get("fn") == "history":
                case = {k: v for k, v in case.items() if k != "upto"}
            res["viol"].append((ob, case, f"{det2 or det} [{how}; generated by pattern {spec.get('pattern')}]", len(repr(case))))
        if not res["samples"]:
            res["samples"].append({"fn": "history", "pattern": spec["pattern"], "ops": [o if len(repr(o)) < 200 else [o[0], o[1], "..."] for o in ops]})
    res["cpu"] = sum(os.times()[:4]) - t0
    return res


# ====================================================================================== oracle self-test
def selftest_oracles(seed):
    """knapsack_dp vs complete enumeration; binpack_cert vs exact optimum; on random small instances. -> number of comparisons"""
    from oracles import binpack_cert as bc
    from oracles import binpack_exact as be
    from oracles import knapsack_bf as kb
    from oracles import knapsack_dp as kd
    rng = random.Random(seed)
    cnt = 0
    for _ in range(400):
        n = rng.randint(0, 10)
        cu = rng.randint(0, 30)
        vs = [rng.randint(0, 9) for _ in range(n)]
        ws = [rng.randint(0, 12) for _ in range(n)]
        o = kb.best(vs, ws, cu)[0]
        if kd.dp_max(vs, ws, cu) != o or kd.dp_witness(vs, ws, cu)[0] != o or kb.best_dp_int(vs, ws, cu) != o or not kd.certify(vs, ws, cu, o):
            raise AssertionError(f"oracle self-test: knapsack_dp disagrees with enumeration on {vs} {ws} {cu}")
        cnt += 1
    for _ in range(300):
        cu = rng.randint(3, 20)
        m = rng.randint(1, 3)
        fam = rng.choice(["perfect", "triples", "pairs", "near"])
        sizes, wit = gen_packing(rng, m, cu, fam)
        if sum(1 for s in sizes if s > 0) > 9:
            continue
        rng.shuffle(sizes)
        c2 = rng.choice([cu, cu, cu + 1, 2 * cu])
        lo, hi = bc.opt_range(sizes, c2, wit)
        o = be.opt_value(tuple(sizes), c2)
        if hi is None or not lo <= o <= hi:
            raise AssertionError(f"oracle self-test: binpack_cert range [{lo},{hi}] excludes the exact optimum {o} on {sizes} {c2}")
        if bc.upper_bound(sizes + [1], c2, wit) is not None:
            raise AssertionError("oracle self-test: a witness for other sizes was accepted")
        cnt += 1
    return cnt


TASKS = {f.__name__: f for f in (t_kl, t_bl, t_b_fine, t_k_fine)}


def work_history(task):
    import solvor.bin_pack  # noqa: F401  imported here, never called in this process: the forked children start from
    import solvor.knapsack  # noqa: F401  "imported and unused" without paying for the import every time
    return t_history(*task)


# ====================================================================================== plans
def plan_single(ctx, rng):
    """single-call tasks of round 2 (run in the ordinary pool, next to the small-scope tasks)."""
    q = ctx.quick
    tasks = []
    # ---- knapsack ladder
    ns = POW_SIZES_Q if q else POW_SIZES_T
    cell_budget = 2_500_000 if q else 12_000_000
    flavors = ["uncorrelated", "weak", "strong", "subset-sum", "trap"]
    kl = []
    for n in ns:
        caps = [c for c in CAPS if n * (c + 1) <= cell_budget]
        pick = caps if not q else sorted(set(rng.sample(caps, min(len(caps), 3)) + [caps[-1]]))
        for i, cu in enumerate(pick):
            for fl in (rng.sample(flavors, 2) if q else flavors):
                kl.append((rng.getrandbits(48), n, cu, fl, 1, 1, rng.random() < 0.2, rng.random() < 0.25))
    # decimal ladders: unit 1/den, library DP size = n * capacity * min(1000, 1e5/capacity)
    dec = []
    for den, cu in [(10, 257), (10, 999), (10, 1000), (10, 1001), (10, 2049), (100, 129), (100, 1025), (100, 5000), (1000, 1024), (1000, 1025), (1000, 65), (4, 129), (8, 257),
                    (16, 257), (10 ** 4, 10001), (10 ** 4, 1025)]:
        lib_w = lib_width(cu, den)
        for n in ns:
            if n * lib_w <= cell_budget and n * cu <= cell_budget and (not q or rng.random() < 0.5):
                dec.append((rng.getrandbits(48), n, cu, rng.choice(flavors), den, rng.choice([1, 10]), False, False))
    tasks += [("t_kl",) + t for t in kl + dec]
    ctx.scope("size ladder: knapsack (one call per instance, optimum by capacity DP on the integer units)", instances=len(kl) + len(dec),
              items=list(ns), capacity_units="subset of " + str(list(CAPS)) + f" with items*capacity <= {cell_budget}",
              integer_instances=len(kl), decimal_instances=len(dec), decimal_units="1/4 1/8 1/16 1/10 1/100 1/1000 1/10^4",
              decimal_capacities="25.7 99.9 100.0 100.1 204.9 (the library rescales above 100) 1.29 10.25 50.0 1.024 1.025 0.065 32.25 32.125 16.0625 1.0001 0.1025",
              flavors=flavors, planted="exact fills, zero weights, zero values, item = capacity, item = capacity + 1, ties; 25% also minimize; tuples")
    # ---- bin packing ladder
    ms = (10, 11, 12, 33, 65, 129, 140, 260, 520, 600, 1030) if q else (10, 11, 12, 33, 65, 129, 140, 260, 520, 600, 1000, 1030, 2050, 4100)
    bl = []
    fams = ["perfect", "triples", "pairs", "many-pieces", "near"]
    orders = ["shuffled", "ascending", "descending", "classes"]
    for m in ms:
        for fam in fams:
            for order in (rng.sample(orders, 2) if q else orders):
                if m > 1100 and fam == "many-pieces":
                    continue
                den = rng.choice([1, 1, 1, 10, 100, 1000, 4])
                cu = rng.choice([rng.randint(20, 100), 100, 127, 128, 129, 1000, 1024, den, 3 * den, 7 * den // 10])
                bl.append((rng.getrandbits(48), m, max(cu, 13), fam, den, den == 1 and rng.random() < 0.2, order))
    tasks += [("t_bl",) + t for t in bl]
    ctx.scope("size ladder: bin packing (planted packings, 4 algorithms each; optimum certified by volume / big-item bound + checked packing)",
              instances=len(bl), planted_bins=list(ms), items="about 2..7 per bin (up to ~12 000)", families=fams, orders=orders,
              unit="1, 1/4, 1/10, 1/100, 1/1000")
    # ---- fine numerics
    nf_b, nf_k = (3000, 6000) if q else (60000, 120000)
    tasks += [("t_b_fine", rng.getrandbits(48), nf_b // 32) for _ in range(32)]
    tasks += [("t_k_fine", rng.getrandbits(48), nf_k // 32) for _ in range(32)]
    ctx.scope("fine-grained numerics", bin_packing_instances=nf_b, knapsack_instances=nf_k,
              grids="1/2^k for k in " + str(list(DYADIC)) + "; decimals down to 1/10^6 (bin packing)",
              bin_packing="pairs one unit around 1/2, triples around 1/3, cuts at coarse positions +-1 unit, exact fills of 8..40 pieces",
              knapsack="exact fills, fills over by 1..3 units, ties between two exact fills, 1..4 weights far below the scaled-DP resolution next to a tight fit")
    return tasks


def plan_history(ctx, rng):
    q = ctx.quick
    plan = [("bin", "small", 1600 if q else 30000), ("bin", "big", 320 if q else 4000), ("bin", "huge", 0 if q else 160),
            ("knap", "small", 1600 if q else 30000), ("knap", "big", 192 if q else 3000)]
    tasks = []
    for fn, scale, cnt in plan:
        if cnt:
            chunks = 32 if cnt >= 320 else 16
            tasks += [(rng.getrandbits(48), cnt // chunks, fn, scale) for _ in range(chunks)]
    ctx.scope("history mode (each program in one fresh process; every call judged on the contents at that call; last call + one more "
              "repeated as isolated calls in fresh processes)", programs={f"{fn}/{scale}": cnt for fn, scale, cnt in plan},
              bin_patterns="perm (reverse/sort/rotate/permute/swap in place), repeat, capacity (c, c', c), values (move units inside a planted "
                           "bin, append, pop, item/slice assignment), algos, idreuse (del + new list/tuple of the same length), mixed",
              knap_patterns="repeat, capacity, weights[i]=.., values[i]=.., same permutation on both lists, append/pop on both, idreuse, "
                            "minimize toggled, one list passed as values and weights",
              small="<= 9 items: exact optimum by enumeration", big="6..140 planted bins / 20..260 items (certified bounds / capacity DP)",
              huge="260, 520 planted bins")
    return tasks

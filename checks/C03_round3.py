"""C03 round 3 - STRUCTURED LPs (same clauses and judges as checks/C03.py, exact oracle oracles/lp_exact.py).

Random, planted and ladder instances never contain a constraint STRUCTURE that makes the numbers inside the tableau grow by
many orders of magnitude while every datum stays small.  This module builds such LPs on purpose; all of them are tiny
(n, m <= ~45), so the exact Fraction simplex (certificate re-validated) gives the truth for every one of them.

Families (each is plain data made from a spec dict; `build(spec)` -> (c, A, b, minimize))
  chain       multiplicative growth chain  x_1 <= b1, x_{k+1} - f x_k <= step (f in 2, 3, 4, 5, 7, 10; growth f^(K-1) = 9 .. 1e12;
              b1, step in {0, 1}), zero, one or two side variables y_t <= cap_t with profit 1, 2, 3 or a small dyadic profit
              (1/16, 1/1024, 1/8192), objective on all chain variables / on the last one only (= one bounded, very long edge) /
              on both ends / on the side variables only, chain weight 1 or 10, optionally a phase-1 row (sum(x) + sum(y) >= 1,
              sum(y) >= 1, x_K + sum(y) >= 1, or sum(x) >= 1 - the last is infeasible when the chain is pinned to 0), optionally
              without the first row (unbounded).  Optimal dual values reach f^K although |data| <= 10.
  klee-minty  cubes of dimension 2..8 in the small-data form (x_1 <= 1, x_{i-1} - q x_i <= 0, x_{i-1} + q x_i <= q; q in 2, 3, 4)
              and in the classic form (2 sum_{j<i} 2^(i-j) x_j + x_i <= 5^i, max sum 2^(d-j) x_j), several objectives
  staircase   multi-period production / stock models (balance rows link consecutive periods, capacity rows), 2..6 periods
  transport   transportation LPs (2..4 sources x 2..5 sinks; balanced = degenerate, surplus, deficit = infeasible)
  assignment  the assignment polytope k x k (k = 2..5) with equalities written as two inequalities, or the <= 1 form (max weight)
  wedge       nested wedges between two nearly parallel rows (-a x + (a+1) y <= ..., x - y <= ...; a = 1..10, 1..4 levels):
              a bounded polyhedron with a long edge and large dual values from small data
Transforms (spec["tf"], applied after the family generator, in this order)
  dual        the LP is replaced by its dual (min b.y, -A'y <= -c): growth by columns instead of rows, every row needs phase 1
  dup         1..3 rows are repeated as scaled copies (factor 2, 3, 10, 1/2; the same bound, or a weaker one)
  perm        rows and columns are permuted (seeded)
Every base instance is run as generated AND with permuted rows / columns; the other transforms on a seeded share.

Tag decided from the INPUT alone: `basis_growth(A)` is the largest product of coefficient ratios along a SIMPLE path of rows each
of which bounds one variable by multiples of others (a row with exactly one positive entry a_ij and negative entries a_ik gives
x_j <= sum (|a_ik| / a_ij) x_k + ..., i.e. arcs k -> j with gain |a_ik| / a_ij; a row with exactly one negative entry gives the
lower-bound arcs the same way).  It is invariant under row / column permutation and row scaling, equals f^(K-1) on a growth
chain and on its dual, and is <= 4^7 on the Klee-Minty cubes.  `tableau_growth(c, A, b) = basis_growth(A) * max(1, max|c|, max|b|)`
is the size the reduced costs / right-hand sides reach inside the tableau once the chain is basic.  An LP with tableau_growth >= 1e5
is 'ill-conditioned by construction': every elimination leaves rounding noise of size growth * 2^-52 * (a few) in cells that are
exactly zero, and that reaches the solver's absolute eps = 1e-10 from growth ~1e5 on.  The unchanged tree itself loses verdicts there
(lowest seen: growth 1.68e5, INFEASIBLE for a feasible dual chain; 1.77e5, UNBOUNDED after pricing in a reduced cost of -1.16e-10;
from 1e9 on the relative pivot tolerance of fix a67c837 discards the legitimate pivot 1 next to -f^(K-1) -> UNBOUNDED; no local
tolerance cures all of it: triage/C03_round3.md), so violations on such inputs are filed under the obligation name + ILL, exactly
like the n+m >= 190 class; everything below 1e5 is judged normally (0 violations of the unchanged tree on 121 000 non-dyadic chain LPs
there).  Below the threshold a reduced-cost ratio of 1e9 inside one objective row (what a relative pricing / restoration tolerance
needs to go wrong) is still reached through a proportionally smaller side cost: chain weight 10, side profit 2^-13, f = 2, K = 14.

Tolerances on this family are relative to the size of the compared quantities (checks/C03.eval_simplex rel=True): solutions reach
1e5 .. 1e12 from data <= 10, and growth * 2^-53 relative error is what double precision delivers.
"""
from __future__ import annotations

import math
import random
from collections import Counter
from fractions import Fraction

ILL_AT = 10 ** 5
ILL = " [ill-conditioned: tableau growth >= 1e5]"


# ================================================================================================ the tag
def basis_growth(A, budget=200000):
    """-> Fraction >= 1: the largest product of gains along a SIMPLE path of bounding arcs (a cycle of bounding rows with gain > 1
    pins its variables, it does not amplify).  Exact (Fractions); reads the data only.  Depth-first enumeration with a work
    budget (never reached by the structured family; on a large sparse LP the value found so far is returned, a lower bound)."""
    n = len(A[0]) if A else 0
    out = [dict() for _ in range(n)]  # out[u][v] = largest gain of an arc u -> v
    for row in A:
        pos = [j for j, v in enumerate(row) if v > 0]
        neg = [j for j, v in enumerate(row) if v < 0]
        if len(pos) == 1 and neg:
            j = pos[0]
            for k in neg:  # x_j <= gain * x_k + ...
                g = Fraction(-row[k]) / Fraction(row[j])
                if g > out[k].get(j, 0):
                    out[k][j] = g
        if len(neg) == 1 and pos:
            k = neg[0]
            for j in pos:  # x_k >= gain * x_j - ...
                g = Fraction(row[j]) / Fraction(-row[k])
                if g > out[j].get(k, 0):
                    out[j][k] = g
    best = Fraction(1)
    work = 0
    for s in range(n):
        if not out[s]:
            continue
        stack = [(s, Fraction(1), frozenset((s,)))]
        while stack and work < budget:
            u, p, seen = stack.pop()
            work += 1
            if p > best:
                best = p
            for v, g in out[u].items():
                if v not in seen:
                    stack.append((v, p * g, seen | {v}))
    return best


def tableau_growth(c, A, b):
    """basis_growth(A) * max(1, max|c_j|, max|b_i|): the size the reduced costs / right-hand sides reach inside the tableau when the
    chain is pivoted in (the growth multiplies the costs and the right-hand sides it is applied to)."""
    return basis_growth(A) * max([Fraction(1)] + [abs(Fraction(v)) for v in c] + [abs(Fraction(v)) for v in b])


def cond_tag(c, A, b):
    return ILL if tableau_growth(c, A, b) >= ILL_AT else ""


# ================================================================================================ families
def _num(v):
    v = Fraction(v)
    return int(v) if v.denominator == 1 else float(v)


def chain_lp(K, f, b1, step, sides, obj, wc, req, drop_first=False):
    """Maximise.  Variables x_1..x_K, y_1..y_S; sides = [(profit, cap), ...]."""
    S = len(sides)
    n = K + S
    A, b = [], []
    if not drop_first:
        A.append([1] + [0] * (n - 1))
        b.append(b1)
    for k in range(K - 1):
        row = [0] * n
        row[k + 1], row[k] = 1, -f
        A.append(row)
        b.append(step)
    for t, (_, cap) in enumerate(sides):
        row = [0] * n
        row[K + t] = 1
        A.append(row)
        b.append(cap)
    if req == "all":
        A.append([-1] * n)
        b.append(-1)
    elif req == "side" and S:
        A.append([0] * K + [-1] * S)
        b.append(-1)
    elif req == "last":
        A.append([0] * (K - 1) + [-1] * (1 + S))
        b.append(-1)
    elif req == "chain":
        A.append([-1] * K + [0] * S)
        b.append(-1)
    cx = {"all": [wc] * K, "last": [0] * (K - 1) + [wc], "ends": [wc] + [0] * (K - 2) + [wc], "side": [0] * K}[obj]
    c = cx + [_num(p) for p, _ in sides]
    return c, A, b


def klee_minty_small(d, q, obj):
    A, b = [[1] + [0] * (d - 1)], [1]
    for i in range(1, d):
        lo = [0] * d
        lo[i - 1], lo[i] = 1, -q
        hi = [0] * d
        hi[i - 1], hi[i] = 1, q
        A += [lo, hi]
        b += [0, q]
    c = {"last": [0] * (d - 1) + [1], "sum": [1] * d, "alt": [(-1) ** (d - 1 - j) for j in range(d)],
         "neg-last": [0] * (d - 1) + [-1], "first": [1] + [0] * (d - 1)}[obj]
    return c, A, b


def klee_minty_classic(d, obj):
    A, b = [], []
    for i in range(1, d + 1):
        A.append([2 * 2 ** (i - j) if j < i else 1 if j == i else 0 for j in range(1, d + 1)])
        b.append(5 ** i)
    c = {"classic": [2 ** (d - j) for j in range(1, d + 1)], "last": [0] * (d - 1) + [1], "sum": [1] * d}[obj]
    return c, A, b


def staircase_lp(rng, T):
    """min production + holding cost; x_t produce (cap), s_t stock after period t; balance as '=' (two rows) or '>=' (one)."""
    n = 2 * T
    A, b, c = [], [], []
    eq = rng.random() < 0.6
    dem = [rng.randint(0, 6) for _ in range(T)]
    cap = [rng.randint(2, 8) for _ in range(T)]
    if rng.random() < 0.25:  # make it tight / infeasible somewhere
        t = rng.randrange(T)
        dem[t] += rng.choice((3, 6, 9))
    s0 = rng.choice((0, 0, 1, 3))
    for t in range(T):
        row = [0] * n  # s_{t-1} + x_t - s_t >= d_t   ->   -s_{t-1} - x_t + s_t <= -d_t
        row[t] = -1
        row[T + t] = 1
        if t:
            row[T + t - 1] = -1
        rhs = -(dem[t] - (s0 if t == 0 else 0))
        A.append(row)
        b.append(rhs)
        if eq:
            A.append([-v for v in row])
            b.append(-rhs)
    for t in range(T):
        row = [0] * n
        row[t] = 1
        A.append(row)
        b.append(cap[t])
    if rng.random() < 0.5:  # stock limit
        L = rng.randint(1, 6)
        for t in range(T):
            row = [0] * n
            row[T + t] = 1
            A.append(row)
            b.append(L)
    c = [rng.randint(1, 9) for _ in range(T)] + [rng.choice((0, 1, 1, 2)) for _ in range(T)]
    return [-v for v in c], A, b  # as a maximisation of -cost


def transport_lp(rng, S, D):
    sup = [rng.randint(1, 9) for _ in range(S)]
    dem = [rng.randint(1, 6) for _ in range(D)]
    mode = rng.choice(("balanced", "balanced", "surplus", "deficit"))
    if mode == "balanced":  # adjust the last supply (or demand) so that totals agree: every basic solution is degenerate
        diff = sum(dem) - sum(sup)
        if diff >= 0:
            sup[-1] += diff
        else:
            dem[-1] -= diff
    elif mode == "surplus":
        sup[0] += max(0, sum(dem) - sum(sup)) + rng.randint(1, 4)
    else:
        dem[0] += max(0, sum(sup) - sum(dem)) + rng.randint(1, 3)
    n = S * D
    A, b = [], []
    for i in range(S):
        row = [0] * n
        for j in range(D):
            row[i * D + j] = 1
        A.append(row)
        b.append(sup[i])
    for j in range(D):
        row = [0] * n
        for i in range(S):
            row[i * D + j] = -1
        A.append(row)
        b.append(-dem[j])
    cost = [rng.randint(1, 9) for _ in range(n)]
    if rng.random() < 0.3:  # many equal costs: ties in the pricing, many optimal bases
        cost = [rng.choice((1, 2)) for _ in range(n)]
    return [-v for v in cost], A, b


def assignment_lp(rng, k, form):
    n = k * k
    w = [rng.randint(0, 9) for _ in range(n)]
    A, b = [], []
    for i in range(k):
        row = [0] * n
        for j in range(k):
            row[i * k + j] = 1
        col = [0] * n
        for j in range(k):
            col[j * k + i] = 1
        for r in (row, col):
            A.append(r)
            b.append(1)
            if form == "eq":
                A.append([-v for v in r])
                b.append(-1)
    if form == "eq":
        return [-v for v in w], A, b  # min cost perfect assignment, as max of -w
    return w, A, b  # max weight, rows / columns used at most once


def wedge_lp(a, levels, obj, off):
    """variables (x_l, y_l), l = 1..levels; level l lives between two nearly parallel lines whose offsets are y_{l-1} (y_0 = off)."""
    n = 2 * levels
    A, b = [], []
    for l in range(levels):
        r1 = [0] * n  # -a x + (a+1) y <= (a+1) * prev
        r1[2 * l], r1[2 * l + 1] = -a, a + 1
        r2 = [0] * n  # x - y <= prev
        r2[2 * l], r2[2 * l + 1] = 1, -1
        if l == 0:
            A += [r1, r2]
            b += [(a + 1) * off, off]
        else:
            r1[2 * l - 1] = -(a + 1)
            r2[2 * l - 1] = -1
            A += [r1, r2]
            b += [0, 0]
    c = {"last-y": [0] * (n - 1) + [1], "sum": [1] * n, "last-x": [0] * (n - 2) + [1, 0]}[obj]
    return c, A, b


# ------------------------------------------------------------------------------------------------ transforms
def to_dual(c, A, b):
    """max c.x, A x <= b, x >= 0   ->   min b.y, -A'y <= -c, y >= 0 (returned as (c', A', b', minimize=True))."""
    m, n = len(b), len(c)
    return list(b), [[-A[i][j] for i in range(m)] for j in range(n)], [-v for v in c], True


def dup_rows(rng, A, b):
    A, b = [list(r) for r in A], list(b)
    m0 = len(b)
    for _ in range(rng.randint(1, 3)):
        i = rng.randrange(m0)  # copies of original rows only: the data stay <= 10 * the family's
        k = rng.choice((2, 3, 10, Fraction(1, 2), 1))
        weaker = rng.choice((0, 0, 1))
        A.append([_num(Fraction(v) * k) for v in A[i]])
        b.append(_num((Fraction(b[i]) + weaker) * k))
    return A, b


def permute(rng, c, A, b):
    m, n = len(b), len(c)
    rp, cp = list(range(m)), list(range(n))
    rng.shuffle(rp)
    rng.shuffle(cp)
    return [c[j] for j in cp], [[A[i][j] for j in cp] for i in rp], [b[i] for i in rp]


def build(sp):
    """spec -> (c, A, b, minimize).  Deterministic: everything random comes from random.Random(sp['seed'])."""
    fam = sp["fam"]
    rng = random.Random(sp.get("seed", "0"))
    if fam == "chain":
        c, A, b = chain_lp(sp["K"], sp["f"], sp["b1"], sp["step"], [(Fraction(p), cap) for p, cap in sp["sides"]], sp["obj"], sp["wc"],
                           sp["req"], sp.get("drop_first", False))
    elif fam == "km-small":
        c, A, b = klee_minty_small(sp["d"], sp["q"], sp["obj"])
    elif fam == "km-classic":
        c, A, b = klee_minty_classic(sp["d"], sp["obj"])
    elif fam == "staircase":
        c, A, b = staircase_lp(rng, sp["T"])
    elif fam == "transport":
        c, A, b = transport_lp(rng, sp["S"], sp["D"])
    elif fam == "assignment":
        c, A, b = assignment_lp(rng, sp["k"], sp["form"])
    elif fam == "wedge":
        c, A, b = wedge_lp(sp["a"], sp["levels"], sp["obj"], sp["off"])
    else:
        raise ValueError(fam)
    mn = False
    tf = sp.get("tf", ())
    trng = random.Random(f"{sp.get('seed', '0')}/tf/{sp.get('tfseed', 0)}")
    if "dual" in tf:
        c, A, b, mn = to_dual(c, A, b)
    if "dup" in tf:
        A, b = dup_rows(trng, A, b)
    if "perm" in tf:
        c, A, b = permute(trng, c, A, b)
    if sp.get("as_min") and not mn:  # the same LP stated as a minimisation of -c
        c, mn = [-v for v in c], True
    elif sp.get("as_min") and mn:  # a dual stated as a maximisation
        c, mn = [-v for v in c], False
    return c, A, b, mn


# ------------------------------------------------------------------------------------------------ the instance list
CHAIN_K = {2: (5, 9, 12, 14, 15, 16, 17, 18, 19, 21, 24, 27, 28, 31, 32, 34, 41), 3: (4, 6, 8, 9, 10, 11, 12, 13, 15, 17, 18, 21, 24, 26),
           4: (3, 5, 6, 7, 8, 9, 10, 12, 14, 15, 17, 20, 21), 5: (3, 5, 7, 8, 9, 12), 7: (3, 5, 6, 7, 10),
           10: (2, 3, 4, 5, 6, 7, 8, 9, 10, 11, 12, 13)}
SIDES = ([], [[1, 1]], [[2, 1], [1, 3]], [[3, 2]], [["1/16", 2]], [["1/1024", 1]], [["1/8192", 3]], [["1/8192", 1], [1, 1]], [["1/1024", 1], ["1/16", 3]])
OBJS = ("all", "last", "ends", "side")
REQS = (None, "all", "side", "last", "chain")


def _chain_grid():
    out = []
    for f, Ks in CHAIN_K.items():
        for K in Ks:
            for b1 in (0, 1):
                for step in (0, 1):
                    for si, sides in enumerate(SIDES):
                        for obj in OBJS:
                            if obj == "side" and not sides:
                                continue
                            for wc in (1, 10):
                                if obj == "side" and wc == 10:
                                    continue
                                for req in REQS:
                                    if req == "side" and not sides:
                                        continue
                                    out.append({"fam": "chain", "f": f, "K": K, "b1": b1, "step": step, "sides": sides, "obj": obj,
                                                "wc": wc, "req": req})
    return out


def chain_growth(sp):
    """tableau_growth of the chain as generated (before transforms), from the parameters; only used to steer the sampling."""
    cmax = max([sp["wc"] if sp["obj"] != "side" else 0] + [Fraction(p) for p, _ in sp["sides"]])
    bmax = max([sp["b1"], sp["step"], 1 if sp["req"] else 0] + [cap for _, cap in sp["sides"]])
    return sp["f"] ** (sp["K"] - 1) * max(1, cmax, bmax)


def struct_specs(seed, quick):
    """The list of specs of one run.  Base instances (deterministic grids + seeded draws) x {as generated, permuted} + a seeded
    share of the other transforms."""
    rng = random.Random(f"{seed}/struct")
    base = []
    grid = _chain_grid()
    # the part of the grid below the tag threshold carries the verdict; above it only the recorded class is re-observed
    lo = [g for g in grid if chain_growth(g) < ILL_AT]
    hi = [g for g in grid if chain_growth(g) >= ILL_AT]
    mid = [g for g in lo if chain_growth(g) >= 1000]
    if quick:
        pick = rng.sample(mid, 260) + rng.sample(lo, 60) + rng.sample([g for g in hi if g["K"] <= 13], 30) + \
            rng.sample([g for g in hi if g["K"] > 13], 8)
    else:
        pick = lo + rng.sample(hi, 2500)
    # a fixed core: the last rungs below the threshold of every factor x every objective x phase-1 row x b1, with a small dyadic side
    # profit - the corner where reduced costs of very different size meet in one objective row
    for f, K in ((10, 4), (7, 5), (5, 6), (4, 8), (3, 9), (2, 14), (2, 17), (4, 9), (3, 11)):
        for obj in OBJS:
            for req in (None, "all", "last"):
                for b1 in (0, 1):
                    for sides in ([["1/8192", 3]], [["1/8192", 1], [1, 1]])[: 2 - b1]:
                        wc = 10 if obj != "side" and f ** (K - 1) * 10 < ILL_AT else 1
                        g = {"fam": "chain", "f": f, "K": K, "b1": b1, "step": 0, "sides": sides, "obj": obj, "wc": wc, "req": req}
                        if chain_growth(g) < ILL_AT:
                            pick.append(g)
    base += pick
    for g in rng.sample(grid, 30 if quick else 1500):
        base.append(dict(g, drop_first=True))  # unbounded (or still bounded through the remaining rows): the oracle decides
    for d in range(2, 9):
        for q in (2, 3, 4):
            for obj in ("last", "sum", "alt", "neg-last", "first"):
                base.append({"fam": "km-small", "d": d, "q": q, "obj": obj})
        for obj in ("classic", "last", "sum"):
            base.append({"fam": "km-classic", "d": d, "obj": obj})
    for a in range(1, 11):
        for levels in (1, 2, 3, 4):
            for obj in ("last-y", "sum", "last-x"):
                for off in (1, 0):
                    if quick and (a + levels + off) % 2:
                        continue
                    base.append({"fam": "wedge", "a": a, "levels": levels, "obj": obj, "off": off})
    reps = 1 if quick else 12
    for r in range(reps):
        for T in (2, 3, 4, 5, 6):
            for k in range(6):
                base.append({"fam": "staircase", "T": T, "seed": f"{seed}/stair/{T}/{k}/{r}"})
        for S in (2, 3, 4):
            for D in (2, 3, 4, 5):
                for k in range(3):
                    base.append({"fam": "transport", "S": S, "D": D, "seed": f"{seed}/transp/{S}x{D}/{k}/{r}"})
        for kk in (2, 3, 4, 5):
            for form in ("eq", "le"):
                for k in range(3):
                    base.append({"fam": "assignment", "k": kk, "form": form, "seed": f"{seed}/assign/{kk}/{form}/{k}/{r}"})
    specs = []
    for i, sp in enumerate(base):
        sp = dict(sp)
        sp.setdefault("seed", f"{seed}/struct/{i}")
        specs.append(sp)
        specs.append(dict(sp, tf=["perm"]))
        r = rng.random()
        if r < 0.25:
            specs.append(dict(sp, tf=["dual"] + (["perm"] if rng.random() < 0.5 else [])))
        elif r < 0.45:
            specs.append(dict(sp, tf=["dup"] + (["perm"] if rng.random() < 0.5 else [])))
        elif r < 0.6:
            specs.append(dict(sp, as_min=True, tf=["perm"] if rng.random() < 0.5 else []))
        elif r < 0.65:
            specs.append(dict(sp, tf=["dual", "dup", "perm"], tfseed=1))
    return specs


def spec_cost(sp):
    """rough CPU-s of one instance (exact oracle ~ (n+m)^3 Fraction operations with growing numerators)."""
    if sp["fam"] == "chain":
        t = 2 * sp["K"] + 4
    elif sp["fam"] in ("km-small", "km-classic"):
        t = 3 * sp["d"]
    elif sp["fam"] == "transport":
        t = sp["S"] * sp["D"] + sp["S"] + sp["D"]
    elif sp["fam"] == "assignment":
        t = sp["k"] ** 2 + 4 * sp["k"]
    elif sp["fam"] == "staircase":
        t = 6 * sp["T"]
    else:
        t = 4 * sp["levels"]
    return 0.002 + (t / 40.0) ** 3 * 0.025


# ================================================================================================ worker
def run_struct(sp):
    """-> (violations, Counter, nontrivial key or None, n_eval) like the other families of checks/C03.py."""
    from checks import C03
    c, A, b, mn = build(sp)
    n, m = len(c), len(b)
    res = C03.oracle(c, A, b, mn)
    g = tableau_growth(c, A, b)
    tag = C03.shape_tag(n, m) + (ILL if g >= ILL_AT else "")
    fam = sp["fam"]
    cnt = Counter()
    viol = []
    cnt[f"feature:structured:family:{fam}"] += 1
    cnt[f"feature:structured:truth:{res['status']}"] += 1
    for t in sp.get("tf", ()):
        cnt[f"feature:structured:transform:{t}"] += 1
    if sp.get("as_min"):
        cnt["feature:structured:transform:sense-flipped"] += 1
    if any(v < 0 for v in b):
        cnt["feature:structured:neg-rhs/phase1"] += 1
    band = "growth>=1e5 (tagged)" if g >= ILL_AT else "growth 1e3..1e5" if g >= 1000 else "growth<1e3"
    cnt[f"feature:structured:{band}"] += 1
    if res["status"] == "optimal":
        big = max([abs(v) for v in res["certificate"]["y"]] + [Fraction(0)])
        data = max([abs(Fraction(v)) for v in c] + [abs(Fraction(v)) for v in b] + [abs(Fraction(v)) for r in A for v in r])
        if big >= 1000 * max(data, 1):
            cnt["feature:structured:optimal-dual>=1000*max|data|"] += 1
            if not tag:
                cnt["feature:structured:untagged:dual>=1000*max|data|"] += 1
    nzc = [abs(Fraction(v)) for v in c if v]
    if not tag and nzc and max(nzc) >= 1000 * min(nzc):
        cnt["feature:structured:untagged:cost-ratio>=1000"] += 1

    def case(fn):
        return {"fn": fn, "family": "structured", "gen": sp, "c": c, "A": A, "b": b, "minimize": mn, "opts": {}, "rel": True, "oracle": C03.cert_to_json(res)}

    n_eval = 1
    out, hit = C03.guarded(C03.cpu_budget(n, m), C03.eval_simplex, c, A, b, mn, {}, res, True)
    if hit:
        cnt[f"structured:solve_lp:{fam}:{res['status']}->CPU-BUDGET"] += 1
        cnt["cpu_budget_excused"] += 1
    else:
        bad, st = out
        cnt[f"structured:solve_lp:{fam}{' (tagged)' if tag else ''}:{res['status']}->{st}"] += 1
        for ob, det in bad:
            viol.append((ob + tag, case("solve_lp"), C03._short(f"[structured {fam} {n}x{m} growth={float(g):.3g} {sp}] " + det, 1600)))
    nt = C03._digest(c, A, b, mn) if C03._nontrivial(c, b, mn) else None
    return viol, cnt, nt, n_eval

"""C10 - Hungarian assignment is a matching of optimal total cost (bounded back end).

Contract, taken from the property statement, evaluated on the real `solvor.hungarian.solve_hungarian` and
`solvor.utils.helpers.assignment_cost` in exact arithmetic:

  solve_hungarian(M, minimize=b) returns a Result whose
    solution  is a list with one entry per row, each -1 or a column index             ensures:assignment-shape
    exactly min(rows, cols) entries are != -1                                          ensures:pair-count
    no column index occurs twice                                                        ensures:columns-distinct
    objective == sum of M[i][solution[i]] over the assigned rows (exactly)              ensures:objective-is-sum
    that sum == min (b) / max (not b) over ALL matchings of M (exact oracle)            ensures:optimal-min / -max
    and the call comes back without an exception                                        ensures:returns
  assignment_cost(M, a) == sum of M[i][a[i]] over the in-range entries of a            assignment_cost/ensures:*

The answer to a call must not depend on earlier calls.  Therefore every unit of work is a *stream*: a list of
calls that is executed in order inside ONE freshly forked process whose solvor modules have never been used, and
every answer of the stream is checked.  Streams mix shapes that share the same padded size max(rows, cols),
alternate minimise / maximise, repeat matrices, reuse one caller-side buffer object, and walk through many sizes.
A violation is shrunk (call alone -> one predecessor + call -> whole prefix), each candidate again in a fresh
process, so that the recorded case replays deterministically.

Beyond the small scope (round 2):
  * size ladder - matrices with max(rows, cols) in 31..34, 63..66, 127..140, 255..260, 511..530, 600, 1000+ (square, nearly
    square, strongly rectangular; min and max).  The verdict comes from oracles.assignment.optimum_certified: the exact
    optimum of the side asked for, proven by an LP-duality certificate (integers) that is usually derived from the returned
    matching itself (no negative cycle in its exchange graph) and otherwise from an independent search; planted-optimum
    matrices (u[i] + v[j] + slack, slack 0 on a hidden permutation) are part of the ladder families;
  * one-object histories - ONE list-of-lists object handed to every call of a stream and edited in place between calls
    (cells, rows/columns appended or removed, rows/columns relabelled), every answer judged for the matrix as it is then;
    ladder-size histories that keep max(rows, cols) fixed while the shape changes;
  * fine-grained values - integer + k*2^-36, k*2^-40, gaps of 2^-29/2^-30/2^-31 around 1e-9, exhaustively on 2x2..3x3
    and in every random / history stream, judged exactly (integers scaled by the common power-of-two denominator,
    which is Fraction arithmetic without the gcd).

Elongated shapes (round 3):
  * shape family - EVERY shape r x c with min(r, c) in 1..4 and max(r, c) in 5..40, both orientations, several calls per
    shape, plus random shapes with a short side of 1..6 and a long side of 41..200.  Value families made for a short side
    that has many more lines to choose from than it needs: few distinct values (ties everywhere), wide ranges, "hot" lines
    that every line of the short side prefers, one common ranking, and planted cascades (A and B want the same line, the
    loser's second choice is C's first choice, whose second choice is D's first choice ...); min and max.  The optimum comes
    from oracles.assignment.minmax_dp_short (subset DP over the SHORT side: exact and cheap whatever the long side).
"""
from __future__ import annotations

import hashlib
import itertools
import math
import os
import pickle
import random
import signal
import traceback

from vf.core import Ctx, use_repo

LEVEL = "exploration"
PID = "C10"
CALL_TIMEOUT_S = 20  # CPU seconds of the calling process for one call up to 30x30; see call_budget
LADDER_FROM = 31  # max(rows, cols) from which the one-sided certified oracle decides instead of minmax()
BIG_CASE_CELLS = 40000  # violations on larger matrices are recorded as (generator, seed, index) instead of the literal matrix

V5 = [-2, -1, 0, 1, 2]
V3 = [-1, 0, 1]
VB = [0, 1]
VQ = [0, 1, 3]
VD = [-1.5, -0.25, 0.25, 0.5, 2.5]  # dyadic rationals, disjoint from V5
VD4 = [-1.5, -0.25, 0.5, 2.5]
VP = [-1, 0, 2]
# fine-grained value sets (exhaustive small shapes): gaps of 2^-36 / 2^-35 next to 1 and 2; a 2^-40 grid; gaps around 1e-9
VF5 = [1, 1 - 2.0 ** -36, 1 + 2.0 ** -36, 1 + 2.0 ** -35, 2]
VF3 = [1, 1 + 2.0 ** -36, 2]
VF4 = [1, 1 + 2.0 ** -36, 1 + 2.0 ** -35, 2]
VT3 = [0.0, 2.0 ** -40, 3 * 2.0 ** -40]
VT4 = [100 * 2.0 ** -40, 700 * 2.0 ** -40, 800 * 2.0 ** -40, 900 * 2.0 ** -40]
VE3 = [0.0, 2.0 ** -30, 2.0 ** -29]

O_RET = "C10/solve_hungarian/ensures:returns"
O_SHAPE = "C10/solve_hungarian/ensures:assignment-shape"
O_COUNT = "C10/solve_hungarian/ensures:pair-count"
O_DIST = "C10/solve_hungarian/ensures:columns-distinct"
O_OBJ = "C10/solve_hungarian/ensures:objective-is-sum"
O_MIN = "C10/solve_hungarian/ensures:optimal-min"
O_MAX = "C10/solve_hungarian/ensures:optimal-max"
O_EMPTY = "C10/solve_hungarian/ensures:empty-matrix"
O_AC_SOL = "C10/assignment_cost/ensures:sum-of-chosen"
O_AC_ANY = "C10/assignment_cost/ensures:sum-of-in-range"


class _Timeout(Exception):
    pass


def _on_alarm(signum, frame):
    raise _Timeout()


def call_budget(n):
    """CPU-time allowance of one call: 20 s, plus 1 s per million cells*size for the O(n^3) ladder sizes (the unchanged
    algorithm needs about a tenth of that).  CPU time, not wall time: a loaded machine must not look like a hang."""
    return CALL_TIMEOUT_S + (n ** 3) // 1000000


# ====================================================================== contract
def _is_index(x):
    return isinstance(x, int) and not isinstance(x, bool)


def evaluate_solve(K, den, mode, res, lo, hi, bound=None):
    """Contract of one solve_hungarian call. K/den: exact matrix; res: the Result. -> [(obligation, detail)], chosen
    lo/hi: exact minimum/maximum over all matchings; for ladder sizes both are None and bound(sense, solution)
    supplies the proven optimum of the one side that was asked for."""
    from oracles.assignment import exact_number
    rows, cols = len(K), len(K[0])
    bad = []
    sol = getattr(res, "solution", None)
    if not isinstance(sol, (list, tuple)) or len(sol) != rows or not all(_is_index(x) for x in sol):
        return [(O_SHAPE, f"solution {sol!r} is not a list of {rows} ints")], None
    if any(not (x == -1 or 0 <= x < cols) for x in sol):
        return [(O_SHAPE, f"solution {list(sol)} has an entry outside {{-1}} u [0,{cols})")], None
    used = [x for x in sol if x != -1]
    valid = True
    if len(used) != min(rows, cols):
        bad.append((O_COUNT, f"{len(used)} pairs assigned, expected min({rows},{cols}); solution {_sol(sol)}"))
        valid = False
    if len(set(used)) != len(used):
        bad.append((O_DIST, f"a column is used twice: {_sol(sol)}"))
        valid = False
    chosen = sum(K[i][x] for i, x in enumerate(sol) if x != -1)
    obj = exact_number(getattr(res, "objective", None), den)
    if obj is None or obj != chosen:
        bad.append((O_OBJ, f"objective {getattr(res, 'objective', None)!r} but the chosen entries of {_sol(sol)} sum to "
                           f"{_show(chosen, den)}"))
    if valid:
        if bound is not None:
            if mode == "max":
                hi = bound("max", list(sol))
            else:
                lo = bound("min", list(sol))
        if (lo is not None and chosen < lo) or (hi is not None and chosen > hi):
            raise RuntimeError(f"oracle defect: a valid matching with total {chosen} outside [{lo},{hi}] for "
                               f"{K if len(K) <= 8 else str(len(K)) + ' rows'}")
        if mode == "max":
            if chosen != hi:
                bad.append((O_MAX, f"{rows}x{cols}: matching {_sol(sol)} totals {_show(chosen, den)}, the maximum is {_show(hi, den)}"
                                   + (" (proven by an LP-duality certificate)" if bound is not None else "")))
        elif chosen != lo:
            bad.append((O_MIN, f"{rows}x{cols}: matching {_sol(sol)} totals {_show(chosen, den)}, the minimum is {_show(lo, den)}"
                               + (" (proven by an LP-duality certificate)" if bound is not None else "")))
    return bad, chosen


def _sol(sol):
    sol = list(sol)
    return str(sol) if len(sol) <= 40 else f"[{', '.join(map(str, sol[:12]))}, ... {len(sol)} entries]"


def _show(k, den):
    if den == 1:
        return str(k)
    return repr(k / den)


def expected_assignment_cost(K, assignment):
    rows = len(K)
    total = 0
    for i, j in enumerate(assignment):
        if j != -1 and i < rows and 0 <= j < len(K[i]):
            total += K[i][j]
    return total


# ====================================================================== running a stream (in a fresh process)
def _shape_obj(matrix, form):
    if form == "tuple":
        return tuple(tuple(r) for r in matrix)
    if form == "rows-tuple":
        return [tuple(r) for r in matrix]
    return [list(r) for r in matrix]


def _sync(arg, matrix):
    """Make the caller-side object `arg` (a list of row lists that lives as long as the stream) equal to `matrix` by
    editing it in place: rows and cells are appended / removed / overwritten, surviving row objects keep their identity."""
    while len(arg) > len(matrix):
        arg.pop()
    while len(arg) < len(matrix):
        arg.append([])
    for row, src in zip(arg, matrix):
        if len(row) > len(src):
            del row[len(src):]
        for j, x in enumerate(src):
            if j >= len(row):
                row.append(x)
            elif row[j] != x or type(row[j]) is not type(x):
                row[j] = x
    return arg


def _digest(matrix, mode):
    return hashlib.sha1(repr((matrix, mode)).encode()).hexdigest()[:16]


def _in_exhaustive(matrix, exh_spaces):
    key = (len(matrix), len(matrix[0]))
    for vals in exh_spaces.get(key, ()):  # vals: frozenset; membership is numeric (1.0 counts as 1)
        if all(x in vals for row in matrix for x in row):
            return True
    return False


def expand(spec):
    """A "gen" stream is stored as (maker, seed, args) and expanded, deterministically, where it is run - the parent
    processes stay small, which keeps fork cheap."""
    if spec["kind"] != "gen":
        return spec
    rng = random.Random(spec["seed"])
    out = MAKERS[spec["maker"]](rng, *spec["args"])
    out["exh_spaces"] = spec.get("exh_spaces", [])
    for k in ("upto", "only"):
        if k in spec:
            out[k] = spec[k]
    return out


def _iter_ops(spec):
    """Yield the ops of a stream.  op = ["solve", matrix, mode, form] | ["ac", matrix, assignment]."""
    kind = spec["kind"]
    if kind == "list":
        yield from spec["ops"]
    elif kind == "exh":
        rows, cols, vals = spec["rows"], spec["cols"], spec["vals"]
        cells, base = rows * cols, len(vals)
        idx = spec["start"]
        digits = []
        t = idx
        for _ in range(cells):
            digits.append(t % base)
            t //= base
        while idx < spec["stop"]:
            flat = [vals[d] for d in digits]
            matrix = [flat[i * cols:(i + 1) * cols] for i in range(rows)]
            for mode in spec["modes"]:
                yield ["solve", matrix, mode, "list"]
            idx += 1
            p = 0
            while p < cells:
                digits[p] += 1
                if digits[p] < base:
                    break
                digits[p] = 0
                p += 1
    elif kind == "ac_exh":
        rows, cols, vals = spec["rows"], spec["cols"], spec["vals"]
        entries = list(range(-2, cols + 2))
        for flat in itertools.product(vals, repeat=rows * cols):
            matrix = [list(flat[i * cols:(i + 1) * cols]) for i in range(rows)]
            for ln in range(0, rows + 2):
                for a in itertools.product(entries, repeat=ln):
                    yield ["ac", matrix, list(a)]
    else:
        raise ValueError(kind)


def materialize(spec, upto):
    """The first `upto` ops of a stream as an explicit list."""
    return [op for op in itertools.islice(_iter_ops(spec), upto)]


def run_stream(spec):
    """Execute every op of the stream in order in THIS process and check each answer.

    Returns {"n": evaluations, "bulk": distinct non-trivial cases counted by construction (exhaustive streams),
             "keys": digests of non-trivial cases (list streams), "viol": [(op_index, obligation, detail)], "sample": op}
    """
    from oracles.assignment import SHORT_DP_MAX, choice_matters, exact_scale, minmax, optimum_certified
    from solvor.hungarian import solve_hungarian
    from solvor.utils.helpers import assignment_cost

    spec = expand(spec)
    shared = spec.get("shared") or False  # False | True: one buffer per shape, overwritten | "one": one object, edited
    the_object = []
    exh = spec["kind"] in ("exh", "ac_exh")
    exh_spaces = {tuple(k): [frozenset(v) for v in vs] for k, vs in spec.get("exh_spaces", [])}
    buffers = {}
    out = {"n": 0, "bulk": 0, "keys": set(), "viol": [], "sample": None, "timeouts": 0, "ladder": {}, "by_hint": 0,
           "by_search": 0}
    signal.signal(signal.SIGVTALRM, _on_alarm)
    last_matrix, last_scaled = None, None
    ops_iter = _iter_ops(spec)
    if spec.get("upto") is not None:
        ops_iter = itertools.islice(ops_iter, spec["upto"])
    only = spec.get("only")  # replay of one call of a generated stream as an isolated call
    for idx, op in enumerate(ops_iter):
        if only is not None and idx != only:
            continue
        matrix = op[1]
        if matrix is last_matrix:
            K, den, lo, hi, proven = last_scaled
        else:
            K, den = exact_scale(matrix)
            proven = None
            if K and K[0] and (4 * max(len(K), len(K[0])) + 4) * max(abs(x) for row in K for x in row) >= 2 ** 53:
                # potentials stay within 2n * max|entry|, slacks within (4n+1) * max|entry|, all on the grid 1/den
                raise RuntimeError(f"generator defect: float arithmetic is not guaranteed exact on this matrix (den 2^{den.bit_length() - 1})")
            if not (K and K[0]):
                lo, hi = 0, 0
            elif max(len(K), len(K[0])) >= LADDER_FROM and min(len(K), len(K[0])) > SHORT_DP_MAX:
                lo, hi, proven = None, None, {}  # decided per call, one side, with the answer as a hint
            else:
                lo, hi = minmax(K)
            last_matrix, last_scaled = matrix, (K, den, lo, hi, proven)
        if op[0] == "ac":
            assignment = op[2]
            out["n"] += 1
            try:
                got = assignment_cost(_shape_obj(matrix, "list"), list(assignment))
            except Exception as e:  # noqa
                out["viol"].append((idx, O_AC_ANY, f"raised {type(e).__name__}: {e}"))
                continue
            from oracles.assignment import exact_number
            want = expected_assignment_cost(K, assignment)
            if exact_number(got, den) != want:
                out["viol"].append((idx, O_AC_ANY, f"assignment_cost(.., {assignment}) = {got!r}, sum of in-range entries is "
                                                   f"{_show(want, den)}"))
            if any(j != -1 and i < len(K) and 0 <= j < len(K[0]) for i, j in enumerate(assignment)):
                if exh:
                    out["bulk"] += 1
                elif not _in_exhaustive(matrix, exh_spaces):
                    out["keys"].add(_digest(matrix, assignment))
            continue
        mode, form = op[2], op[3]
        rows = len(matrix)
        cols = len(matrix[0]) if rows else 0
        if shared == "one":
            arg = _sync(the_object, matrix)
        elif shared and rows and cols:
            arg = buffers.get((rows, cols))
            if arg is None:
                arg = buffers[(rows, cols)] = [[0] * cols for _ in range(rows)]
            for i in range(rows):
                arg[i][:] = matrix[i]
        else:
            arg = _shape_obj(matrix, form)
        out["n"] += 1
        budget = call_budget(max(rows, cols))
        signal.setitimer(signal.ITIMER_VIRTUAL, budget)
        try:
            if mode == "default":
                res = solve_hungarian(arg)
            else:
                res = solve_hungarian(arg, minimize=(mode == "min"))
            signal.setitimer(signal.ITIMER_VIRTUAL, 0)
        except _Timeout:
            out["viol"].append((idx, O_RET, f"no result after {budget} s of CPU time"))
            out["timeouts"] += 1
            if out["timeouts"] >= 2:
                break
            continue
        except Exception as e:  # noqa
            signal.setitimer(signal.ITIMER_VIRTUAL, 0)
            out["viol"].append((idx, O_RET, f"raised {type(e).__name__}: {e}"))
            continue
        if rows == 0 or cols == 0:
            sol = getattr(res, "solution", None)
            if not isinstance(sol, (list, tuple)) or any(x != -1 for x in sol) or getattr(res, "objective", None) != 0:
                out["viol"].append((idx, O_EMPTY, f"empty matrix: solution {sol!r}, objective {getattr(res, 'objective', None)!r}"))
            continue
        bound = None
        if proven is not None:
            def bound(sense, sol, K=K, proven=proven):
                if sense not in proven:
                    proven[sense], how = optimum_certified(K, sense, sol)
                    out["by_hint" if how == "hint" else "by_search"] += 1
                return proven[sense]
        bad, chosen = evaluate_solve(K, den, mode, res, lo, hi, bound)
        for o, d in bad:
            out["viol"].append((idx, o, d))
        if chosen is not None:
            from oracles.assignment import exact_number
            out["n"] += 1
            try:
                got = assignment_cost(_shape_obj(matrix, form), res.solution)
                if exact_number(got, den) != chosen:
                    out["viol"].append((idx, O_AC_SOL, f"assignment_cost(M, {list(res.solution)}) = {got!r}, chosen entries sum to "
                                                       f"{_show(chosen, den)}"))
            except Exception as e:  # noqa
                out["viol"].append((idx, O_AC_SOL, f"raised {type(e).__name__}: {e}"))
        if proven is not None:  # ladder sizes
            n = max(rows, cols)
            out["ladder"][n] = out["ladder"].get(n, 0) + 1
            if choice_matters(K):
                out["keys"].add(_digest(matrix, "max" if mode == "max" else "min"))
                if out["sample"] is None and chosen is not None:
                    side = "max" if mode == "max" else "min"
                    out["sample"] = {"shape": [rows, cols], "family": op[4] if len(op) > 4 else None, "mode": mode,
                                     "objective": res.objective, "iterations": getattr(res, "iterations", None),
                                     "proven_" + side: _show(proven[side], den) if side in proven else None}
            continue
        if lo != hi:  # the choice of matching matters
            if exh:
                out["bulk"] += 1
            elif not _in_exhaustive(matrix, exh_spaces):
                out["keys"].add(_digest(matrix, "max" if mode == "max" else "min"))
        if out["sample"] is None and chosen is not None and lo != hi and rows > 1 and cols > 1:
            out["sample"] = {"matrix": matrix, "mode": mode, "solution": list(res.solution), "objective": res.objective,
                             "min": _show(lo, den), "max": _show(hi, den)}
    signal.setitimer(signal.ITIMER_VIRTUAL, 0)
    return out


def in_fresh_process(fn, arg):
    """fn(arg) in a forked child of this process; this process itself never calls the code under test, so the child
    starts with solvor's module state exactly as after import."""
    r, w = os.pipe()
    pid = os.fork()
    if pid == 0:
        code = 0
        try:
            os.close(r)
            try:
                payload = ("ok", fn(arg))
            except BaseException:  # noqa
                payload = ("err", traceback.format_exc()[-2000:])
            with os.fdopen(w, "wb") as f:
                f.write(pickle.dumps(payload))
        except BaseException:  # noqa
            code = 1
        finally:
            os._exit(code)
    os.close(w)
    with os.fdopen(r, "rb") as f:
        data = f.read()
    os.waitpid(pid, 0)
    if not data:
        return ("err", "child process died without an answer")
    return pickle.loads(data)


def _reproduces(spec, last, obligation):
    st, out = in_fresh_process(run_stream, spec)
    return st == "ok" and any(i == last and o == obligation for i, o, _ in out["viol"])


def shrink(spec, idx, obligation, deadline):
    """Smallest history that still violates, each candidate run in a fresh process: the call alone, one earlier call +
    the call, the original stream cut after the call.  -> (case for replay, how it reproduces)"""
    import time
    orig = spec
    spec = expand(spec)
    prefix = materialize(spec, idx + 1)
    shared = spec.get("shared") or False
    target = prefix[-1]
    if _reproduces({"kind": "list", "ops": [target], "shared": shared}, 0, obligation):
        cells = len(target[1]) * len(target[1][0]) if target[1] else 0
        if orig["kind"] == "gen" and cells > BIG_CASE_CELLS:  # keep the replay file small: generator + seed + index
            case = {"spec": {k: v for k, v in orig.items() if k != "exh_spaces"}}
            case["spec"]["only"] = idx
            return case, (f"reproduces as an isolated call in a fresh process; the {len(target[1])}x{len(target[1][0])} matrix is "
                          f"call {idx} of the seeded generator recorded in the case")
        return {"ops": [target], "shared": shared}, "reproduces as an isolated call in a fresh process"
    for j in range(idx - 1, max(-1, idx - 60), -1):
        if time.time() > deadline:
            break
        if _reproduces({"kind": "list", "ops": [prefix[j], target], "shared": shared}, 1, obligation):
            return ({"ops": [prefix[j], target], "shared": shared},
                    "HISTORY-DEPENDENT: correct as an isolated call, wrong after the one earlier call listed first")
    cut = {k: v for k, v in spec.items() if k != "exh_spaces"}
    cut["upto"] = idx + 1
    if _reproduces(cut, idx, obligation):
        case = {"ops": prefix, "shared": shared} if spec["kind"] == "list" else {"spec": cut}
        return case, f"HISTORY-DEPENDENT: correct as an isolated call, wrong as call {idx} of this sequence"
    return ({"ops": prefix, "shared": shared},
            "observed once; NOT reproduced when the same sequence was re-run in a fresh process (non-deterministic behaviour)")


def streams_worker(specs):
    return [stream_worker(s) for s in specs]


def stream_worker(spec):
    """Pool task: run one stream in a fresh child, shrink what it finds. Returns plain data."""
    import solvor.hungarian  # noqa  imported, never called, in this process
    import solvor.utils.helpers  # noqa
    st, out = in_fresh_process(run_stream, spec)
    if st != "ok":
        return {"defect": out}
    import time
    viol = []
    seen = {}
    deadline = time.time() + 1.5  # wall budget for the one-predecessor search of this stream (not part of any verdict)
    for idx, obligation, detail in out["viol"]:
        seen[obligation] = seen.get(obligation, 0) + 1
        if seen[obligation] > 1 or len(viol) >= 3:
            continue
        case, how = shrink(spec, idx, obligation, deadline)
        viol.append((obligation, case, f"{detail} [{how}]"))
    return {"n": out["n"], "bulk": out["bulk"], "keys": sorted(out["keys"]), "viol": viol, "n_viol": len(out["viol"]),
            "sample": out["sample"], "ladder": out["ladder"], "by_hint": out["by_hint"], "by_search": out["by_search"]}


# ====================================================================== generators
def _dy(k, den, as_float=None, rng=None):
    """k/den as an int when integral (unless as_float), else a float (exact: den is a power of two)."""
    if k % den == 0 and not as_float:
        return k // den
    return k / den


FAMILIES = ["small", "binary", "negbinary", "ternary", "const", "additive", "duprows", "dupcols", "neg", "pos", "poslarge",
            "neglarge", "dyadic8", "dyadic1024", "mixedtype", "rowscale", "colscale", "product", "offset", "sparsebig",
            "diagtrap", "widerange", "pos100", "lexi36", "tiny40", "gap", "near1e-9", "planted", "plantedties"]
# fine-grained families: every value is a dyadic rational m * 2^-40 with |m| < 2^45, so are all sums/differences the
# algorithm forms (potentials stay below 2^11 in magnitude up to the ladder sizes used): float arithmetic is exact
FINE = ["lexi36", "tiny40", "gap", "near1e-9"]
P36, P40 = 2.0 ** -36, 2.0 ** -40


def gen_matrix(rng, r, c, fam):
    R = range(r)
    C = range(c)
    if fam == "small":
        return [[rng.randint(-3, 3) for _ in C] for _ in R]
    if fam == "binary":
        return [[rng.randint(0, 1) for _ in C] for _ in R]
    if fam == "negbinary":
        return [[-rng.randint(0, 1) for _ in C] for _ in R]
    if fam == "ternary":
        return [[rng.randint(-1, 1) for _ in C] for _ in R]
    if fam == "const":
        v = rng.choice([0, 1, -1, 5, -7, 0.5, -2.25])
        m = [[v for _ in C] for _ in R]
        for _ in range(rng.randint(0, 2)):
            m[rng.randrange(r)][rng.randrange(c)] = v + rng.choice([-1, 1, 0.5, -0.5])
        return m
    if fam == "additive":  # a_i + b_j: every matching of a square one has the same total
        a = [rng.randint(-5, 5) for _ in R]
        b = [rng.randint(-5, 5) for _ in C]
        m = [[a[i] + b[j] for j in C] for i in R]
        for _ in range(rng.randint(0, 3)):
            m[rng.randrange(r)][rng.randrange(c)] += rng.choice([-2, -1, 1, 2])
        return m
    if fam == "duprows":
        protos = [[rng.randint(-4, 4) for _ in C] for _ in range(rng.randint(1, 2))]
        return [list(rng.choice(protos)) for _ in R]
    if fam == "dupcols":
        protos = [[rng.randint(-4, 4) for _ in R] for _ in range(rng.randint(1, 2))]
        cols = [rng.choice(protos) for _ in C]
        return [[cols[j][i] for j in C] for i in R]
    if fam == "neg":
        return [[rng.randint(-9, -1) for _ in C] for _ in R]
    if fam == "pos":
        return [[rng.randint(1, 9) for _ in C] for _ in R]
    if fam == "poslarge":
        return [[rng.randint(100, 999) for _ in C] for _ in R]
    if fam == "neglarge":
        return [[-rng.randint(100, 999) for _ in C] for _ in R]
    if fam == "dyadic8":
        return [[rng.randint(-24, 24) / 8 for _ in C] for _ in R]
    if fam == "dyadic1024":
        return [[rng.randint(-4096, 4096) / 1024 for _ in C] for _ in R]
    if fam == "mixedtype":
        return [[_dy(rng.randint(-12, 12), 4, as_float=rng.random() < 0.3) for _ in C] for _ in R]
    if fam == "rowscale":  # rows live on very different levels (row maxima differ a lot)
        base = [rng.choice([-300, -40, 0, 7, 60, 500]) for _ in R]
        return [[base[i] + rng.randint(-3, 3) for _ in C] for i in R]
    if fam == "colscale":
        base = [rng.choice([-300, -40, 0, 7, 60, 500]) for _ in C]
        return [[base[j] + rng.randint(-3, 3) for j in C] for _ in R]
    if fam == "product":  # (i+1)*(j+1): long augmenting paths
        s = rng.choice([1, -1])
        pr = list(R)
        pc = list(C)
        rng.shuffle(pr)
        rng.shuffle(pc)
        return [[s * (pr[i] + 1) * (pc[j] + 1) for j in C] for i in R]
    if fam == "offset":
        off = rng.choice([10 ** 6, -10 ** 6, 4096.0, -65536.5])
        return [[off + rng.randint(-4, 4) for _ in C] for _ in R]
    if fam == "sparsebig":
        return [[(rng.choice([-50, 50, 17, -17]) if rng.random() < 0.25 else 0) for _ in C] for _ in R]
    if fam == "diagtrap":  # the greedy row-by-row choice is wrong
        m = [[10 + rng.randint(0, 2) for _ in C] for _ in R]
        for i in R:
            m[i][i % c] = rng.randint(0, 1)
            m[i][(i + 1) % c] = rng.randint(0, 1)
        return m
    if fam == "widerange":
        return [[rng.choice([-1, 1]) * 2.0 ** rng.randint(-6, 18) for _ in C] for _ in R]
    if fam == "pos100":
        return [[rng.randint(1, 100) for _ in C] for _ in R]
    if fam == "lexi36":  # a coarse primary cost, ties broken by a secondary cost 2^-36 times smaller
        top = rng.choice([0, 1, 3])
        return [[rng.randint(0, top) + rng.randint(0, 7) * P36 for _ in C] for _ in R]
    if fam == "tiny40":  # everything lives on a 2^-40 grid (about 1e-12 .. 1e-9)
        return [[rng.randint(0, 1000) * P40 for _ in C] for _ in R]
    if fam == "gap":  # integers (or one constant) disturbed by a few units of 2^-e
        g = 2.0 ** -rng.choice([20, 26, 29, 30, 31, 36, 40])
        span = rng.choice([0, 0, 1, 2])
        return [[rng.randint(-span, span) + rng.choice([-1, 0, 0, 0, 1, 2]) * g for _ in C] for _ in R]
    if fam == "near1e-9":  # gaps just below and just above 1e-9 (2^-30 = 9.3e-10, 2^-29 = 1.9e-9), either sign
        vals = [0.0, 2.0 ** -31, 2.0 ** -30, 2.0 ** -30 + P40, 2.0 ** -29 - P40, 2.0 ** -29, 2.0 ** -28]
        base = rng.choice([0, 0, 1, -5])
        return [[base + rng.choice([1, -1]) * rng.choice(vals) for _ in C] for _ in R]
    if fam in ("planted", "plantedties"):
        # optimum known by construction: u[i] + v[j] + slack, slack == 0 on a hidden matching (LP duality); built for
        # "rows <= cols, minimise" (v <= 0, v == 0 on unused columns), then transposed / negated
        a, b = min(r, c), max(r, c)
        cols = rng.sample(range(b), a)
        u = [rng.randint(-30, 30) for _ in range(a)]
        v = [0] * b
        for j in cols:
            v[j] = -rng.randint(0, 30)
        slack = [0, 0, 1, 2] if fam == "plantedties" else [1, 2, 3, 5, 9]
        m = [[u[i] + v[j] + (0 if cols[i] == j else rng.choice(slack)) for j in range(b)] for i in range(a)]
        if r > c:
            m = [list(col) for col in zip(*m)]
        if rng.random() < 0.5:
            m = [[-x for x in row] for row in m]
        return m
    raise ValueError(fam)


def edit_matrix(rng, m, hi):
    """A copy of m after one small edit of the kind a caller does to a matrix it keeps around."""
    m = [list(row) for row in m]
    r, c = len(m), len(m[0])
    vals = [x for row in m for x in row]
    fine = max(abs(x) for x in vals) <= 8  # 2^-36 steps only where float arithmetic stays exact (see exactness guard)
    k = rng.random()
    if k < 0.35:  # a few cells
        for _ in range(rng.randint(1, 3)):
            i, j = rng.randrange(r), rng.randrange(c)
            x = m[i][j]
            m[i][j] = rng.choice([x + 1, x - 1, x + P36 if fine else x + 2, x - 2.0 ** -30 if fine else x - 2, -x, rng.choice(vals), 0])
    elif k < 0.45 and r > 1:  # relabel rows
        i, j = rng.sample(range(r), 2)
        m[i], m[j] = m[j], m[i]
    elif k < 0.55 and c > 1:  # relabel columns
        i, j = rng.sample(range(c), 2)
        for row in m:
            row[i], row[j] = row[j], row[i]
    elif k < 0.67 and r < hi:  # one more row
        m.insert(rng.randint(0, r), [rng.choice(vals) + rng.choice([0, 0, 1, -1]) for _ in range(c)])
    elif k < 0.79 and c < hi:  # one more column
        at = rng.randint(0, c)
        for row in m:
            row.insert(at, rng.choice(vals) + rng.choice([0, 0, 1, -1]))
    elif k < 0.87 and r > 1:
        del m[rng.randrange(r)]
    elif k < 0.95 and c > 1:
        at = rng.randrange(c)
        for row in m:
            del row[at]
    else:  # the other way round
        m = [list(col) for col in zip(*m)]
    return m


def rand_shape(rng, hi):
    k = rng.random()
    if k < 0.35:
        n = rng.randint(1, hi)
        return n, n
    if k < 0.5:  # a line
        n = rng.randint(1, hi)
        return (1, n) if rng.random() < 0.5 else (n, 1)
    return rng.randint(1, hi), rng.randint(1, hi)


def rand_mode(rng):
    k = rng.random()
    return "min" if k < 0.4 else "max" if k < 0.9 else "default"


def rand_form(rng):
    k = rng.random()
    return "list" if k < 0.8 else "tuple" if k < 0.9 else "rows-tuple"


def rand_assignment(rng, r, c):
    k = rng.random()
    ln = r if k < 0.7 else max(0, r + rng.choice([-1, 1, 2]))
    if rng.random() < 0.5:  # a partial matching with -1
        cols = list(range(c))
        rng.shuffle(cols)
        a = [(cols[i] if i < len(cols) and rng.random() < 0.7 else -1) for i in range(ln)]
    else:  # anything, including repeated and out-of-range columns
        a = [rng.randint(-2, c + 1) for _ in range(ln)]
    return a


def solve_op(rng, r, c, fam=None, mode=None):
    fam = fam or rng.choice(FAMILIES)
    return ["solve", gen_matrix(rng, r, c, fam), mode or rand_mode(rng), rand_form(rng)]


def random_stream(rng, length, hi):
    ops = []
    for _ in range(length):
        r, c = rand_shape(rng, hi)
        op = solve_op(rng, r, c)
        ops.append(op)
        if rng.random() < 0.25:
            ops.append(["ac", op[1], rand_assignment(rng, r, c)])
    return {"kind": "list", "ops": ops, "shared": False}


def big_stream(rng, length, lo, hi):
    ops = []
    for _ in range(length):
        n = rng.randint(lo, hi)
        r, c = (n, n) if rng.random() < 0.4 else (n, rng.randint(max(1, n - 6), n)) if rng.random() < 0.5 else (rng.randint(max(1, n - 6), n), n)
        ops.append(solve_op(rng, r, c, mode=rng.choice(["min", "max"])))
    return {"kind": "list", "ops": ops, "shared": False}


def same_n_shapes(n):
    return [(n, n)] + [(k, n) for k in range(1, n)] + [(n, k) for k in range(1, n)]


LOUD = ["poslarge", "neglarge", "rowscale", "colscale", "sparsebig", "pos", "neg", "offset", "small", "dyadic8"]


def history_stream(rng, pattern, hi):
    """Sequences of calls designed so that state left behind by one call could change a later answer."""
    ops = []
    n = rng.randint(2, hi)
    shapes = same_n_shapes(n)
    rect = shapes[1:]
    if pattern == "stale-padding":  # a full n x n problem, then rectangular ones of the same padded size
        for _ in range(rng.randint(2, 4)):
            ops.append(solve_op(rng, n, n, rng.choice(LOUD), rng.choice(["min", "min", "max", "default"])))
            for _ in range(rng.randint(1, 4)):
                r, c = rng.choice(rect)
                ops.append(solve_op(rng, r, c, rng.choice(LOUD + ["small", "binary", "ternary"]), rng.choice(["min", "min", "default", "max"])))
    elif pattern == "tall-wide":  # k x n after n x k and back
        for _ in range(rng.randint(4, 10)):
            r, c = rng.choice(rect)
            ops.append(solve_op(rng, r, c, rng.choice(LOUD), rng.choice(["min", "max", "default"])))
            ops.append(solve_op(rng, c, r, rng.choice(LOUD), rng.choice(["min", "max", "default"])))
    elif pattern == "same-n":
        for _ in range(rng.randint(8, 24)):
            r, c = rng.choice(shapes)
            ops.append(solve_op(rng, r, c))
    elif pattern == "many-sizes":  # more distinct sizes than a small cache holds, then back to the first ones
        sizes = list(range(1, rng.randint(9, 12)))
        rng.shuffle(sizes)
        for rep in range(2):
            for s in sizes:
                r, c = rng.choice(same_n_shapes(s))
                ops.append(solve_op(rng, r, c, rng.choice(LOUD), rng.choice(["min", "max", "default"])))
    elif pattern == "repeat":  # the same problems again and again between others: the answer may not drift
        pool = []
        for _ in range(3):
            r, c = rng.choice(shapes)
            pool.append((gen_matrix(rng, r, c, rng.choice(FAMILIES)), rand_form(rng)))
        for _ in range(rng.randint(8, 16)):
            m, f = rng.choice(pool)
            ops.append(["solve", m, rng.choice(["min", "max", "default"]), f])
    elif pattern == "flip-mode":  # the same shape alternately maximised and minimised
        r, c = rng.choice(rect)
        for _ in range(rng.randint(3, 8)):
            fam = rng.choice(LOUD)
            ops.append(solve_op(rng, r, c, fam, "max"))
            ops.append(solve_op(rng, r, c, fam, "min"))
            rr, cc = rng.choice(shapes)
            ops.append(solve_op(rng, rr, cc, rng.choice(LOUD), rng.choice(["min", "max"])))
    elif pattern == "edit":  # ONE matrix object, edited in place between the calls (run_stream: shared == "one")
        r, c = rng.choice(shapes)
        m = gen_matrix(rng, r, c, rng.choice(FAMILIES))
        for _ in range(rng.randint(8, 20)):
            ops.append(["solve", m, rng.choice(["min", "max", "default"]), "list"])
            if rng.random() < 0.85:
                m = edit_matrix(rng, m, hi + 1)
    else:
        raise ValueError(pattern)
    for k in range(len(ops) - 1, -1, -1):
        if rng.random() < 0.1:
            m = ops[k][1]
            ops.insert(k + 1, ["ac", m, rand_assignment(rng, len(m), len(m[0]))])
    shared = "one" if pattern == "edit" or rng.random() < 0.1 else rng.random() < 0.3
    return {"kind": "list", "ops": ops, "shared": shared, "pattern": pattern}


LADDER_FAMS = ["pos100", "pos100", "small", "binary", "ternary", "neg", "poslarge", "neglarge", "dyadic8", "rowscale", "colscale",
               "product", "sparsebig", "diagtrap", "planted", "plantedties", "lexi36", "tiny40", "additive", "duprows", "dupcols",
               "offset"]
LADDER_CHEAP = ["poslarge", "neglarge", "tiny40", "dyadic1024"]  # few ties: a 1000 x 1000 call takes seconds, not minutes
LADDER_HEAVY = ["pos100", "planted", "small", "product"]  # many ties / long augmenting paths


def ladder_shape(rng, n, near_square=False):
    k = rng.random()
    if k < 0.4:
        return n, n
    m = max(1, n - rng.choice([1, 2, 3, 5] if near_square else [1, 2, 3, 5, n // 4, n // 2]))
    return (m, n) if rng.random() < 0.5 else (n, m)


def ladder_stream(rng, sizes, modes, fams):
    """For every size n: one fresh matrix per mode with max(rows, cols) == n."""
    ops = []
    for n in sizes:
        order = list(modes)
        rng.shuffle(order)
        for mode in order:
            r, c = ladder_shape(rng, n, near_square=(fams != "all"))  # many all-zero padding lines are many ties, too
            fam = rng.choice({"all": LADDER_FAMS, "cheap": LADDER_CHEAP, "heavy": LADDER_HEAVY}[fams])
            ops.append(["solve", gen_matrix(rng, r, c, fam), mode, "list", fam])
    return {"kind": "list", "ops": ops, "shared": False}


def ladder_history(rng, n):
    """Calls that share the padded size n >= 128 while the shape, the direction and the contents change; in most
    streams through one caller-side object."""
    loud = ["poslarge", "neglarge", "rowscale", "colscale", "pos100", "neg", "offset"]
    k1, k2 = rng.choice([1, 2, 3, n // 3]), rng.choice([1, 2, 5, n // 2])
    a = gen_matrix(rng, n, n, rng.choice(loud))
    ops = [["solve", a, rng.choice(["min", "max"]), "list", "history"],
           ["solve", gen_matrix(rng, n - k1, n, rng.choice(loud + ["small", "lexi36"])), "min", "list", "history"],
           ["solve", gen_matrix(rng, n, n - k2, rng.choice(loud + ["small", "planted"])), rng.choice(["min", "max"]), "list", "history"],
           ["solve", a, "max", "list", "history"],
           ["solve", a, "min", "list", "history"]]
    return {"kind": "list", "ops": ops, "shared": rng.choice([False, True, "one", "one"]), "pattern": "ladder-history"}


def fine_stream(rng, length, hi):
    ops = []
    for _ in range(length):
        r, c = rand_shape(rng, hi)
        op = solve_op(rng, r, c, fam=rng.choice(FINE))
        ops.append(op)
        if rng.random() < 0.3:  # the same values once more, the other way round / the other direction
            ops.append(["solve", [list(col) for col in zip(*op[1])], rand_mode(rng), "list"])
    return {"kind": "list", "ops": ops, "shared": rng.choice([False, False, True, "one"])}


# ---------------------------------------------------------------------- elongated shapes (round 3)
ELONG_OWN = ["ties01", "ties03", "ties03", "wide6", "pos100", "eighths", "hot", "hot", "ranked", "cascade", "cascade", "cascade",
             "contest", "contest", "contest"]
ELONG_OLD = ["small", "neg", "dupcols", "duprows", "rowscale", "colscale", "diagtrap", "planted", "plantedties", "sparsebig",
             "additive", "product", "lexi36", "tiny40", "near1e-9", "widerange"]


def elong_shapes():
    """every shape with a short side of 1..4 and a long side of 5..40, both orientations"""
    return [sh for k in range(1, 5) for n in range(5, 41) for sh in ((k, n), (n, k))]


def gen_elongated(rng, r, c, fam):
    """r x c matrix; the structured families are built for 'few rows, many columns, minimise' and then transposed (tall
    shapes); the caller negates for maximisation."""
    if fam in ELONG_OLD:
        return gen_matrix(rng, r, c, fam)
    a, b = min(r, c), max(r, c)
    A, B = range(a), range(b)
    if fam == "ties01":
        m = [[rng.randint(0, 1) for _ in B] for _ in A]
    elif fam == "ties03":
        top = rng.choice([2, 3, 3, 5])
        m = [[rng.randint(0, top) for _ in B] for _ in A]
    elif fam == "wide6":
        m = [[rng.randint(-10 ** 6, 10 ** 6) for _ in B] for _ in A]
    elif fam == "pos100":
        m = [[rng.randint(1, 100) for _ in B] for _ in A]
    elif fam == "eighths":
        m = [[rng.randint(-64, 64) / 8 for _ in B] for _ in A]
    elif fam == "hot":
        # every row prefers the same few columns: fewer cheap columns than rows, the rest spread out above them
        k = rng.randint(1, a)
        hot = set(rng.sample(range(b), min(k, b)))
        lo_top = rng.choice([0, 1, 3, 8])
        rest_lo = rng.choice([1, 3, 9])
        rest_top = rest_lo + rng.choice([2, 6, 30, 300])
        m = [[(rng.randint(0, lo_top) if j in hot else rng.randint(rest_lo, rest_top)) for j in B] for _ in A]
    elif fam == "contest":
        # generic values, then 2..a rows get their best value in ONE common column: one of them wins it, the others have to
        # fall back on their second choice (which may in turn be somebody's favourite)
        kind = rng.choice(["wide6", "pos100", "eighths", "sixteen"])
        draw = {"wide6": lambda: rng.randint(-10 ** 6, 10 ** 6), "pos100": lambda: rng.randint(1, 100),
                "eighths": lambda: rng.randint(-64, 64) / 8, "sixteen": lambda: rng.randint(0, 15)}[kind]
        m = [[draw() for _ in B] for _ in A]
        for _ in range(rng.choice([1, 1, 2])):
            x = rng.randrange(b)
            for i in rng.sample(range(a), rng.randint(min(2, a), a)):
                m[i][x] = min(m[i]) - rng.choice([0, 1, 1, 2, 5]) * (1000 if kind == "wide6" else 1)
    elif fam == "ranked":
        # one common ranking of the columns, rows differ by a little noise: everybody's favourites coincide
        level = list(range(b))
        rng.shuffle(level)
        step = rng.choice([1, 2, 5])
        noise = rng.choice([0, 1, 2, 4])
        rowbase = [rng.choice([0, 0, 7, -20]) for _ in A]
        m = [[rowbase[i] + step * level[j] + rng.randint(0, noise) for j in B] for i in A]
    elif fam == "cascade":
        # rows q0 and q1 share the favourite p0; q0's second choice p1 is the favourite of q2, whose second choice p2 is
        # the favourite of q3 ...; q1's second choice is dearer.  Whether the whole chain moves depends on the drawn numbers.
        big = rng.choice([10, 20, 50])
        m = [[big + rng.randint(0, rng.choice([0, 3, 10])) for _ in B] for _ in A]
        p = rng.sample(range(b), min(b, a + 1))
        q = list(A)
        rng.shuffle(q)
        d = lambda: rng.randint(1, rng.choice([1, 2, 4]))  # noqa: E731
        f0 = rng.randint(0, 1)
        m[q[0]][p[0]] = f0
        if len(p) > 1:
            m[q[0]][p[1]] = f0 + d()
        if a > 1:
            m[q[1]][p[0]] = rng.randint(0, 1)
            x = rng.randrange(b)
            if x != p[0]:
                m[q[1]][x] = rng.randint(2, big)
        for k in range(2, a):
            if k < len(p):
                fk = rng.randint(0, 1)
                m[q[k]][p[k - 1]] = fk
                m[q[k]][p[k]] = fk + d()
        if rng.random() < 0.3:  # a few more cheap cells anywhere
            for _ in range(rng.randint(1, a)):
                m[rng.randrange(a)][rng.randrange(b)] = rng.randint(0, 6)
        scale = rng.choice([1, 1, 1, 7, 0.125, 1000])
        off = rng.choice([0, 0, -40, 3])
        if scale != 1 or off:
            m = [[x * scale + off for x in row] for row in m]
    else:
        raise ValueError(fam)
    if r > c:
        m = [list(col) for col in zip(*m)]
    return m


def elong_stream(rng, shapes, per_shape):
    """per_shape calls for every listed shape, min / max alternating (the structured families are mirrored for max)."""
    ops = []
    for r, c in shapes:
        for t in range(per_shape):
            fam = rng.choice(ELONG_OWN) if rng.random() < 0.7 else rng.choice(ELONG_OLD)
            m = gen_elongated(rng, r, c, fam)
            mode = ("min", "max")[t % 2] if rng.random() < 0.9 else "default"
            if mode == "max" and fam in ELONG_OWN and rng.random() < 0.85:
                m = [[-x for x in row] for row in m]
            ops.append(["solve", m, mode, rand_form(rng), fam])
    return {"kind": "list", "ops": ops, "shared": rng.choice([False, False, False, True])}


def rand_elong_shape(rng, lo, hi):
    k = rng.choice([1, 2, 3, 3, 4, 4, 5, 5, 6, 6])
    n = int(round(math.exp(rng.uniform(math.log(lo), math.log(hi)))))
    return (k, n) if rng.random() < 0.5 else (n, k)


def elong_random_stream(rng, calls, lo, hi):
    return elong_stream(rng, [rand_elong_shape(rng, lo, hi) for _ in range(calls)], 1)


PATTERNS = ["stale-padding", "tall-wide", "same-n", "many-sizes", "repeat", "flip-mode", "edit"]
MAKERS = {"random": random_stream, "big": big_stream, "history": history_stream, "ladder": ladder_stream,
          "ladder-history": ladder_history, "fine": fine_stream, "elong": elong_stream, "elong-random": elong_random_stream}


def gen(rng, maker, *args):
    return {"kind": "gen", "maker": maker, "seed": rng.getrandbits(48), "args": list(args)}


def pair_pool(vals, n):
    pool = []
    for r, c in same_n_shapes(n):
        for flat in itertools.product(vals, repeat=r * c):
            m = [list(flat[i * c:(i + 1) * c]) for i in range(r)]
            for mode in ("min", "max"):
                pool.append(["solve", m, mode, "list"])
    return pool


def pairs_worker(task):
    """Every ordered pair (A, B) of a pool of calls, each pair in its own fresh process."""
    import solvor.hungarian  # noqa
    import solvor.utils.helpers  # noqa
    vals, n, lo, hi = task
    pool = pair_pool(vals, n)
    N = len(pool)
    res = {"n": 0, "bulk": 0, "keys": [], "viol": [], "n_viol": 0, "sample": None, "pairs": 0}
    for t in range(lo, hi):
        a, b = pool[t // N], pool[t % N]
        spec = {"kind": "list", "ops": [a, b], "shared": False}
        st, out = in_fresh_process(run_stream, spec)
        if st != "ok":
            return {"defect": out}
        res["n"] += out["n"]
        res["pairs"] += 1
        res["n_viol"] += len(out["viol"])
        for idx, obligation, detail in out["viol"]:
            if len(res["viol"]) < 2:
                import time
                case, how = shrink(spec, idx, obligation, time.time() + 1.0)
                res["viol"].append((obligation, case, f"{detail} [{how}]"))
    return res


# ====================================================================== plan
def exh_streams(rows, cols, vals, chunk, modes=("min", "max")):
    total = len(vals) ** (rows * cols)
    return [{"kind": "exh", "rows": rows, "cols": cols, "vals": list(vals), "start": s, "stop": min(total, s + chunk),
             "modes": list(modes)} for s in range(0, total, chunk)]


def plan(ctx: Ctx):
    quick = ctx.quick
    rng = random.Random(ctx.seed * 1000003 + 10)
    exh = []  # (rows, cols, vals)
    for r, c in [(1, 1), (1, 2), (2, 1), (1, 3), (3, 1), (2, 2), (2, 3), (3, 2)]:
        exh.append((r, c, V5))
        exh.append((r, c, VD))
    exh += [(1, 4, V5), (4, 1, V5)]
    exh += [(2, 2, VF5), (2, 2, VT4), (2, 3, VF3), (3, 2, VF3), (2, 3, VE3), (3, 2, VE3)]  # fine-grained
    if quick:
        exh += [(3, 3, V3), (3, 3, VQ), (2, 4, V3), (4, 2, V3), (3, 4, VB), (4, 3, VB), (3, 3, VT3), (3, 3, VF3)]
    else:
        exh += [(3, 3, V5), (2, 4, V5), (4, 2, V5), (3, 3, VD4), (3, 3, VQ), (3, 4, V3), (4, 3, V3), (4, 4, VB), (2, 5, V3),
                (5, 2, V3), (3, 5, VB), (5, 3, VB), (3, 3, VT3), (3, 3, VF4), (3, 3, VE3), (2, 3, VF5), (3, 2, VF5), (2, 4, VF3),
                (4, 2, VF3)]
    streams = []
    spaces = {}
    for r, c, vals in exh:
        streams += exh_streams(r, c, vals, 3000)
        spaces.setdefault((r, c), []).append(list(vals))
        ctx.scope(f"exhaustive {r}x{c}", values=list(vals), matrices=len(vals) ** (r * c), modes=["min", "max"], exhaustive=True)
    exh_spaces = [[list(k), v] for k, v in spaces.items()]
    # assignment_cost, exhaustive: every matrix x every assignment list of length 0..rows+1 over {-2..cols+1}
    for r, c, vals in ([(1, 2, V3), (2, 1, V3), (2, 2, V3)] if quick else [(1, 2, V5), (2, 1, V5), (2, 2, V3), (2, 3, VB), (3, 2, VB)]):
        streams.append({"kind": "ac_exh", "rows": r, "cols": c, "vals": list(vals)})
        ctx.scope(f"assignment_cost exhaustive {r}x{c}", values=list(vals), assignment_entries=f"-2..{c + 1}", lengths=f"0..{r + 1}",
                  exhaustive=True)
    # empty matrices
    streams.append({"kind": "list", "shared": False,
                    "ops": [["solve", [], m, "list"] for m in ("min", "max", "default")] + [["solve", [[]], m, "list"] for m in ("min", "max")]
                    + [["solve", [[], []], "min", "list"]]})
    ctx.scope("empty matrices", cases=["[]", "[[]]", "[[],[]]"], contract="no pair assigned, objective 0")
    # random calls, mixed shapes and families (each stream = one process history)
    n_rand, len_rand = (200, 24) if quick else (6000, 30)
    for _ in range(n_rand):
        streams.append(gen(rng, "random", len_rand, 7))
    ctx.scope("random streams up to 7x7", streams=n_rand, calls_per_stream=len_rand, families=FAMILIES, oracle="permutation enumeration")
    n_mid, len_mid = (60, 12) if quick else (1500, 16)
    for _ in range(n_mid):
        streams.append(gen(rng, "random", len_mid, 10 if quick else 12))
    ctx.scope("random streams up to 10x10 (quick) / 12x12 (thorough)", streams=n_mid, calls_per_stream=len_mid,
              oracle="enumeration when <= 5040 matchings, else subset DP")
    n_big, len_big = (24, 6) if quick else (400, 10)
    for _ in range(n_big):
        streams.append(gen(rng, "big", len_big, 11, 18 if quick else 30))
    ctx.scope("random larger matrices", streams=n_big, calls_per_stream=len_big, sizes="11..18 (quick) / 11..30 (thorough)",
              oracle="subset DP up to 12, beyond: shortest augmenting paths + verified LP-duality certificate")
    n_hist = 300 if quick else 9000
    for t in range(n_hist):
        streams.append(gen(rng, "history", PATTERNS[t % len(PATTERNS)], 5 if t % 3 else 7))
    ctx.scope("history streams (one process per stream, every answer checked)", streams=n_hist, patterns=PATTERNS,
              shared_caller_buffer="30% of streams")
    # fine-grained values only (the general streams above draw them with probability 4/29 per call)
    n_fine, len_fine = (120, 16) if quick else (3000, 24)
    for _ in range(n_fine):
        streams.append(gen(rng, "fine", len_fine, 6))
    ctx.scope("random streams of fine-grained matrices up to 6x6", streams=n_fine, calls_per_stream=len_fine, families=FINE,
              values="integer + k*2^-36; k*2^-40; integer + k*2^-e for e in 20..40; +-2^-31 .. 2^-28 (gaps around 1e-9)",
              oracle="permutation enumeration on the integers obtained by scaling with the common denominator 2^40 (exact)")
    # elongated shapes: every shape (short side 1..4) x (long side 5..40), both orientations; random ones up to 6 x 200 / 200 x 6
    shapes = elong_shapes()
    n_el = 0
    rng_el = random.Random(ctx.seed * 1000003 + 1010)  # its own generator: the streams planned above / below stay what they were
    for r, c in shapes:
        per = (24 if max(r, c) <= 20 else 12) if quick else (320 if max(r, c) <= 20 else 160)
        for _ in range(1 if quick else 4):
            streams.append(gen(rng_el, "elong", [[r, c]], per if quick else per // 4))
        n_el += per
    ctx.scope("elongated shapes, systematic", shapes=len(shapes), short_side="1..4", long_side="5..40", orientations="wide and tall",
              calls=n_el, calls_per_shape="24 (long side <= 20) / 12" if quick else "320 (long side <= 20) / 160",
              families=sorted(set(ELONG_OWN)) + sorted(ELONG_OLD), modes=["min", "max", "default"],
              structure="ties (2..6 distinct values), wide range, hot lines wanted by every line of the short side, one common ranking, "
                        "planted cascades of second choices; mirrored for max, transposed for tall shapes",
              oracle="minmax_dp_short (subset DP over the short side) / permutation enumeration when <= 5040 matchings", exhaustive_over_shapes=True)
    n_er, len_er = (10, 3) if quick else (150, 4)
    for _ in range(n_er):
        streams.append(gen(rng_el, "elong-random", len_er, 41, 200))
    ctx.scope("elongated shapes, random", streams=n_er, calls_per_stream=len_er, short_side="1..6", long_side="41..200 (log-uniform)",
              families=sorted(set(ELONG_OWN)) + sorted(ELONG_OLD), oracle="minmax_dp_short (subset DP over the short side)")
    for s in streams:
        if s["kind"] in ("list", "gen"):
            s["exh_spaces"] = exh_spaces
    # size ladder: every stream is its own pool task, the most expensive first
    ladder = []
    rungs = ([("1000..1025", [1000, 1025], 1, 1, "cheap"), ("513..520", [520, 513], 1, 1, "cheap"),
              ("255..260", list(range(255, 261)), 1, 1, "all"),
              ("127..140", list(range(127, 141)), 2, 1, "all"), ("63..66", [63, 64, 65, 66], 2, 1, "all"),
              ("31..34", [31, 32, 33, 34], 2, 2, "all")] if quick else
             [("1000 (many ties / long paths)", [1000, 1000], 1, 1, "heavy"), ("2048..2049", [2048, 2049], 1, 1, "cheap"),
              ("1000..1030", [1000, 1001, 1023, 1024, 1025, 1030], 2, 1, "cheap"), ("600", [600], 4, 1, "all"),
              ("511..530", list(range(511, 531)), 1, 1, "all"), ("255..260", list(range(255, 261)), 10, 1, "all"),
              ("127..140", list(range(127, 141)), 20, 1, "all"), ("63..66", [63, 64, 65, 66], 25, 1, "all"),
              ("31..34", [31, 32, 33, 34], 25, 2, "all")])
    for name, sizes, reps, per_stream, fams in rungs:
        n_streams = 0
        for rep_ in range(reps):
            for t, n in enumerate(sizes):
                szs = [n] + [sizes[(t + 1 + k) % len(sizes)] for k in range(per_stream - 1)]
                if n >= 500:  # min and max as separate tasks: they run in parallel
                    ladder.append(gen(rng, "ladder", szs, ["min" if (t + rep_) % 2 else "max"], fams))
                else:
                    ladder.append(gen(rng, "ladder", szs, ["min", "max"], fams))
                n_streams += 1
        ctx.scope(f"size ladder {name}", sizes=sizes, streams=n_streams,
                  shapes="square 40%, else tall or wide, short by 1..5" + (" or n/4 or n/2 lines" if fams == "all" else " lines"),
                  modes=["min", "max"], families={"all": sorted(set(LADDER_FAMS)), "cheap": LADDER_CHEAP, "heavy": LADDER_HEAVY}[fams],
                  oracle="optimum_certified: verified LP-duality certificate (exact integers), derived from the returned matching's "
                         "exchange graph or, failing that, from an independent search")
    n_lh = 8 if quick else 120
    for t in range(n_lh):
        ladder.append(gen(rng, "ladder-history", [128, 129, 130, 131, 133, 140, 160, 200][t % 8]))
    ctx.scope("ladder-size histories", streams=n_lh, calls_per_stream=5, sizes=[128, 129, 130, 131, 133, 140, 160, 200],
              pattern="n x n, (n-k) x n minimised, n x (n-k') , the first matrix maximised and minimised again; one caller-side "
                      "object edited in place in half of the streams, one buffer per shape in a quarter")
    streams = ladder + streams
    n_first = len(ladder)
    # exhaustive ordered pairs of calls over a small pool, same padded size 2
    pvals = VB if quick else VP
    N = len(pair_pool(pvals, 2))
    tot = N * N
    step = max(1, tot // 64)
    pair_tasks = [(pvals, 2, s, min(tot, s + step)) for s in range(0, tot, step)]
    ctx.scope("exhaustive ordered pairs of calls (A then B in one fresh process)", pool=f"all 2x2, 1x2, 2x1 matrices over {pvals} x {{min,max}}",
              pool_size=N, pairs=tot, exhaustive=True)
    return streams, n_first, pair_tasks


def run(ctx: Ctx):
    from vf.prove import prove
    prove(ctx, ["specs.helpers", "specs.assignment"], "C10", lemma_groups=["hung"])  # deductive part: assignment_cost, solve_hungarian certificate
    ctx.assumptions.append(
        "C10 proof: solve_hungarian is proved to return a matching that is tight for dual-feasible potentials of the zero-padded "
        "square matrix (certificate clauses of specs/assignment.py); that such a matching is a minimum-cost perfect matching "
        "(weak LP duality) and that perfect matchings of the padded matrix restrict to maximum-cardinality matchings of the "
        "rectangle with the same cost are paper lemmas, not machine-checked; termination of the two while loops is not proved")
    from vf.pool import pmap
    from oracles import assignment as A
    use_repo()
    n_self = A.selftest(random.Random(ctx.seed + 77), 250 if ctx.quick else 3000)
    ctx.notes["oracle_selftest_comparisons"] = n_self
    streams, n_first, pair_tasks = plan(ctx)
    order = list(range(n_first, len(streams)))
    random.Random(ctx.seed).shuffle(order)  # spread heavy streams over the pool chunks
    # one pool for everything: the ladder streams (one task each, largest first), then chunks of four small streams
    tasks = [[streams[i]] for i in range(n_first)] + [[streams[i] for i in order[k:k + 4]] for k in range(0, len(order), 4)]
    results = [r for chunk in pmap(streams_worker, tasks, chunksize=1) for r in chunk]
    results += pmap(pairs_worker, pair_tasks, chunksize=1)
    keys = _Keys()
    n_eval = 0
    samples = []
    history_dependent = 0
    found = []
    ladder_calls = {}
    by_hint = by_search = 0
    for res in results:
        if "defect" in res:
            ctx.defects.append(res["defect"])
            continue
        n_eval += res["n"]
        for n, k in res.get("ladder", {}).items():
            ladder_calls[n] = ladder_calls.get(n, 0) + k
        by_hint += res.get("by_hint", 0)
        by_search += res.get("by_search", 0)
        keys.bulk += res["bulk"]
        keys.update(res["keys"])
        if res["sample"] and len(samples) < 8:
            samples.append(res["sample"])
        for obligation, case, detail in res["viol"]:
            if "HISTORY-DEPENDENT" in detail:
                history_dependent += 1
            if res["n_viol"] > len(res["viol"]):
                detail += f" ({res['n_viol']} violations in this stream)"
            found.append((1 if "NOT reproduced" in detail else 0, _case_size(case), len(found), obligation, case, detail))
    for _, _, _, obligation, case, detail in sorted(found, key=lambda f: f[:3]):  # deterministic reproductions, smallest inputs first
        ctx.violation(obligation, case, detail)
    ctx.nontrivial = keys
    ctx.count(n_eval, (), samples)
    ctx.notes["streams"] = len(streams)
    ctx.notes["pair_histories"] = sum(t[3] - t[2] for t in pair_tasks)
    ctx.notes["history_dependent_violations"] = history_dependent
    ctx.notes["ladder_calls_by_size"] = {str(n): ladder_calls[n] for n in sorted(ladder_calls)}
    ctx.notes["ladder_optima_certified_from_returned_matching"] = by_hint
    ctx.notes["ladder_optima_certified_by_independent_search"] = by_search
    ctx.rule = ("every evaluation is one call of solve_hungarian (or assignment_cost) made in sequence with the other calls of its "
                "stream inside one fresh process, with the full contract checked against an exact oracle. A solve case is "
                "non-trivial when the matrix has matchings of different totals (oracle min != max; from 31 lines on, unless the short "
                "side has at most 6 lines, decided by the exact structural test choice_matters: not a[i]+b[j] / a non-constant line), i.e. "
                "the choice matters; an "
                "assignment_cost case when at least one entry is in range. distinct = different (matrix, min|max): exhaustive "
                "spaces are disjoint index ranges of an injective enumeration and are counted by construction; random/history "
                "cases are de-duplicated by digest and not counted when they fall inside an exhaustively enumerated space")
    ctx.assumptions += [
        "entries are ints and dyadic-rational floats m/2^k whose common-denominator integers satisfy (4n+4)*max|m| < 2^53 "
        "(checked per matrix; |x| <= 2^20 at granularity 2^-10, |x| <= 32 at granularity 2^-40): every float operation of the "
        "algorithm is then exact, so exact optimality (not optimality up to a tolerance) is demanded",
        "rectangular = all rows have the same length >= 1; for matrices without rows or columns only 'no pair, objective 0' is required",
        "a call that does not return within 20 s (+ n^3/10^6 s for the ladder sizes) of CPU time counts as a violation of "
        "ensures:returns",
        "bounded: holds for the enumerated and sampled inputs only",
    ]
    ctx.trusted += [
        "oracles/assignment.py: permutation enumeration, subset DP over the column sets, subset DP over the short side (elongated "
        "shapes), and verify_certificate (weak LP duality; the only trusted "
        "part of minmax_certified and of optimum_certified, which decides the ladder sizes) - cross-validated "
        f"on {n_self} random matrices this run",
        "float.as_integer_ratio for the exact value of a float",
    ]


def _case_size(case):
    if "spec" in case:
        return 10 ** 9
    return sum(len(op[1]) * (len(op[1][0]) if op[1] else 0) for op in case["ops"])


class _Keys(set):
    """Set of digests plus a count of cases that are distinct by construction (exhaustive enumeration)."""
    bulk = 0

    def __len__(self):
        return set.__len__(self) + self.bulk


# ====================================================================== replay
def replay(rec) -> int:
    use_repo()
    case = rec.get("case") or {}
    if "spec" in case:
        spec = expand(case["spec"])
        only = spec.get("only")
        ops = materialize(spec, spec["upto"] if only is None else only + 1)
    else:
        only = None
        ops = case["ops"]
        spec = {"kind": "list", "ops": ops, "shared": case.get("shared") or False}
    out = run_stream(spec)
    for i, op in enumerate(ops):
        v = [(o, d) for k, o, d in out["viol"] if k == i]
        if (only is not None and i != only) or (len(ops) > 12 and not v and i < len(ops) - 1):
            continue
        m = op[1]
        shown = str(m) if len(m) * (len(m[0]) if m else 0) <= 100 else f"<{len(m)}x{len(m[0])} matrix, first row {m[0][:6]}...>"
        what = f"solve_hungarian({shown}, {op[2]})" if op[0] == "solve" else f"assignment_cost({shown}, {op[2]})"
        print(f"call {i}: {what[:300]} -> {'VIOLATES ' + '; '.join(o + ': ' + d for o, d in v) if v else 'contract holds'}")
    print("replay:", "still violates" if out["viol"] else "no violation")
    return 1 if out["viol"] else 0
